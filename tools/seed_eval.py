#!/venv/bin/python
"""tools/seed_eval.py <seed dir with patch.diff [demo.py]> <ID> [<ID> ...]   [--runs N] [--demo]

Evaluates the checks against one seeded change without touching /repo: the patch is applied to a scratch
copy of /repo (outside /repo and /verif), the checks run against it through TRANSACTRON_SRC, the scratch
copy is removed.  With --demo the demonstration is run with and without the change first.
(Equivalent to `git -C /repo apply`, run, `git -C /repo checkout -- .`, but safe while other jobs use /repo.)"""
import json
import os
import re
import shutil
import subprocess
import sys
import tempfile

ROOT = os.path.dirname(os.path.dirname(os.path.abspath(__file__)))


def run(cmd, env=None, cwd=None, timeout=3600):
    p = subprocess.run(cmd, env=env, cwd=cwd, capture_output=True, text=True, timeout=timeout)
    return p.returncode, p.stdout + p.stderr


def main():
    args = [a for a in sys.argv[1:] if not a.startswith("--")]
    seed, ids = args[0], args[1:]
    runs = next((sys.argv[i + 1] for i, a in enumerate(sys.argv) if a == "--runs"), None)
    ids = [i for i in ids if i != runs]
    scratch = tempfile.mkdtemp(prefix="seed_eval_", dir="/tmp")
    out = {"seed": seed, "checks": {}}
    try:
        rc, _ = run(["git", "-C", "/repo", "worktree", "add", "--detach", "-f", os.path.join(scratch, "wt"), "HEAD"])
        wt = os.path.join(scratch, "wt")
        if rc != 0:
            shutil.copytree("/repo", wt, ignore=shutil.ignore_patterns(".git"))
        if "--demo" in sys.argv and os.path.exists(os.path.join(seed, "demo.py")):
            shutil.copy(os.path.join(seed, "demo.py"), os.path.join(wt, "demo_seed.py"))
            env = dict(os.environ, PYTHONPATH=wt)
            cmd = ["/venv/bin/python", "-m", "pytest", "-q", "-p", "no:cacheprovider", "-x", "demo_seed.py"]
            if "def test" not in open(os.path.join(seed, "demo.py")).read():
                cmd = ["/venv/bin/python", "demo_seed.py"]
            rc0, o0 = run(cmd, env=env, cwd=wt)
            out["demo_without_change"] = rc0
        rc, o = run(["git", "apply", os.path.abspath(os.path.join(seed, "patch.diff"))], cwd=wt)
        if rc != 0:
            rc, o = run(["patch", "-p1", "-i", os.path.abspath(os.path.join(seed, "patch.diff"))], cwd=wt)
        out["patch_applied"] = rc == 0
        if rc != 0:
            out["patch_error"] = o[-500:]
            print(json.dumps(out, indent=1))
            return 2
        if "--demo" in sys.argv and os.path.exists(os.path.join(wt, "demo_seed.py")):
            rc1, o1 = run(cmd, env=env, cwd=wt)
            out["demo_with_change"] = rc1
            out["demo_tail"] = o1[-300:]
        env = dict(os.environ, TRANSACTRON_SRC=wt)
        for pid in ids:
            cmd = [os.path.join(ROOT, "check"), pid, "--no-evidence", "--no-selftest"] + (["--runs", runs] if runs else [])
            rc, o = run(cmd, env=env)
            kinds = sorted(set(re.findall(r"kind=(\S+)", o)))
            res = {"exit": rc, "kinds": kinds, "summary": o.strip().splitlines()[-1][:200] if o.strip() else ""}
            m = re.search(r"VIOLATION property=\S+ replay=(\S+)", o)
            if m:
                rp, ro = run([os.path.join(ROOT, "check"), pid, "--replay", m.group(1)], env=env)
                rp0, _ = run([os.path.join(ROOT, "check"), pid, "--replay", m.group(1)])
                res["replay_with_change"] = rp
                res["replay_without_change"] = rp0
                for f in re.findall(r"replay=(\S+)", o):
                    try:
                        os.remove(os.path.join(ROOT, f))
                    except OSError:
                        pass
            out["checks"][pid] = res
    finally:
        run(["git", "-C", "/repo", "worktree", "remove", "--force", os.path.join(scratch, "wt")])
        shutil.rmtree(scratch, ignore_errors=True)
        run(["git", "-C", "/repo", "worktree", "prune"])
    print(json.dumps(out, indent=1))
    return 0


if __name__ == "__main__":
    sys.exit(main())
