#!/venv/bin/python
"""Regenerates MANIFEST.json from the property modules present under dst/props."""
import importlib, json, os, sys

ROOT = os.path.dirname(os.path.dirname(os.path.abspath(__file__)))
sys.path.insert(0, ROOT)

NA = {
    "C36": "pure combinational functions of their inputs (popcount, mod_add, ...): no schedule, clock, fault or history for a simulator to vary; input enumeration is the right tool, not deterministic simulation",
    "C37": "shifters/rotators are pure combinational functions of (value, offset): nothing for a seeded scheduler or fault injector to decide",
    "C38": "encoders, multiplexers and selecting networks are stateless combinational circuits; the property is a pure function of the input valuation",
    "C40": "assign() is a pure Python function from layouts to statements; no concurrency, time, I/O or multi-party behaviour",
    "C41": "data helpers are pure Python / elaboration-time functions of their arguments",
}

props = [json.loads(l) for l in open(os.path.join(ROOT, "properties.jsonl"))]
checks, na = [], []
for p in props:
    pid = p["id"]
    path = os.path.join(ROOT, "dst", "props", pid.lower() + ".py")
    if pid in NA:
        na.append({"property_id": pid, "reason": NA[pid]})
        continue
    if not os.path.exists(path):
        na.append({"property_id": pid, "reason": "not claimed yet: check under construction (see DESIGN.md section 5 for the plan)"})
        continue
    mod = importlib.import_module(f"dst.props.{pid.lower()}")
    P = mod.PROP
    checks.append({
        "property_id": pid,
        "quick_cmd": f"./check {pid} --tier quick",
        "thorough_cmd": f"./check {pid} --tier thorough",
        "evidence_file": f"evidence/{pid}.json",
        "replay_cmd_template": f"./check {pid} --replay {{path}}",
        "engine": getattr(P, "engine", "dst-component"),
        "level_claimed": {
            "category": "exploration",
            "text": getattr(P, "level_text", "seeded deterministic simulation of the real library code against an executable reference model / semantic oracle evaluated in every simulated cycle; evidence, not proof"),
            "design_ref": f"DESIGN.md section 5, {pid}",
        },
        "level_note": getattr(P, "level_note", "trusted: Amaranth elaboration and pysim, the reference model's reading of the property statement; bounded sizes and run lengths (see evidence rule)"),
        "technique": getattr(P, "technique", "deterministic simulation with fault injection (seeded schedules, stalls, flushes, refused calls) checked per cycle against a reference model"),
    })

manifest = {
    "version": 1,
    "setup_cmd": "true",
    "hooks": {
        "guard": "TRANSACTRON_VERIF",
        "enable": "no in-repo hook is needed: every seam is taken from /verif (DESIGN.md 2.3); checks import transactron from /repo's working tree (editable install)",
        "baseline_off_cmd": "cd /repo && /venv/bin/python -m pytest -ra -q -p no:cacheprovider --timeout=900 --continue-on-collection-errors",
        "source_commits": [],
        "add_only": True,
    },
    "engines": [
        {"name": "dst-kernel", "path": "dst/kernel.py", "serves_properties": [c["property_id"] for c in checks],
         "kind_free_text": "seeded cycle driver over Amaranth pysim; seams, digest, replay, shrinking, evidence"},
        {"name": "dst-component", "path": "dst/comp.py", "serves_properties": [c["property_id"] for c in checks if c["engine"] == "dst-component"],
         "kind_free_text": "library component wrapped in real AdapterTrans/Adapter, reference model stepped with the executed call set"},
        {"name": "dst-coregen", "path": "dst/coregen", "serves_properties": [c["property_id"] for c in checks if c["engine"] == "dst-coregen"],
         "kind_free_text": "generated transaction/method programs built with the real TModule API, semantic oracle over observed run signals"},
    ],
    "checks": checks,
    "not_applicable": na,
    "notes": "All checks: ./check <ID> [--tier quick|thorough] [--replay FILE]; VERIF_SEED / VERIF_TIER honoured; exit 0 ok, 1 VIOLATION, 2 harness error. Known findings: known_findings.json. See DESIGN.md.",
}
json.dump(manifest, open(os.path.join(ROOT, "MANIFEST.json"), "w"), indent=1)
print(f"{len(checks)} checks, {len(na)} not applicable/unclaimed")
