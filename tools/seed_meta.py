#!/venv/bin/python
"""tools/seed_meta.py <seed id> <property> "<what it needs to manifest>" <eval json> ["<strengthening note>"]
Writes seeded/<id>/meta.json from a tools/seed_eval.py result."""
import json, os, sys
ROOT = os.path.dirname(os.path.dirname(os.path.abspath(__file__)))
sid, prop, needs, evalf = sys.argv[1:5]
note = sys.argv[5] if len(sys.argv) > 5 else ""
ev = json.load(open(evalf))
meta = {
    "id": sid,
    "property_broken": prop,
    "origin": "written by a fresh sub-agent that was given only the property text and its own scratch worktree of /repo (nothing from /verif)",
    "needs_to_manifest": needs,
    "demo": {"file": "demo.py", "exit_without_change": ev.get("demo_without_change"), "exit_with_change": ev.get("demo_with_change")},
    "ran": ["tools/seed_eval.py seeded/%s %s --demo   (patch applied to a scratch worktree of /repo HEAD, checks run against it through TRANSACTRON_SRC, worktree removed)" % (sid, " ".join(ev["checks"]))],
    "checks": {k: {"exit": v["exit"], "violation_kinds": v["kinds"], "replay_with_change": v.get("replay_with_change"),
                   "replay_without_change": v.get("replay_without_change")} for k, v in ev["checks"].items()},
    "caught_by": [k for k, v in ev["checks"].items() if v["exit"] == 1],
    "strengthening": note,
}
json.dump(meta, open(os.path.join(ROOT, "seeded", sid, "meta.json"), "w"), indent=1)
print(sid, "caught by", meta["caught_by"])
