#!/bin/sh
# tools/robust_eval.sh "<VERIF_SEED list>"  -> for every seeded change: is it caught by its first catching check under other master seeds?
cd "$(dirname "$0")/.." || exit 2
for meta in seeded/*/meta.json; do
  id=$(basename $(dirname $meta))
  chk=$(/venv/bin/python -c "import json; d=json.load(open('$meta')); print(d['caught_by'][0] if d['caught_by'] else '')")
  [ -z "$chk" ] && continue
  scratch=$(mktemp -d /tmp/robust_eval.XXXXXX)
  cp -r /repo/transactron "$scratch/"
  if ! patch -s -p1 -d "$scratch" -i "$PWD/seeded/$id/patch.diff" >/dev/null 2>&1; then echo "$id PATCH-FAILED"; rm -rf "$scratch"; continue; fi
  res=""
  for s in $1; do
    out=$(TRANSACTRON_SRC="$scratch" VERIF_SEED=$s nice -n 5 ./check "$chk" --no-evidence --no-selftest 2>&1); rc=$?
    res="$res seed$s=$rc"
    for f in $(echo "$out" | grep -o "replay=[^ ]*" | cut -d= -f2); do rm -f "$f"; done
  done
  echo "$id $chk$res"
  rm -rf "$scratch"
done
