#!/bin/sh
# usage: tools/mkmutant.sh <name> <file-relative-to-repo> <python-replace-script-on-stdin: old\n====\nnew>
# Creates mutants/<name>.patch (unified diff against /repo) without touching /repo.
set -e
name="$1"; file="$2"
tmp=$(mktemp -d /tmp/mkmut.XXXXXX)
mkdir -p "$tmp/a/$(dirname "$file")" "$tmp/b/$(dirname "$file")"
cp "/repo/$file" "$tmp/a/$file"; cp "/repo/$file" "$tmp/b/$file"
/venv/bin/python - "$tmp/b/$file" <<PY
import sys
spec = open("/dev/stdin").read() if False else None
PY
cat > "$tmp/spec"
/venv/bin/python - "$tmp/b/$file" "$tmp/spec" <<'PY'
import sys
p, spec = sys.argv[1], open(sys.argv[2]).read()
old, new = spec.split("\n====\n")
new = new.rstrip("\n") if new.endswith("\n\n") else new
s = open(p).read()
assert s.count(old) == 1, f"pattern found {s.count(old)} times"
open(p, "w").write(s.replace(old, new))
PY
(cd "$tmp" && diff -u "a/$file" "b/$file" > "/verif/mutants/$name.patch" || true)
rm -rf "$tmp"
echo "wrote mutants/$name.patch ($(wc -l < /verif/mutants/$name.patch) lines)"
