#!/venv/bin/python
"""Prints the markdown table 'which check catches which change' from mutants/*.patch and seeded/*/meta.json."""
import glob, json, os, re
ROOT = os.path.dirname(os.path.dirname(os.path.abspath(__file__)))
rows = []
for p in sorted(glob.glob(os.path.join(ROOT, "mutants", "*.patch"))):
    name = os.path.basename(p)[:-6]
    m = re.match(r"((?:C\d+_?)+)-(.*)", name)
    files = sorted(set(re.findall(r"^\+\+\+ b/(\S+)", open(p).read(), re.M)))
    rows.append((m.group(1).replace("_", ", "), "hand-made mutant", m.group(2).replace("-", " "), ", ".join(f.replace("transactron/", "") for f in files), m.group(1).replace("_", ", "), ""))
for p in sorted(glob.glob(os.path.join(ROOT, "seeded", "*", "meta.json"))):
    d = json.load(open(p))
    files = sorted(set(re.findall(r"^\+\+\+ b/(\S+)", open(os.path.join(os.path.dirname(p), "patch.diff")).read(), re.M)))
    rows.append((d["property_broken"], "seeded " + d["id"], d["needs_to_manifest"][:150] + ("..." if len(d["needs_to_manifest"]) > 150 else ""),
                 ", ".join(f.replace("transactron/", "") for f in files), ", ".join(d["caught_by"]) or "**not detected**",
                 "strengthened after a first miss" if d.get("strengthening") and d["caught_by"] else ""))
print("| aimed at | origin | change / what it needs | files | caught by | note |")
print("|---|---|---|---|---|---|")
for r in sorted(rows):
    print("| " + " | ".join(r) + " |")
