#!/venv/bin/python
"""tools/mkmutant.py <name> <file relative to /repo>   (stdin:  OLD TEXT\\n====\\nNEW TEXT)
Writes mutants/<name>.patch, a unified diff against /repo's file, without touching /repo."""
import difflib, os, sys

name, rel = sys.argv[1], sys.argv[2]
spec = sys.stdin.read()
old, new = spec.split("\n====\n")
if new.endswith("\n") and not old.endswith("\n"):
    new = new[:-1]
src = open(os.path.join("/repo", rel)).read()
assert src.count(old) == 1, f"pattern occurs {src.count(old)} times"
dst = src.replace(old, new)
diff = "".join(difflib.unified_diff(src.splitlines(True), dst.splitlines(True), "a/" + rel, "b/" + rel))
out = os.path.join(os.path.dirname(os.path.dirname(os.path.abspath(__file__))), "mutants", name + ".patch")
# several hunks in several files: append
mode = "a" if os.environ.get("APPEND") else "w"
open(out, mode).write(diff)
print("wrote", out)
