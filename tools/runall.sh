#!/bin/sh
# runs every registered quick check once, prints id, exit code and wall seconds
cd "$(dirname "$0")/.." || exit 2
tier="${1:-quick}"
for id in $(/venv/bin/python -c "import json; print(' '.join(c['property_id'] for c in json.load(open('MANIFEST.json'))['checks']))"); do
  s=$(date +%s.%N)
  out=$(./check "$id" --tier "$tier" 2>&1); rc=$?
  e=$(date +%s.%N)
  printf "%s rc=%s wall=%.1fs | %s\n" "$id" "$rc" "$(echo "$e - $s" | bc)" "$(echo "$out" | tail -1 | cut -c1-200)"
  if [ "$rc" != 0 ]; then echo "$out" | grep -E "VIOLATION|HARNESS|KNOWN" | head -5; fi
done
