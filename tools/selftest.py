import glob, json, os, re, shutil, subprocess, sys, tempfile

ROOT = os.path.dirname(os.path.dirname(os.path.abspath(__file__)))


def sensitivity(pattern=""):
    patches = sorted(p for p in glob.glob(os.path.join(ROOT, "mutants", "*.patch")) if pattern in os.path.basename(p))
    # independently seeded changes: seeded/<id>/patch.diff, expected to be caught by meta.json's "caught_by"
    seeded = {}
    for meta in sorted(glob.glob(os.path.join(ROOT, "seeded", "*", "meta.json"))):
        d = json.load(open(meta))
        if d["caught_by"] and (pattern in "seeded" or pattern in d["id"]):
            pth = os.path.join(os.path.dirname(meta), "patch.diff")
            seeded[pth] = d
            patches.append(pth)
    results = []
    shard = os.environ.get("SENS_SHARD")  # "i/n": this process takes every n-th change (run n of them in parallel)
    if shard:
        i, n = map(int, shard.split("/"))
        patches = patches[i::n]
        os.environ["VERIF_REPLAY_TAG"] = f"-shard{i}"
    for patch in patches:
        if patch in seeded:
            name = "seeded-" + seeded[patch]["id"]
            pids = seeded[patch]["caught_by"][:1]
        else:
            name = os.path.basename(patch)[:-6]
            props = re.match(r"((?:C\d+_?)+)-", name)
            pids = props.group(1).strip("_").split("_") if props else []
        scratch = tempfile.mkdtemp(prefix="verif_mut_", dir="/tmp")
        try:
            shutil.copytree("/repo/transactron", os.path.join(scratch, "transactron"))
            r = subprocess.run(["patch", "-p1", "-d", scratch, "-i", patch], capture_output=True, text=True)
            if r.returncode != 0:
                results.append((name, "PATCH-FAILED", r.stdout[-300:]))
                continue
            for pid in pids:
                env = dict(os.environ, TRANSACTRON_SRC=scratch)
                # elaboration-only checks are cheap and some of their mutants are rare shapes: they get their quick-tier size
                runs = os.environ.get("SENS_RUNS", "600" if pid == "C11" else "200")
                p = subprocess.run([os.path.join(ROOT, "check"), pid, "--runs", runs, "--no-evidence", "--no-selftest"],
                                   env=env, capture_output=True, text=True)
                m = re.search(r"VIOLATION property=\S+ replay=(\S+)", p.stdout)
                verdict = {0: "MISSED", 1: "caught", 2: "HARNESS-ERROR"}.get(p.returncode, str(p.returncode))
                detail = ""
                kinds = re.findall(r"kind=(\S+)", p.stdout)
                if m:
                    rp = subprocess.run([os.path.join(ROOT, "check"), pid, "--replay", m.group(1)], env=env, capture_output=True, text=True)
                    rp0 = subprocess.run([os.path.join(ROOT, "check"), pid, "--replay", m.group(1)], capture_output=True, text=True)
                    detail = f"replay with mutant rc={rp.returncode}, without rc={rp0.returncode}"
                    if rp.returncode != 1 or rp0.returncode != 0:
                        verdict += "(REPLAY-PROBLEM)"
                    for f in re.findall(r"replay=(\S+)", p.stdout):
                        try:
                            os.remove(os.path.join(ROOT, f))
                        except OSError:
                            pass
                if p.returncode == 2:
                    detail = p.stdout[-400:]
                results.append((f"{name} [{pid}]", verdict, f"{sorted(set(kinds))} {detail}"))
                print(f"{name} [{pid}]: {verdict} {sorted(set(kinds))} {detail}", flush=True)
        finally:
            shutil.rmtree(scratch, ignore_errors=True)
    bad = [r for r in results if r[1] != "caught"]
    print(f"sensitivity: {len(results) - len(bad)}/{len(results)} mutants caught")
    return 1 if bad else 0


def determinism(pids):
    rc = 0
    for pid in pids:
        outs = []
        for hs, jobs in (("0", "16"), ("777", "3")):
            env = dict(os.environ, VERIF_HASHSEED=hs)
            idx = ",".join(str(i) for i in range(0, int(os.environ.get("DET_RUNS", "200"))))
            p = subprocess.run([os.path.join(ROOT, "check"), pid, "--digest-indices", idx, "--jobs", jobs], env=env, capture_output=True, text=True)
            line = [l for l in p.stdout.splitlines() if l.startswith("DIGESTS ")]
            outs.append(json.loads(line[0][8:]) if line else None)
        same = outs[0] is not None and outs[0] == outs[1]
        print(f"{pid}: {'deterministic over ' + str(len(outs[0])) + ' runs' if same else 'MISMATCH'}", flush=True)
        if not same:
            rc = 1
            if outs[0] and outs[1]:
                print("  differing indices:", [k for k in outs[0] if outs[0][k] != outs[1].get(k)][:20])
    return rc


def reach():
    """Reads the evidence files of the last runs: a fault kind / boundary event that never fired means the
    workload or the fault mix must change."""
    rc = 0
    for f in sorted(glob.glob(os.path.join(ROOT, "evidence", "*.json"))):
        d = json.load(open(f))
        zero = d["coverage"].get("expected_fault_kinds_never_fired", [])
        print(f"{d['property_id']} [{d['tier']}]: {len(d['coverage'].get('fault_kinds_fired', {}))} kinds fired, never fired: {zero or 'none'}")
        if zero:
            rc = 1
    return rc


if __name__ == "__main__":
    cmd = sys.argv[1] if len(sys.argv) > 1 else ""
    if cmd == "sensitivity":
        sys.exit(sensitivity(sys.argv[2] if len(sys.argv) > 2 else ""))
    if cmd == "determinism":
        pids = sys.argv[2:] or [json.loads(l)["id"] for l in open(os.path.join(ROOT, "properties.jsonl"))
                                if os.path.exists(os.path.join(ROOT, "dst", "props", json.loads(l)["id"].lower() + ".py"))]
        sys.exit(determinism(pids))
    if cmd == "reach":
        sys.exit(reach())
    print(__doc__ or "usage: selftest sensitivity|determinism|reach")
    sys.exit(2)
