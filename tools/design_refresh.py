#!/venv/bin/python
"""tools/design_refresh.py - regenerates the two generated parts of DESIGN.md: the list "what each first miss led to"
in section 10.4 (from seeded/*/meta.json) and appendix 11 (tools/sens_table.py)."""
import glob, json, os, subprocess
ROOT = os.path.dirname(os.path.dirname(os.path.abspath(__file__)))
p = os.path.join(ROOT, "DESIGN.md")
s = open(p).read()
metas = sorted(glob.glob(os.path.join(ROOT, "seeded", "*", "meta.json")),
               key=lambda x: (os.path.basename(os.path.dirname(x)).split("-")[0], int(os.path.basename(os.path.dirname(x)).split("-")[1])))
rows = []
for m in metas:
    d = json.load(open(m))
    if d.get("strengthening"):
        need = d["needs_to_manifest"]
        rows.append(f"* **{d['id']}** ({need[:170].rstrip()}{'…' if len(need) > 170 else ''}) → {d['strengthening']}")
a = s.index("What each of them led to:\n\n") + len("What each of them led to:\n\n")
b = s.index("\nRecurrent patterns behind the misses")
s = s[:a] + "\n".join(rows) + "\n" + s[b:]
n = len(metas)
undetected = [json.load(open(m))["id"] for m in metas if not json.load(open(m))["caught_by"]]
i = s.index("## 11. Appendix")
table = subprocess.run([os.path.join(ROOT, "tools", "sens_table.py")], capture_output=True, text=True).stdout
j = s.index("| aimed at |", i)
s = s[:j] + table
open(p, "w").write(s)
print(f"{n} seeded changes, {len(rows)} with strengthening notes, undetected: {undetected}; {len(glob.glob(os.path.join(ROOT, 'mutants', '*.patch')))} mutants")
