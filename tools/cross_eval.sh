#!/bin/sh
# tools/cross_eval.sh "<seed ids>" "<check ids>" [runs]  -> one line per (seed, check): exit code and kinds
cd "$(dirname "$0")/.." || exit 2
runs="${3:-200}"
for s in $1; do
  scratch=$(mktemp -d /tmp/cross_eval.XXXXXX)
  cp -r /repo/transactron "$scratch/"
  if ! patch -s -p1 -d "$scratch" -i "$PWD/seeded/$s/patch.diff" >/dev/null 2>&1; then echo "$s PATCH-FAILED"; rm -rf "$scratch"; continue; fi
  for c in $2; do
    out=$(TRANSACTRON_SRC="$scratch" nice -n 5 ./check "$c" --runs "$runs" --no-evidence --no-selftest 2>&1); rc=$?
    kinds=$(echo "$out" | grep -o "kind=[a-zA-Z_-]*" | sort -u | tr '\n' ' ')
    echo "$s $c rc=$rc $kinds"
    for f in $(echo "$out" | grep -o "replay=[^ ]*" | cut -d= -f2); do rm -f "$f"; done
  done
  rm -rf "$scratch"
done
