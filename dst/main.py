"""Command line of the checks:  ./check <ID> [--tier quick|thorough] [--replay FILE] [--runs N] [--jobs N]

Exit codes (DESIGN.md 2.2): 0 ok (possibly KNOWN-FINDING lines), 1 violation not covered by
known_findings.json (VIOLATION property=<id> replay=<path>), 2 harness problem.
"""

from __future__ import annotations

import argparse
import importlib
import json
import multiprocessing as mp
import os
import subprocess
import sys
import time
from collections import Counter
from concurrent.futures import ProcessPoolExecutor, wait

from . import kernel
from .kernel import VERIF_DIR, DEFAULT_SEED, h64
from . import shrink as shrinker

WORK = os.path.join(VERIF_DIR, ".work")
REPLAYS = os.path.join(VERIF_DIR, "replays")
EVIDENCE = os.path.join(VERIF_DIR, "evidence")
KNOWN = os.path.join(VERIF_DIR, "known_findings.json")


def load_prop(pid: str):
    mod = importlib.import_module(f"dst.props.{pid.lower()}")
    return mod.PROP


# --------------------------------------------------------------------------------------------
# workers


def _chunk_worker(args):
    pid, seed, tier, indices, budget = args
    import faulthandler

    faulthandler.enable()
    prop = load_prop(pid)
    out = []
    for i in indices:
        r = kernel.run_index(prop, seed, i, tier, keep_log=False, wall_budget=budget)
        if r["status"] == "ok":  # keep the parent's memory small
            r["stimulus"] = None
        r["log"] = None
        out.append(r)
    return out


def run_batch(pid, seed, tier, indices, jobs, budget, batch_wall):
    """Static partition of run indices; results merged in index order (independent of jobs)."""
    indices = list(indices)
    if not indices:
        return []
    nchunks = max(1, min(len(indices), jobs * 4))
    chunks = [indices[k::nchunks] for k in range(nchunks)]
    results = []
    if jobs <= 1:
        for c in chunks:
            results.extend(_chunk_worker((pid, seed, tier, c, budget)))
    else:
        ctx = mp.get_context("fork")
        ex = ProcessPoolExecutor(max_workers=jobs, mp_context=ctx)
        try:
            futs = [ex.submit(_chunk_worker, (pid, seed, tier, c, budget)) for c in chunks]
            done, pending = wait(futs, timeout=batch_wall)
            if pending:
                for p in list(getattr(ex, "_processes", {}).values()):
                    try:
                        p.kill()
                    except Exception:
                        pass
                raise kernel.Inconclusive(f"{len(pending)} chunk(s) did not finish within {batch_wall}s")
            for f in futs:
                results.extend(f.result())
        finally:
            ex.shutdown(wait=False, cancel_futures=True)
    results.sort(key=lambda r: r["index"])
    return results


# --------------------------------------------------------------------------------------------
# known findings


def load_known(pid):
    if not os.path.exists(KNOWN):
        return []
    with open(KNOWN) as f:
        data = json.load(f)
    return [e for e in data.get("findings", []) if e["property"] == pid and e.get("status", "known") == "known"]


def match_entry(entry, feats: dict) -> bool:
    for k, want in entry.get("match", {}).items():
        have = feats.get(k)
        if isinstance(want, list):
            if have not in want:
                return False
        elif have != want:
            return False
    return True


def features_of(prop, res) -> dict:
    feats = {"kind": res["violation"]["kind"]}
    if hasattr(prop, "features"):
        feats.update(prop.features(res["cfg"], res["violation"]))
    return feats


# --------------------------------------------------------------------------------------------
# replay files


def repo_rev():
    try:
        src = os.environ.get("TRANSACTRON_SRC") or "/repo"
        head = subprocess.run(["git", "-C", src, "rev-parse", "HEAD"], capture_output=True, text=True).stdout.strip()
        dirty = subprocess.run(["git", "-C", src, "status", "--porcelain", "-uno"], capture_output=True, text=True).stdout.strip()
        return head + ("+dirty" if dirty else "")
    except Exception:
        return "unknown"


def write_replay(prop, seed, res, minimized):
    os.makedirs(REPLAYS, exist_ok=True)
    # VERIF_REPLAY_TAG keeps concurrent batches of one property (sensitivity shards) from sharing file names
    path = os.path.join(REPLAYS, f"{prop.ID}-{seed}-{res['index']}{os.environ.get('VERIF_REPLAY_TAG', '')}.json")
    doc = {
        "property": prop.ID,
        "master_seed": seed,
        "run_index": res["index"],
        "repo_rev": repo_rev(),
        "original": {
            "cfg": res["cfg"],
            "salt": res["salt"],
            "stimulus": res["stimulus"],
            "violation": res["violation"],
            "digest": res["digest"],
        },
        "minimized": minimized,
    }
    with open(path, "w") as f:
        json.dump(doc, f, indent=1, sort_keys=True)
    return os.path.relpath(path, VERIF_DIR)


def do_replay(prop, path, verbose=True):
    with open(path) as f:
        doc = json.load(f)
    worst = 0
    for which in ("minimized", "original"):
        rec = doc.get(which)
        if not rec:
            continue
        r = kernel.replay_record(prop, rec["cfg"], rec["salt"], rec["stimulus"], keep_log=True)
        want = rec["violation"]
        if r["status"] == "violation":
            same = r["violation"]["kind"] == want["kind"] and r["violation"]["cycle"] == want["cycle"]
            exact = same and r["digest"] == rec["digest"]
            print(f"replay[{which}]: violation kind={r['violation']['kind']} cycle={r['violation']['cycle']} "
                  f"{'(exact: same kind, cycle, digest)' if exact else '(same kind/cycle, digest differs)' if same else '(DIFFERENT from recorded ' + want['kind'] + '@' + str(want['cycle']) + ')'}")
            print(f"  detail: {r['violation']['detail']}")
            if verbose and which == "minimized":
                for line in r["log"][-6:]:
                    print("  ", json.dumps(line, sort_keys=True)[:600])
            worst = max(worst, 1)
        elif r["status"] in ("ok", "premise", "skipped"):
            print(f"replay[{which}]: NOT-REPRODUCED (status {r['status']})")
        else:
            print(f"replay[{which}]: HARNESS-ERROR {r['status']}: {r['violation']}")
            worst = max(worst, 2)
    if worst == 1:
        print(f"VIOLATION property={prop.ID} replay={os.path.relpath(path, VERIF_DIR) if os.path.isabs(path) else path}")
    return worst


# --------------------------------------------------------------------------------------------
# determinism self-test: same run in a fresh interpreter, other hash seed, other worker count


def digests_subprocess(pid, seed, tier, indices, hashseed, jobs):
    env = dict(os.environ)
    env["VERIF_HASHSEED"] = str(hashseed)
    cmd = [os.path.join(VERIF_DIR, "check"), pid, "--tier", tier, "--seed", str(seed), "--jobs", str(jobs),
           "--digest-indices", ",".join(map(str, indices))]
    p = subprocess.run(cmd, env=env, capture_output=True, text=True, timeout=1800)
    for line in p.stdout.splitlines():
        if line.startswith("DIGESTS "):
            return {int(k): v for k, v in json.loads(line[8:]).items()}
    raise RuntimeError(f"digest subprocess failed: rc={p.returncode}\n{p.stdout[-2000:]}\n{p.stderr[-2000:]}")


# --------------------------------------------------------------------------------------------


def main(argv):
    ap = argparse.ArgumentParser(prog="check")
    ap.add_argument("pid")
    ap.add_argument("--tier", default=os.environ.get("VERIF_TIER") or "quick", choices=["quick", "thorough"])
    ap.add_argument("--seed", type=int, default=None)
    ap.add_argument("--runs", type=int, default=None)
    ap.add_argument("--jobs", type=int, default=None)
    ap.add_argument("--replay", default=None)
    ap.add_argument("--digest-indices", default=None)
    ap.add_argument("--index", type=int, default=None, help="run one index verbosely")
    ap.add_argument("--no-selftest", action="store_true")
    ap.add_argument("--no-evidence", action="store_true")
    args = ap.parse_args(argv)

    pid = args.pid.upper()
    seed = args.seed if args.seed is not None else int(os.environ.get("VERIF_SEED") or DEFAULT_SEED)
    try:
        prop = load_prop(pid)
    except Exception as e:
        print(f"HARNESS-ERROR cannot load property module for {pid}: {type(e).__name__}: {e}")
        import traceback

        traceback.print_exc()
        return 2
    tier = args.tier
    tcfg = prop.tiers[tier]
    jobs = args.jobs or int(os.environ.get("VERIF_JOBS") or min(16, os.cpu_count() or 1))
    budget = float(tcfg.get("run_budget_s", 60))

    if args.replay:
        return do_replay(prop, args.replay)

    if args.digest_indices is not None:
        idx = [int(x) for x in args.digest_indices.split(",") if x]
        rs = run_batch(pid, seed, tier, idx, jobs, budget, 1500)
        print("DIGESTS " + json.dumps({str(r["index"]): r["digest"] + ":" + r["status"] for r in rs}))
        return 0

    if args.index is not None:
        r = kernel.run_index(prop, seed, args.index, tier, keep_log=True, wall_budget=budget)
        print(json.dumps({k: r[k] for k in ("status", "cfg", "salt", "cycles", "digest", "violation", "cov")},
                         sort_keys=True, default=str)[:3000])
        for line in r["log"][-4:]:
            print(json.dumps(line, sort_keys=True)[:600])
        return 0 if r["status"] == "ok" else 1

    print(f"check {pid} tier={tier} VERIF_SEED={seed} jobs={jobs} repo={repo_rev()}")
    t0 = time.time()
    nruns = args.runs if args.runs is not None else int(tcfg["runs"])
    exit_code = 0
    harness_msgs = []
    try:
        results = run_batch(pid, seed, tier, range(nruns), jobs, budget, float(tcfg.get("batch_wall_s", 3000)))
    except Exception as e:
        print(f"HARNESS-ERROR batch failed: {type(e).__name__}: {e}")
        return 2
    wall_runs = time.time() - t0

    # ---- classify ------------------------------------------------------------------------
    known = load_known(pid)
    viols = [r for r in results if r["status"] == "violation"]
    bad = [r for r in results if r["status"] in ("inconclusive", "harness_error", "premise")]
    skipped = [r for r in results if r["status"] == "skipped"]
    if len(skipped) * 4 > len(results):  # the property could not be evaluated on too many runs
        bad += skipped[:3]
    for r in bad[:5]:
        harness_msgs.append(f"run {r['index']}: {r['status']}: {r['violation'].get('detail')}")
        if r["violation"].get("traceback"):
            harness_msgs.append(r["violation"]["traceback"])
    classes: dict = {}
    known_hits = Counter()
    for r in viols:
        feats = features_of(prop, r)
        ent = next((e for e in known if match_entry(e, feats)), None)
        if ent is not None:
            known_hits[ent["id"]] += 1
            continue
        key = json.dumps(prop.violation_class(feats) if hasattr(prop, "violation_class") else feats, sort_keys=True)
        classes.setdefault(key, r)

    replay_paths = []
    for key, r in classes.items():
        try:
            minimized = shrinker.minimise(prop, r, budget_s=float(tcfg.get("shrink_budget_s", 30)))
        except Exception as e:  # shrinking is best effort; the original trace is always kept
            minimized = None
            harness_msgs.append(f"shrink failed for run {r['index']}: {type(e).__name__}: {e}")
        path = write_replay(prop, seed, r, minimized)
        replay_paths.append(path)
        v = (minimized or r)["violation"]
        print(f"violation class {key}")
        print(f"  run={r['index']} kind={v['kind']} cycle={v['cycle']} detail={v['detail']}")
        print(f"VIOLATION property={pid} replay={path}")
        exit_code = 1

    # ---- known findings: re-observe each listed finding through its pinned witness ---------
    known_observed = []
    for e in known:
        w = e.get("witness")
        ok = False
        if w:
            try:
                with open(os.path.join(VERIF_DIR, w)) as f:
                    doc = json.load(f)
                rec = doc.get("minimized") or doc["original"]
                rr = kernel.replay_record(prop, rec["cfg"], rec["salt"], rec["stimulus"])
                ok = rr["status"] == "violation" and match_entry(e, features_of(prop, rr))
            except Exception as ex:
                harness_msgs.append(f"known finding {e['id']}: witness could not be replayed: {ex}")
        if ok or known_hits[e["id"]]:
            print(f"KNOWN-FINDING: property={pid} {e['id']} {e['what']} "
                  f"(witness {'reproduced' if ok else 'not reproduced'}, {known_hits[e['id']]} seeded run(s) matched)")
            known_observed.append(e["id"])

    # ---- determinism self-test -----------------------------------------------------------
    det = {"checked": 0, "mismatches": 0, "skipped": bool(args.no_selftest)}
    if not args.no_selftest and results:
        k = int(tcfg.get("selftest_runs", 4))
        pick = sorted(set([results[(len(results) * j) // k]["index"] for j in range(k)] +
                          [r["index"] for r in classes.values()]))
        try:
            other = digests_subprocess(pid, seed, tier, pick, hashseed=12345, jobs=max(1, min(3, jobs // 2 + 1)))
            byidx = {r["index"]: r for r in results}
            for i in pick:
                det["checked"] += 1
                mine = byidx[i]["digest"] + ":" + byidx[i]["status"]
                if other.get(i) != mine:
                    det["mismatches"] += 1
                    harness_msgs.append(f"determinism mismatch at run {i}: {mine} vs {other.get(i)}")
        except Exception as e:
            harness_msgs.append(f"determinism self-test could not run: {e}")
            det["mismatches"] += 1

    wall = time.time() - t0
    if (bad or det["mismatches"]) and exit_code == 0:
        exit_code = 2  # never 0 when some run decided nothing or replay is not exact

    # ---- evidence --------------------------------------------------------------------------
    if not args.no_evidence:
        try:
            from .evidence import write_evidence

            write_evidence(prop, tier, seed, results, wall, wall_runs, jobs, det, known_observed, known_hits,
                           len(classes), replay_paths)
        except Exception as e:
            import traceback

            traceback.print_exc()
            harness_msgs.append(f"evidence could not be written: {type(e).__name__}: {e}")
            if exit_code == 0:
                exit_code = 2

    for msg in harness_msgs:
        print(f"HARNESS-ERROR {msg}")
    nok = sum(1 for r in results if r["status"] == "ok")
    cyc = sum(r["cycles"] for r in results)
    print(f"{pid}: runs={len(results)} ok={nok} violations={len(viols)} (unlisted classes={len(classes)}, "
          f"known={sum(known_hits.values())}) skipped={len(skipped)} other={len(bad)} cycles={cyc} wall={wall:.1f}s "
          f"determinism={det['checked'] - det['mismatches']}/{det['checked']} exit={exit_code}")
    return exit_code
