"""Deterministic-simulation kernel shared by every property check (DESIGN.md section 2).

One run = pure function of (property, master seed, run index) and the code under /repo:

    rs = H(master_seed, property, run_index)  ->  random.Random(rs)
    salt (internal set order)  ->  swarm configuration  ->  design  ->  per-cycle stimulus

The design is built with the *real* library, simulated by Amaranth's pysim under a single
testbench (the cycle driver) which applies the stimulus, samples the settled observations,
feeds them to the scenario's oracle and folds everything into the run digest.
"""

from __future__ import annotations

import hashlib
import itertools
import os
import random
import signal
import sys
import time
import traceback
from collections import Counter

_SRC = os.environ.get("TRANSACTRON_SRC")
if _SRC:  # self-tests point the harness at a scratch copy of the repository
    sys.path.insert(0, _SRC)

import warnings

warnings.filterwarnings("ignore", message=".*created but never used.*")
os.environ.setdefault("AMARANTH_ENV_unused_elaboratable", "0")

DEFAULT_SEED = 20260921
VERIF_DIR = os.path.dirname(os.path.dirname(os.path.abspath(__file__)))


def h64(*parts) -> int:
    return int.from_bytes(hashlib.blake2b(repr(parts).encode(), digest_size=8).digest(), "big")


class Violation(Exception):
    """The oracle saw the property broken.  `kind` names the violation class."""

    def __init__(self, kind: str, detail: str = "", **info):
        super().__init__(f"{kind}: {detail}")
        self.kind = kind
        self.detail = detail
        self.info = info


class PremiseBroken(Exception):
    """A (shrunk or replayed) stimulus left the premise of the property; the run decides nothing."""


class Skip(Exception):
    """The run cannot evaluate this property (e.g. the design did not elaborate and rejection is another
    property's business).  Counted, never ok-by-default: too many skips make the check fail as a harness error."""


class Inconclusive(Exception):
    """Watchdog fired / run could not be completed.  Never counted as ok."""


class _Alarm(BaseException):
    pass


def _on_alarm(signum, frame):
    raise _Alarm()


_preloaded = False


def _preload():
    """Import everything with lazy / registering imports (networkx dispatch registry, amaranth back ends)
    before a watchdog can interrupt it half-way and leave a corrupted module behind."""
    global _preloaded
    if _preloaded:
        return
    import networkx  # noqa: F401
    import networkx.algorithms.dag  # noqa: F401
    import amaranth.sim  # noqa: F401
    import amaranth.sim.pysim  # noqa: F401
    import transactron  # noqa: F401
    import transactron.lib  # noqa: F401
    import transactron.testing  # noqa: F401

    networkx.lexicographical_topological_sort(networkx.DiGraph({1: {2}}))
    list(networkx.lexicographical_topological_sort(networkx.DiGraph({1: {2}})))
    _preloaded = True


# --------------------------------------------------------------------------------------------
# seams


def install_seams(salt: int):
    """Take ownership of every source of nondeterminism inside the library (DESIGN.md 2.3)."""
    from transactron.core.body import Body
    from transactron.core.tmodule import TModule
    from transactron.utils.dependencies import DependencyContext

    Body.def_counter = itertools.count()
    del Body.stack[:]
    TModule._TModule__next_uid = 0
    del DependencyContext.stack[:]

    def body_hash(self, _salt=salt):
        return h64(_salt, self.def_order)

    Body.__hash__ = body_hash  # type: ignore[method-assign]

    try:
        from transactron.testing.method_mock import MethodMock

        if hasattr(MethodMock, "_current_mock"):
            MethodMock._current_mock = None
    except Exception:
        pass


def scheduler_by_name(name: str):
    from transactron.core.schedulers import eager_deterministic_cc_scheduler, trivial_roundrobin_cc_scheduler

    return {"eager": eager_deterministic_cc_scheduler, "rr": trivial_roundrobin_cc_scheduler}[name]


# --------------------------------------------------------------------------------------------
# scenario base class


class Scenario:
    """Workload + oracle of one run.  Subclasses fill `inp`/`obs` in build()."""

    transactional = True  # wrap in TransactronContextElaboratable
    simulated = True  # False: order-of-operations scenario without a clock (run_direct)
    check_netlist = False  # C10: build the netlist of the simulated design and check comb cycles
    elab_failure_is_violation = True  # False: an elaboration error is another property's business (C11)

    def __init__(self, cfg: dict):
        self.cfg = cfg
        self.cov: Counter = Counter()
        self.states: set = set()
        self.nontrivial: set = set()
        self.inp: dict = {}
        self.obs: dict = {}
        self.extra_processes: list = []  # (kind, fn) added next to the cycle driver (C33-C35, C43)
        self.notes: dict = {}

    # -- to be provided -----------------------------------------------------------------
    def build(self):
        raise NotImplementedError

    def cycles(self) -> int:
        return int(self.cfg.get("cycles", 100))

    def stimulus(self, rng: random.Random, cyc: int) -> dict:
        raise NotImplementedError

    def check(self, cyc: int, stim: dict, obs: dict):
        raise NotImplementedError

    def finish(self):
        pass

    def post_elab(self, tm):
        """Called after elaboration with the TransactionManager (its transaction list is final)."""

    def run_direct(self, rng, recorded):
        """simulated = False: an order-of-operations scenario without a clock.  One "cycle" is one
        operation: stimulus(rng, i) generates it (a JSON-able dict), apply(i, op) executes it on the
        real object and the model, raises Violation on disagreement and returns what was observed."""
        n = len(recorded) if recorded is not None else self.cycles()
        for i in range(n):
            self.res["cycles"] = i
            op = recorded[i] if recorded is not None else self.stimulus(rng, i)
            self.res["stimulus"].append(op)
            out = self.apply(i, op)
            self.hasher.update(repr((i, sorted(op.items()), out)).encode())
            if self.keep_log:
                self.res["log"].append({"cycle": i, "stim": op, "obs": out})
        self.res["cycles"] = n
        self.finish()

    def apply(self, i: int, op: dict):
        raise NotImplementedError

    # -- helpers ------------------------------------------------------------------------
    def hit(self, name: str, n: int = 1):
        self.cov[name] += n

    def visit(self, sig, nontrivial: bool = False):
        h = h64(sig)
        self.states.add(h)
        if nontrivial:
            self.nontrivial.add(h)


class ElabRejected(Exception):
    """Elaboration of the design raised; carries the original exception."""

    def __init__(self, exc: BaseException):
        super().__init__(f"{type(exc).__name__}: {exc}")
        self.exc = exc


# --------------------------------------------------------------------------------------------
# one run


def run_scenario(prop, cfg: dict, salt: int, rng: random.Random | None, recorded: list | None, *, keep_log=False,
                 wall_budget: float = 60.0, max_cycles: int | None = None) -> dict:
    """Execute one run.  Exactly one of rng / recorded drives the stimulus."""
    t0 = time.time()
    res = {
        "status": "ok",
        "cfg": cfg,
        "salt": salt,
        "cycles": 0,
        "digest": "",
        "cov": {},
        "states": [],
        "nontrivial": [],
        "violation": None,
        "stimulus": [],
        "log": [],
        "notes": {},
    }
    hasher = hashlib.blake2b(digest_size=16)
    hasher.update(repr(("cfg", _canon(cfg), salt)).encode())
    scen = None
    # The per-run budget is CPU time of this process (ITIMER_VIRTUAL): a spinning combinational loop burns
    # CPU and is stopped, while a loaded machine cannot make a healthy run look hung.  A wall-clock timer
    # twenty times as long is the backstop for a run that blocks without using CPU.
    _preload()
    old_handler = signal.signal(signal.SIGALRM, _on_alarm)
    old_vhandler = signal.signal(signal.SIGVTALRM, _on_alarm)
    signal.setitimer(signal.ITIMER_VIRTUAL, wall_budget)
    signal.setitimer(signal.ITIMER_REAL, wall_budget * 20)
    try:
        install_seams(salt)
        scen = prop.make(cfg)
        _execute(prop, scen, cfg, rng, recorded, res, hasher, keep_log, max_cycles)
    except Violation as v:
        res["status"] = "violation"
        res["violation"] = {"kind": v.kind, "cycle": res["cycles"], "detail": v.detail, "info": _canon(v.info)}
        hasher.update(repr(("violation", v.kind, res["cycles"])).encode())
    except Skip as e:
        res["status"] = "skipped"
        res["violation"] = {"kind": "skipped", "cycle": res["cycles"], "detail": str(e)}
    except PremiseBroken as e:
        res["status"] = "premise"
        res["violation"] = {"kind": "premise", "cycle": res["cycles"], "detail": str(e)}
    except _Alarm:
        res["status"] = "inconclusive"
        res["violation"] = {"kind": "watchdog", "cycle": res["cycles"], "detail": f"run budget of {wall_budget}s CPU (or {wall_budget * 20}s wall) exceeded"}
    except Inconclusive as e:
        res["status"] = "inconclusive"
        res["violation"] = {"kind": "inconclusive", "cycle": res["cycles"], "detail": str(e)}
    except Exception as e:  # harness problem: never a violation, never ok
        res["status"] = "harness_error"
        res["violation"] = {
            "kind": "harness",
            "cycle": res["cycles"],
            "detail": f"{type(e).__name__}: {e}",
            "traceback": traceback.format_exc(),
        }
    finally:
        signal.setitimer(signal.ITIMER_VIRTUAL, 0)
        signal.setitimer(signal.ITIMER_REAL, 0)
        signal.signal(signal.SIGALRM, old_handler)
        signal.signal(signal.SIGVTALRM, old_vhandler)
        try:
            install_seams(0)  # leave no half-open body / dependency context behind
        except Exception:
            pass
    if scen is not None:
        res["cov"] = dict(scen.cov)
        res["states"] = sorted(scen.states)
        res["nontrivial"] = sorted(scen.nontrivial)
        res["notes"] = scen.notes
    res["digest"] = hasher.hexdigest()
    res["wall_s"] = time.time() - t0
    return res


def _canon(x):
    if isinstance(x, dict):
        return {str(k): _canon(v) for k, v in sorted(x.items(), key=lambda kv: str(kv[0]))}
    if isinstance(x, (list, tuple)):
        return [_canon(v) for v in x]
    if isinstance(x, (set, frozenset)):
        return sorted(_canon(v) for v in x)
    if isinstance(x, (int, str, bool, float)) or x is None:
        return x
    return repr(x)


def _execute(prop, scen: Scenario, cfg, rng, recorded, res, hasher, keep_log, max_cycles):
    if not scen.simulated:
        scen.res = res
        scen.hasher = hasher
        scen.keep_log = keep_log
        scen.run_direct(rng, recorded)
        return

    from amaranth.sim import Simulator
    from transactron.core import TransactronContextElaboratable
    from transactron.core.manager import TransactionManager
    from transactron.utils.dependencies import DependencyContext, DependencyManager

    dm = DependencyManager()
    try:
        with DependencyContext(dm):
            top = scen.build()
            if scen.transactional:
                tm = TransactionManager(scheduler_by_name(cfg.get("sched", "eager")))
                top = TransactronContextElaboratable(top, dependency_manager=dm, transaction_manager=tm)
            sim = Simulator(top)
    except (Violation, PremiseBroken, Inconclusive, Skip, _Alarm):
        raise
    except Exception as e:
        if hasattr(scen, "on_elab_error") and scen.on_elab_error(e):
            hasher.update(repr(("rejected", type(e).__name__)).encode())
            return  # the scenario expected elaboration to be refused (C11 rejection half)
        tb = traceback.extract_tb(e.__traceback__)
        if tb and os.path.abspath(tb[-1].filename).startswith(VERIF_DIR + os.sep):
            raise  # raised by harness code itself: a harness error, not a verdict about the library
        where = f"{os.path.basename(tb[-1].filename)}:{tb[-1].name}" if tb else "?"
        if not scen.elab_failure_is_violation:
            raise Skip(f"design did not elaborate ({type(e).__name__} at {where}: {str(e)[:200]})")
        raise Violation("elaboration-failed", f"{type(e).__name__} at {where}: {str(e)[:300]}",
                        exc=type(e).__name__, where=where)
    if hasattr(scen, "on_elab_ok"):
        scen.on_elab_ok()
    scen.sim = sim
    if scen.transactional:
        scen.tm = tm
        scen.post_elab(tm)

    if scen.check_netlist:
        from amaranth.hdl._ir import build_netlist
        from amaranth.hdl import CombinationalCycle

        try:
            build_netlist(sim._design)
        except CombinationalCycle as e:
            if getattr(scen, "comb_cycle_is_violation", True):
                raise Violation("comb-cycle", str(e)[:400])
            raise Skip("design has a combinational cycle (C10's business); not simulated: " + str(e)[:160])

    ncycles = scen.cycles()
    if recorded is not None:
        ncycles = len(recorded)
    if max_cycles is not None:
        ncycles = min(ncycles, max_cycles)
    if ncycles == 0:
        return

    sim.add_clock(1e-6)
    inp = scen.inp
    obs_items = list(scen.obs.items())
    stim_log = res["stimulus"]
    log = res["log"]
    failure: list = []

    from amaranth.hdl import Value as _Value

    in_width = {}
    for name, sig in inp.items():
        try:
            val = _Value.cast(sig)
            if not val.shape().signed:
                in_width[name] = len(val)
        except Exception:
            pass

    async def driver(ctx):
        last: dict = {}
        try:
            for cyc in range(ncycles):
                res["cycles"] = cyc
                if recorded is not None:
                    stim = recorded[cyc]
                else:
                    stim = scen.stimulus(rng, cyc)
                for name, w in in_width.items():  # a recorded / shrunk value wider than its port is applied
                    v = stim.get(name, 0)         # truncated: the oracle must see what the hardware sees
                    if isinstance(v, int) and v >> w and v > 0:
                        stim = dict(stim)
                        stim[name] = v & ((1 << w) - 1)
                stim_log.append(stim)
                for name, sig in inp.items():
                    v = stim.get(name, 0)
                    if last.get(name) != v:
                        ctx.set(sig, v)
                        last[name] = v
                if hasattr(scen, "pre_observe"):
                    scen.pre_observe(ctx, cyc, stim)
                obs = {name: ctx.get(sig) for name, sig in obs_items}
                line = (cyc, sorted(stim.items()), [obs[n] for n, _ in obs_items])
                hasher.update(repr(line).encode())
                if keep_log:
                    log.append({"cycle": cyc, "stim": {k: v for k, v in stim.items() if v}, "obs": obs})
                scen.check(cyc, stim, obs)
                await ctx.tick()
            res["cycles"] = ncycles
            scen.finish()
        except BaseException as e:  # carried out of the simulator unchanged
            failure.append(e)

    for kind, fn in scen.extra_processes:
        if kind == "process":
            sim.add_process(fn)
        elif kind == "testbench":
            sim.add_testbench(fn)
        elif kind == "background":
            sim.add_testbench(fn, background=True)
    sim.add_testbench(driver)
    try:
        sim.run()
    except (Violation, PremiseBroken, Inconclusive, Skip, _Alarm):
        raise
    except Exception as e:
        if hasattr(scen, "on_sim_error"):
            scen.on_sim_error(e)
        raise
    if failure:
        raise failure[0]
    if hasattr(scen, "after_sim"):
        scen.after_sim()


# --------------------------------------------------------------------------------------------
# a run addressed by (seed, property, index)


def run_index(prop, master_seed: int, idx: int, tier: str, *, keep_log=False, wall_budget=60.0) -> dict:
    rs = h64(master_seed, prop.ID, idx)
    rng = random.Random(rs)
    salt = rng.getrandbits(32)
    prop.master_seed = master_seed  # lets a property derive sub-seeds shared between neighbouring runs
    cfg = prop.gen_config(rng, tier, idx)
    res = run_scenario(prop, cfg, salt, rng, None, keep_log=keep_log, wall_budget=wall_budget)
    res["index"] = idx
    res["run_seed"] = rs
    return res


def replay_record(prop, cfg, salt, stimulus, *, keep_log=False, wall_budget=60.0, max_cycles=None) -> dict:
    return run_scenario(prop, cfg, salt, None, stimulus, keep_log=keep_log, wall_budget=wall_budget,
                        max_cycles=max_cycles)
