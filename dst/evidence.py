"""Evidence file of one check invocation (schema: /root/.vp/EVIDENCE.schema.json, level exploration).

Every number is measured on this invocation: merged coverage counters of the runs, distinct
state signatures (64-bit hashes, union over runs), simulated cycles, wall time."""

from __future__ import annotations

import json
import os
from collections import Counter

from . import kernel
from .kernel import VERIF_DIR, h64


def write_evidence(prop, tier, seed, results, wall, wall_runs, jobs, det, known_observed, known_hits, nclasses,
                   replay_paths):
    cov = Counter()
    states = set()
    nontrivial = set()
    cfgsigs = set()
    status = Counter()
    cycles = 0
    scheds = Counter()
    for r in results:
        status[r["status"]] += 1
        cycles += r["cycles"]
        for k, v in r["cov"].items():
            cov[k] += v
        cs = h64(json.dumps(prop.cfg_signature(r["cfg"]) if hasattr(prop, "cfg_signature") else r["cfg"],
                            sort_keys=True, default=str))
        cfgsigs.add(cs)
        for s in r["states"]:
            states.add(h64(cs, s))
        for s in r["nontrivial"]:
            nontrivial.add(h64(cs, s))
        scheds[r["cfg"].get("sched", "n/a")] += 1

    expected = list(getattr(prop, "expected_cov", []))
    zero = [k for k in expected if cov.get(k, 0) == 0]

    # a few complete runs, written out: re-executed in this process with the event log kept
    samples = []
    want = [r["index"] for r in results[:1]] + [r["index"] for r in results if r["status"] == "violation"][:1]
    for i in want:
        rr = kernel.run_index(prop, seed, i, tier, keep_log=True)
        samples.append({
            "run_index": i,
            "run_seed": rr["run_seed"],
            "status": rr["status"],
            "cfg": rr["cfg"],
            "salt": rr["salt"],
            "cycles": rr["cycles"],
            "digest": rr["digest"],
            "first_cycles": rr["log"][:8],
            "violation": rr["violation"],
            "fired": rr["cov"],
        })

    nruns = len(results)
    doc = {
        "property_id": prop.ID,
        "tier": tier,
        "seed": seed,
        "level": "exploration",
        "wall_s": round(wall, 3),
        "violations": status["violation"],
        "coverage": {
            "evaluations": nruns,
            "distinct_nontrivial": len(nontrivial),
            "rule": prop.rule,
            "samples": samples,
            "runs_ok": status["ok"],
            "runs_violation": status["violation"],
            "runs_inconclusive_or_harness_error": status["inconclusive"] + status["harness_error"] + status["premise"],
            "runs_skipped_not_evaluable": status["skipped"],
            "unlisted_violation_classes": nclasses,
            "replay_files": replay_paths,
            "known_findings_observed": known_observed,
            "known_finding_run_matches": dict(known_hits),
            "simulated_cycles": cycles,
            "simulated_time_us": cycles,  # one simulated clock of 1 MHz
            "distinct_configurations": len(cfgsigs),
            "distinct_states": len(states),
            "state_measure": getattr(prop, "state_measure", "per-scenario abstract state signature x executed call set"),
            "fault_kinds_fired": dict(sorted(cov.items())),
            "expected_fault_kinds_never_fired": zero,
            "schedulers": dict(scheds),
            "runs_per_hour": round(nruns / wall_runs * 3600) if wall_runs > 0 else 0,
            "seeds_per_hour": round(nruns / wall_runs * 3600) if wall_runs > 0 else 0,
            "simulated_cycles_per_hour": round(cycles / wall_runs * 3600) if wall_runs > 0 else 0,
            "workers": jobs,
            "determinism_selftest": det,
            "real_components": getattr(prop, "real", []),
            "stub_components": getattr(prop, "stubs", []),
            "technique": "deterministic simulation with fault injection: seeded search over "
                         + getattr(prop, "search_space", "configurations, schedules and fault sequences"),
        },
        "assumptions": list(getattr(prop, "assumptions", [])) + [
            "Amaranth elaboration and pysim are trusted (the simulator the repository's own tests use)",
            "sampling, not proof: no violation in the stated number of seeded runs of the stated shape and size",
        ],
    }
    os.makedirs(os.path.join(VERIF_DIR, "evidence"), exist_ok=True)
    path = os.path.join(VERIF_DIR, "evidence", f"{prop.ID}.json")
    tmp = path + ".tmp"
    with open(tmp, "w") as f:
        json.dump(doc, f, indent=1, sort_keys=True, default=str)
    os.replace(tmp, path)
    return path
