"""Component engine (DESIGN.md section 4): a library component wrapped in real AdapterTrans /
Adapter instances whose request bits, arguments, readiness and results the cycle driver owns."""

from __future__ import annotations

import random

from amaranth import *
from amaranth.lib import data

from .kernel import Scenario, Violation, PremiseBroken


def leaves(v, prefix=""):
    """Flatten a View / Signal into (path, assignable value) pairs, one per scalar leaf."""
    if isinstance(v, data.View):
        layout = v.shape()
        if isinstance(layout, data.StructLayout):
            out = []
            for name in layout.members:
                out += leaves(v[name], f"{prefix}{name}" if not prefix else f"{prefix}.{name}")
            return out
        if isinstance(layout, data.ArrayLayout):
            out = []
            for i in range(layout.length):
                out += leaves(v[i], f"{prefix}.{i}" if prefix else str(i))
            return out
        return [(prefix or "v", v.as_value())]
    val = Value.cast(v)
    if len(val) == 0:
        return []
    return [(prefix or "v", v)]


def width_of(v) -> int:
    return len(Value.cast(v))


class Top(Elaboratable):
    """Plain container: the component(s) under test and their adapters as submodules."""

    def __init__(self):
        self.subs: list = []
        self.comb: list = []

    def add(self, name, sub):
        self.subs.append((name, sub))
        return sub

    def elaborate(self, platform):
        from transactron import TModule

        m = TModule()
        dummy = Signal(name="verif_dummy_sync")
        m.d.sync += dummy.eq(~dummy)  # guarantees a sync domain for add_clock
        for name, sub in self.subs:
            m.submodules[name] = sub
        for stmt in self.comb:
            m.d.comb += stmt
        return m


class VAdapter(Elaboratable):
    """Like transactron.lib.Adapter, but the method it defines has a real (hardware) validate_arguments
    predicate: the first field of the argument must differ from K.  A stub of the harness."""

    def __init__(self, method, k):
        from transactron import Method

        self.iface = Method(i=method.layout_in, o=method.layout_out)
        method.provide(self.iface)
        self.k = k
        self.en = Signal()
        self.done = Signal()
        self.data_in = Signal(method.layout_out)   # what the method returns
        self.data_out = Signal(method.layout_in)   # the argument it was called with
        self.first = next(iter(method.layout_in.members))

    def elaborate(self, platform):
        from transactron import TModule, def_method

        m = TModule()
        first, k = self.first, self.k

        @def_method(m, self.iface, ready=self.en, validate_arguments=lambda arg: arg[first] != k)
        def _(arg):
            m.d.top_comb += self.data_out.eq(arg)
            m.d.comb += self.done.eq(1)
            return self.data_in

        return m


class CompScenario(Scenario):
    def __init__(self, cfg):
        super().__init__(cfg)
        self.top = Top()
        self.top._MustUse__silence = True  # scenarios of plain modules do not elaborate the container
        self.widths: dict = {}
        self.signed: set = set()
        self.callers: dict = {}

    # -- ports ------------------------------------------------------------------------------
    def add_input(self, name, sig):
        self.inp[name] = sig
        self.widths[name] = width_of(sig)

    def add_obs(self, name, sig):
        self.obs[name] = sig

    def caller(self, name, method):
        """AdapterTrans calling a method the component provides."""
        from transactron.lib import AdapterTrans

        at = AdapterTrans.create(method)
        self.top.add(f"at_{name}", at)
        self.add_input(f"{name}.en", at.en)
        for path, sig in leaves(at.data_in):
            self.add_input(f"{name}.i.{path}", sig)
        self.add_obs(f"{name}.done", at.done)
        for path, sig in leaves(at.data_out):
            self.add_obs(f"{name}.o.{path}", sig)
        self.callers[name] = at
        return at

    # -- twin callers: a second, independent transaction calling the same input-less exclusive method -------
    def twin(self, name, method):
        """Several units may share one method.  For an exclusive method at most one of them is served per
        cycle; a component that serves both (e.g. because the method silently became nonexclusive) hands one
        element / identifier / permit to two owners."""
        self.caller(name + "_twin", method)
        self.twins = getattr(self, "twins", []) + [name]

    def twin_stim(self, rng, stim, p=0.5):
        for name in getattr(self, "twins", []):
            stim[name + "_twin.en"] = int(rng.random() < p)
        return stim

    def fold_twins(self, stim, obs):
        """Present the twin's call as a call of the primary caller (the oracle then needs no changes); both
        served in one cycle is the violation."""
        twins = getattr(self, "twins", [])
        if not twins:
            return stim, obs
        stim, obs = dict(stim), dict(obs)
        for name in twins:
            t = name + "_twin"
            pd, td = obs.get(f"{name}.done", 0), obs.get(f"{t}.done", 0)
            if pd and td:
                raise Violation("exclusive-method-served-two-callers",
                                f"two independent callers of `{name}` were both served in one cycle", port=name)
            if stim.get(f"{t}.en", 0):
                self.hit("twin_caller_requested")
                if stim.get(f"{name}.en", 0):
                    self.hit("twin_callers_contend")
            if td or (stim.get(f"{t}.en", 0) and not stim.get(f"{name}.en", 0)):
                for k in list(obs):
                    if k.startswith(t + "."):
                        obs[name + k[len(t):]] = obs[k]
                stim[f"{name}.en"] = 1
                if td:
                    self.hit("twin_caller_served")
        return stim, obs

    def post_elab(self, tm):
        # `<name>.runnable`: the calling transaction is requested and everything it calls is ready and
        # accepts its arguments -- "the method is ready" as a caller experiences it.  (Method.ready of a
        # method that delegates, like BasicFifo.read, is constant 1: readiness comes from its callees.)
        for name, at in self.callers.items():
            ts = [t for t in tm.transactions if getattr(t, "owner", None) is at]
            if len(ts) != 1:
                if getattr(self, "lenient_callers", False):
                    continue  # e.g. merged with another transaction by simultaneous(): no own transaction left
                raise RuntimeError(f"cannot identify the transaction of caller {name}")
            self.add_obs(f"{name}.runnable", ts[0].runnable)

    def callee(self, name, method=None, i=(), o=(), **kwargs):
        """Adapter defining a method the component requires (a stalled / flapping peer)."""
        from transactron.lib import Adapter

        if method is not None:
            ad = Adapter.create(method, **kwargs)
        else:
            ad = Adapter(name=name, i=i, o=o, **kwargs)
        self.top.add(f"ad_{name}", ad)
        self.add_input(f"{name}.en", ad.en)
        for path, sig in leaves(ad.data_in):
            self.add_input(f"{name}.ret.{path}", sig)
        self.add_obs(f"{name}.done", ad.done)
        for path, sig in leaves(ad.data_out):
            self.add_obs(f"{name}.arg.{path}", sig)
        return ad

    def vcallee(self, name, method, k):
        """A required method provided by a stub whose validate_arguments rejects first-field == k."""
        ad = VAdapter(method, k)
        self.top.add(f"vad_{name}", ad)
        self.add_input(f"{name}.en", ad.en)
        for path, sig in leaves(ad.data_in):
            self.add_input(f"{name}.ret.{path}", sig)
        self.add_obs(f"{name}.done", ad.done)
        for path, sig in leaves(ad.data_out):
            self.add_obs(f"{name}.arg.{path}", sig)
        return ad

    # -- stimulus helpers ---------------------------------------------------------------
    def rnd(self, rng: random.Random, name: str) -> int:
        w = self.widths[name]
        if w == 0:
            return 0
        r = rng.random()
        if r < 0.1:
            return 0
        if r < 0.2:
            return (1 << w) - 1
        return rng.getrandbits(w)

    def rnd_all_data(self, rng, stim, prefix):
        for name in self.inp:
            if name.startswith(prefix) and not name.endswith(".en"):
                stim[name] = self.rnd(rng, name)

    # -- oracle helpers -----------------------------------------------------------------
    def expect(self, cond, kind, detail="", **info):
        if not cond:
            raise Violation(kind, detail, **info)

    def premise(self, cond, what):
        if not cond:
            raise PremiseBroken(what)


class Phases:
    """Phase plan of a run (DESIGN.md 2.4): each phase biases the PRNG, never replaces it."""

    def __init__(self, rng: random.Random, total: int, kinds: list, min_len=8, max_len=48):
        self.plan = []
        t = 0
        while t < total:
            k = rng.choice(kinds)
            ln = rng.randint(min_len, max_len)
            self.plan.append((t, k, {"p": rng.choice([0.1, 0.3, 0.5, 0.7, 0.9, 1.0]), "q": rng.random()}))
            t += ln
        self.i = 0

    def at(self, cyc):
        while self.i + 1 < len(self.plan) and self.plan[self.i + 1][0] <= cyc:
            self.i += 1
        return self.plan[self.i][1], self.plan[self.i][2]


# ---------------------------------------------------------------------------------------------------
# Data layouts described in the (JSON) configuration.  A layout spec is a list of [name, shape]; a shape is
#     int                    unsigned(int)
#     ["s", w]               signed(w)
#     ["a", shape, n]        ArrayLayout(shape, n)
#     [[name, shape], ...]   nested struct
# (the old form [[name, width], ...] is a special case, so old replay files still load).

def _is_struct_spec(shape):
    return isinstance(shape, (list, tuple)) and all(isinstance(f, (list, tuple)) for f in shape)


def shape_from_spec(shape, struct_objects=False):
    """Amaranth shape of a shape spec.  Nested structs stay lists (the LayoutList form the library documents)
    unless struct_objects is set, then they become data.StructLayout objects."""
    if isinstance(shape, int):
        return shape
    if _is_struct_spec(shape):
        fields = [(n, shape_from_spec(s, struct_objects)) for n, s in shape]
        if struct_objects:
            return data.StructLayout({n: _as_shape(s) for n, s in fields})
        return fields
    if shape[0] == "s":
        return signed(shape[1])
    if shape[0] == "a":
        return data.ArrayLayout(_as_shape(shape_from_spec(shape[1], struct_objects)), shape[2])
    raise ValueError(f"bad shape spec {shape!r}")


def _as_shape(s):
    if isinstance(s, list):  # LayoutList -> StructLayout (what from_method_layout does)
        return data.StructLayout({n: _as_shape(v) for n, v in s})
    return s


def layout_from_spec(spec, struct_objects=False):
    """Method layout (list of (name, shape) pairs, or a StructLayout object) of a layout spec."""
    if struct_objects:
        return shape_from_spec(spec, True)
    return [(n, shape_from_spec(s)) for n, s in spec]


def spec_leaves(shape, prefix=""):
    """[(path, width, signed)] of the scalar leaves of a shape spec, in the order (and with the paths) `leaves`
    gives for a View of that shape.  A scalar shape at the top has path "" (prefix alone)."""
    if isinstance(shape, int):
        return [(prefix, shape, False)]
    if _is_struct_spec(shape):
        out = []
        for n, s in shape:
            out += spec_leaves(s, f"{prefix}.{n}" if prefix else n)
        return out
    if shape[0] == "s":
        return [(prefix, shape[1], True)]
    if shape[0] == "a":
        out = []
        for i in range(shape[2]):
            out += spec_leaves(shape[1], f"{prefix}.{i}" if prefix else str(i))
        return out
    raise ValueError(f"bad shape spec {shape!r}")


def to_leaf(u, w, sgn):
    """The integer to drive / expect on a leaf of width w for the w-bit pattern u."""
    u &= (1 << w) - 1
    if sgn and w and u >> (w - 1):
        u -= 1 << w
    return u


def spread(counter, mul, w, sgn=False):
    """Unique value for a unique counter (< 2**w), spread over all w bits: multiplication by an odd constant is
    a bijection modulo 2**w."""
    return to_leaf(counter * (mul | 1), w, sgn)


def rand_leaf(rng, w, sgn=False):
    r = rng.random()
    if r < 0.08:
        u = 0
    elif r < 0.16:
        u = (1 << w) - 1
    elif r < 0.22:
        u = 1 << (w - 1) if w else 0
    else:
        u = rng.getrandbits(w) if w else 0
    return to_leaf(u, w, sgn)


def rand_shape_spec(rng, depth=0, wide=64, arrays=True):
    """A random shape (scalar, signed, array or nested struct) for an extra field."""
    r = rng.random()
    if not arrays and 0.70 <= r < 0.80:
        r = rng.random() * 0.70
    if r < 0.30:
        return rng.choice([1, 1, 2, 3, 5, 8])
    if r < 0.50:
        return rng.choice([17, 24, 31, 32, 33, 48, wide])
    if r < 0.70:
        return ["s", rng.choice([1, 2, 7, 8, 13, 32, 40])]
    if r < 0.80:
        return ["a", rng.choice([1, 4, 9, ["s", 6]]), rng.randint(1, 3)]
    if depth < 2:
        return [[f"m{k}", rand_shape_spec(rng, depth + 1, wide, arrays)] for k in range(rng.randint(1, 3))]
    return rng.choice([1, 4, 16])


def rand_layout_spec(rng, rich, first="tag", tag_widths=(10, 12, 16), arrays=True):
    """Layout spec whose first leaf (the tag) is at least 10 bits wide.  rich=False: the narrow 1-2 field layouts
    the checks always used; rich=True: wide / signed / 1-bit / 3-4 field / nested / array layouts."""
    if not rich:
        spec = [[first, rng.choice(list(tag_widths))]]
        if rng.random() < 0.4:
            spec.append(["aux", rng.choice([1, 3, 8])])
        return spec
    r = rng.random()
    if r < 0.45:
        tag = rng.choice([10, 16, 24, 32, 33, 48, 64])
    elif r < 0.65:
        tag = ["s", rng.choice([10, 12, 16, 32, 40])]
    elif r < 0.85:
        tag = [["t", rng.choice([12, 20, 32, ["s", 14]])], ["u", rand_shape_spec(rng, 1, arrays=arrays)]]
    else:
        tag = rng.choice(list(tag_widths))
    spec = [[first, tag]]
    for k in range(rng.choice([0, 1, 1, 2, 3])):
        spec.append([f"f{k}", rand_shape_spec(rng, arrays=arrays)])
    return spec
