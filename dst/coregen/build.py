"""Builder: turns a program (JSON-able tree, see gen.py) into real Transactron code using the public
API a user writes: Transaction().body, def_method, m.If/Elif/Else/Switch/Case/Default/FSM/State,
method(m, arg, enable_call=...), condition(m, ...), add_conflict / schedule_before / simultaneous,
Method.provide / Methods.provide.  Every boolean / argument the hardware can see is a free input."""

from __future__ import annotations

from functools import reduce

from amaranth import *


def mask(w):
    return (1 << w) - 1


class Built:
    """Handles to everything the oracle observes."""

    def __init__(self):
        self.inputs = {}  # id -> Signal
        self.methods = {}  # id -> Method (defined ones and aliases)
        self.trans = {}  # id -> Transaction
        self.site = {}  # sid -> dict(wc=, wa=, res=)
        self.body_av = {}  # body id -> av witness at the definition position
        self.wit = {}  # wid -> Signal
        self.fsm = {}  # fid -> (FSM object, [state names])
        self.branch = {}  # bid -> comb witness inside a condition() branch
        self.branch_run = {}  # bid -> run signal of the branch's own body
        self.callobj = {}  # alias id -> object to call instead of the Method (one-element Methods collection)


class GenModule(Elaboratable):
    def __init__(self, prog, idx, built: Built):
        self.prog = prog
        self.idx = idx
        self.b = built

    def elaborate(self, platform):
        from transactron import TModule

        m = TModule()
        if self.idx == 0:
            dummy = Signal(name="verif_dummy_sync")
            m.d.sync += dummy.eq(~dummy)
            for k, sub in enumerate(self.submods):
                m.submodules[f"gm{k + 1}"] = sub
        Emitter(self.prog, self.b, m).emit_list(self.prog["tree"][self.idx], None)
        if self.idx == len(self.prog["tree"]) - 1:  # elaborated last: every body exists now
            apply_relations(self.prog, self.b)
        return m


def build_program(prog) -> tuple[Elaboratable, Built]:
    """Must run inside the run's DependencyContext (Method.provide registers there)."""
    from transactron import Method, Methods

    b = Built()
    for iid, w in prog["inputs"].items():
        b.inputs[iid] = Signal(w, name=iid)
    for md in prog["methods"]:
        i = [("x", md["iw"])] if md["iw"] else []
        o = [("y", md["ow"])] if md["ow"] else []
        b.methods[md["id"]] = Method(name=md["id"], i=i, o=o)
    mdefs = {md["id"]: md for md in prog["methods"]}
    groups = {}
    for al in prog.get("aliases", []):
        if al.get("group"):
            groups.setdefault(al["group"], []).append(al)
    for gid, members in groups.items():
        members.sort(key=lambda a: a["index"])
        if len(members) != members[0]["size"]:
            continue  # the collection was cut by shrinking: its members fall back to single aliases below
        tgts = [b.methods[a["target"]] for a in members]
        ms = Methods(len(members), name=gid, i=tgts[0].layout_in, o=tgts[0].layout_out)
        ms.provide(tgts)
        for a, mth in zip(members, ms):
            b.methods[a["id"]] = mth
    for al in prog.get("aliases", []):
        if al["id"] in b.methods:
            continue
        tgt = b.methods[al["target"]]
        if al.get("via") == "methods":
            ms = Methods(1, name=al["id"], i=tgt.layout_in, o=tgt.layout_out)
            ms.provide([tgt])
            b.methods[al["id"]] = ms[0]
            b.callobj[al["id"]] = ms  # a one-element collection is called as an object: Methods.__call__
        else:
            am = Method(name=al["id"], i=tgt.layout_in, o=tgt.layout_out)
            am.provide(tgt)
            b.methods[al["id"]] = am
    b.mdefs = mdefs
    mods = [GenModule(prog, k, b) for k in range(len(prog["tree"]))]
    mods[0].submods = mods[1:]
    return mods[0], b


def apply_relations(prog, b: Built):
    """add_conflict / schedule_before / simultaneous between bodies; called once all bodies exist."""
    from transactron.core import Priority

    def obj(ref):
        return b.trans[ref] if ref in b.trans else b.methods[ref]

    for r in prog.get("relations", []):
        a, c = obj(r["a"]), obj(r["b"])
        if r["kind"] == "conflict":
            a.add_conflict(c, {"U": Priority.UNDEFINED, "L": Priority.LEFT, "R": Priority.RIGHT}[r.get("prio", "U")])
        elif r["kind"] == "before":
            a.schedule_before(c, ready_dependent=bool(r.get("rdep")))
        elif r["kind"] == "simultaneous":
            a.simultaneous(c)


class Emitter:
    def __init__(self, prog, built: Built, m):
        self.prog = prog
        self.b = built
        self.m = m
        self.din_of = {}

    def inp(self, iid, din=None):
        if iid.startswith("x:"):  # (input & mask): a multi-bit expression used as a condition
            _, src, msk = iid.split(":")
            return self.b.inputs[src] & int(msk)
        if iid.startswith("d:"):  # a bit (or the two low bits) of the enclosing method's data_in
            _, mid, bit = iid.split(":")
            x = self.din_of[mid].x
            return x[:2] if bit == "s" else x[int(bit)]
        return self.b.inputs[iid]

    def emit_list(self, nodes, din):
        for node in nodes:
            getattr(self, "emit_" + node[0])(node[1], din)

    # ---- bodies -----------------------------------------------------------------------------
    def emit_T(self, n, din):
        from transactron import Transaction

        m = self.m
        av = Signal(name=f"{n['id']}_defav")
        m.d.av_comb += av.eq(1)
        self.b.body_av[n["id"]] = av
        t = Transaction(name=n["id"])
        self.b.trans[n["id"]] = t
        ready = self.inp(n["ready"]) if n.get("ready") else C(1)
        if n.get("rdy_run"):  # Forwarder-style: readiness depends on the run of a body scheduled before
            ready = ready | self.run_of(n["rdy_run"])
        with t.body(m, ready=ready):
            self.emit_list(n["body"], None)

    def run_of(self, ref):
        return self.b.trans[ref].run if ref in self.b.trans else self.b.methods[ref].run

    def emit_M(self, n, din):
        from transactron import def_method

        m = self.m
        md = self.b.mdefs[n["id"]]
        meth = self.b.methods[n["id"]]
        av = Signal(name=f"{n['id']}_defav")
        m.d.av_comb += av.eq(1)
        self.b.body_av[n["id"]] = av
        kwargs = {}
        if md.get("nonex"):
            kwargs["nonexclusive"] = True
            if md["iw"]:
                kwargs["combiner"] = make_combiner(md["comb"], md["iw"])
        if md.get("single"):
            kwargs["single_caller"] = True
        if md.get("val"):
            kwargs["validate_arguments"] = make_validator(md["val"])
        ready = self.inp(md["ready"]) if md.get("ready") else C(1)
        if md.get("rdy_run"):
            ready = ready | self.run_of(md["rdy_run"])
        emitter = self

        @def_method(m, meth, ready=ready, **kwargs)
        def _(arg):
            emitter.din_of[n["id"]] = arg
            emitter.emit_list(n["body"], arg)
            if md["ow"]:
                base = (arg.x + md["k"]) if md["iw"] else C(md["k"], md["ow"])
                r = emitter.inp(md["ret"]) if md.get("ret") else C(0, md["ow"])
                return {"y": (base ^ r)[: md["ow"]]}
            return None

    # ---- calls ------------------------------------------------------------------------------
    def emit_C(self, n, din):
        m = self.m
        meth = self.b.callobj.get(n["m"], self.b.methods[n["m"]])
        tgt = self.target_def(n["m"])
        wc = Signal(name=f"{n['sid']}_wc")
        wa = Signal(name=f"{n['sid']}_wa")
        m.d.comb += wc.eq(1)
        m.d.av_comb += wa.eq(1)
        kwargs = {}
        if n.get("en") in ("c0", "c1"):
            v = int(n["en"] == "c1")
            kwargs["enable_call"] = [C(v), v, bool(v)][n.get("enform", 0) % 3]
        elif n.get("en"):
            kwargs["enable_call"] = self.inp(n["en"])
        if tgt["iw"]:
            if n.get("argsrc") == "din" and din is not None:
                arg = Cat(din.x ^ (n["k"] & mask(len(din.x))), C(0, tgt["iw"]))[: tgt["iw"]]
            elif n.get("arg"):
                arg = self.inp(n["arg"]) ^ (n["k"] & mask(tgt["iw"]))
            else:
                arg = C(n["k"] & mask(tgt["iw"]), tgt["iw"])
            ret = meth(m, x=arg, **kwargs)
        else:
            ret = meth(m, **kwargs)
        d = {"wc": wc, "wa": wa}
        if tgt["ow"]:
            res = Signal(tgt["ow"], name=f"{n['sid']}_res")
            m.d.top_comb += res.eq(ret.y)
            d["res"] = res
        self.b.site[n["sid"]] = d

    def target_def(self, ref):
        al = {a["id"]: a for a in self.prog.get("aliases", [])}
        while ref in al:
            ref = al[ref]["target"]
        return self.b.mdefs[ref]

    # ---- witnesses --------------------------------------------------------------------------
    def emit_W(self, n, din):
        m = self.m
        if n["dom"] == "sync":
            w = Signal(6, name=n["wid"])
            m.d.sync += w.eq(w + 1)
        else:
            w = Signal(name=n["wid"])
            dom = {"comb": m.d.comb, "av": m.d.av_comb, "top": m.d.top_comb}[n["dom"]]
            dom += w.eq(1)
        self.b.wit[n["wid"]] = w

    # ---- control structures -----------------------------------------------------------------
    def emit_If(self, n, din):
        m = self.m
        for k, (cond, body) in enumerate(n["arms"]):
            ctx = m.If(self.inp(cond)) if k == 0 else m.Elif(self.inp(cond))
            with ctx:
                self.emit_list(body, din)
        if n.get("else") is not None:
            with m.Else():
                self.emit_list(n["else"], din)

    def emit_Sw(self, n, din):
        m = self.m
        with m.Switch(self.inp(n["test"])):
            for val, body in n["cases"]:
                with m.Case(*(val if isinstance(val, list) else [val])):
                    self.emit_list(body, din)
            if n.get("default") is not None:
                with m.Default():
                    self.emit_list(n["default"], din)

    def emit_Fsm(self, n, din):
        m = self.m
        with m.FSM(name=n["fid"]) as fsm:
            for st in n["states"]:
                with m.State(st["name"]):
                    self.emit_list(st["body"], din)
                    if st.get("adv"):
                        with m.If(self.inp(st["adv"])):
                            m.next = st["next"]
        self.b.fsm[n["fid"]] = (fsm, [st["name"] for st in n["states"]])

    # ---- condition() --------------------------------------------------------------------------
    def emit_Cond(self, n, din):
        from transactron.lib.simultaneous import condition

        m = self.m
        with condition(m, nonblocking=bool(n.get("nonblocking")), priority=bool(n.get("priority"))) as branch:
            for br in n["branches"]:
                ctx = branch(self.inp(br["cond"])) if br.get("cond") else branch()
                with ctx:
                    from transactron.core.body import Body

                    w = Signal(name=f"{br['bid']}_bw")
                    m.d.comb += w.eq(1)
                    self.b.branch[br["bid"]] = w
                    # the branch is a nested transaction: its own run signal (the comb witness is additionally
                    # gated by the run of every enclosing body)
                    self.b.branch_run[br["bid"]] = Body.get().run
                    self.emit_list(br["body"], din)


def make_combiner(kind, iw):
    def comb(m, args, runs):
        terms = [Mux(runs[i], args[i].x, 0) for i in range(len(args))]
        if not terms:
            return {"x": C(0, iw)}
        if kind == "or":
            return {"x": reduce(lambda a, b: a | b, terms)}
        if kind == "cnt":  # not the identity on a single call: the sum of the active arguments plus their number
            return {"x": (reduce(lambda a, b: a + b, terms) + sum(runs[i] for i in range(len(args))))[:iw]}
        return {"x": reduce(lambda a, b: a + b, terms)[:iw]}

    return comb


def make_validator(spec):
    op, k = spec

    def val(x):
        if op == "ne":
            return x != k
        if op == "lt":
            return x < k
        if op == "bit0":
            return x[0] == k
        if op == "mask":  # a multi-bit result: non-zero means accepted
            return x & k
        raise ValueError(op)

    return val


def eval_validator(spec, x):
    op, k = spec
    return {"ne": x != k, "lt": x < k, "bit0": (x & 1) == k, "mask": (x & k) != 0}[op]
