"""Scenario for generated designs: builds the program with the real library, drives every free input
from the run PRNG and evaluates the semantic invariants of the core properties (DESIGN.md 3.2) on
the observed run / witness / data signals of every cycle."""

from __future__ import annotations

from ..kernel import Scenario, Violation
from .analysis import Analysis
from .build import build_program, eval_validator, mask


def case_values(v, width=2):
    """values matched by one m.Case: an int, a list of ints, or a bit pattern with don't-care positions"""
    if isinstance(v, list):
        return {int(x) for x in v}
    if isinstance(v, str):
        return {x for x in range(1 << width) if all(c in "-" + str((x >> (width - 1 - i)) & 1) for i, c in enumerate(v))}
    return {int(v)}


def _pos_excl(s1, s2):
    from .analysis import pos_exclusive

    return pos_exclusive(s1.mod, s1.pos, s2.mod, s2.pos)


class CoreScenario(Scenario):
    """cfg: {"prog": program, "sched": ..., "cycles": n, "plan": [...], "checks": [...]}"""

    def __init__(self, cfg):
        super().__init__(cfg)
        self.prog = cfg["prog"]
        self.a = Analysis(self.prog)
        self.checks = set(cfg.get("checks", []))
        # every generated design passes the structural check before it is simulated (an oscillating
        # loop would spin pysim inside one delta cycle); only C10 reports a cycle as a violation
        self.check_netlist = True
        self.comb_cycle_is_violation = "C10" in self.checks
        # acceptance of well-formed designs is C11's claim (and C10's, whose statement says "elaborates")
        self.elab_failure_is_violation = bool(self.checks & {"C10", "C11"})
        self.fsm_state = {fid: 0 for fid in self.a.fsms}
        self.sync_expect = {}
        self.structs = self.a.structs()
        self.rel = self.a.relation_table() if self.checks & {"C01", "C07", "C08", "C09", "C35"} else {}
        self.expl = self.a.explicit_pairs()
        self.bits = [i for i, w in self.prog["inputs"].items() if w == 1]
        self.datas = [i for i, w in self.prog["inputs"].items() if w > 1]
        self.phase_state = {}
        self.sweep_pos = 0
        self.wait = {}
        self._val_hits = self._validator_hits()

    # ---- build ------------------------------------------------------------------------------
    def build(self):
        top, self.b = build_program(self.prog)
        for iid, sig in self.b.inputs.items():
            self.inp[iid] = sig
        return top

    def on_elab_error(self, e):
        # one transaction using both sides of a conflict on paths that are not mutually exclusive cannot honour
        # the conflict; refusing the design is the library's answer (after fix F8) and counts as the property held
        if isinstance(e, RuntimeError) and "conflict" in str(e) and any(d[0] == "self-conflict" for d in self.a.defects()):
            self.hit("self_conflict_design_refused")
            return True
        return False

    def post_elab(self, tm):
        b, o = self.b, self.obs
        for tid, t in b.trans.items():
            o[f"{tid}.run"] = t.run
            o[f"{tid}.ready"] = t.ready
        for mid, m in b.methods.items():
            o[f"{mid}.run"] = m.run
            o[f"{mid}.ready"] = m.ready
            if len(m.data_in.as_value()):
                o[f"{mid}.din"] = m.data_in.x
            if len(m.data_out.as_value()):
                o[f"{mid}.dout"] = m.data_out.y
        for sid, d in b.site.items():
            for k, sig in d.items():
                o[f"{sid}.{k}"] = sig
        for bid, sig in b.body_av.items():
            o[f"{bid}.av"] = sig
        for wid, sig in b.wit.items():
            o[wid] = sig
        for fid, (fsm, names) in b.fsm.items():
            for nm in names:
                o[f"{fid}.{nm}"] = fsm.ongoing(nm)
        for bid, sig in b.branch.items():
            o[f"{bid}.bw"] = sig
        for bid, sig in b.branch_run.items():
            o[f"{bid}.run"] = sig
        self.shape_counters()
        if any(c.startswith("d:") for st in self.structs.values() for c in
               ([a[0] for a in st.get("arms", [])] + ([st["test"]] if "test" in st else []))):
            self.hit("design_with_data_dependent_conditions")
        # every body of the program must have been built (a harness bug otherwise)
        for bid, body in self.a.bodies.items():
            if body.branch_of is None and bid not in b.trans and bid not in b.methods:
                raise RuntimeError(f"body {bid} was not built")

    def shape_counters(self):
        """Static reach probes: which of the shapes the properties name does this program contain."""
        a = self.a
        if any(b.parent is not None and b.branch_of is None for b in a.bodies.values()):
            self.hit("design_with_nested_body")
        nodes = [b.node for b in a.bodies.values() if b.kind == "T"] + list(a.mdefs.values())
        if any(n.get("rdy_run") for n in nodes):
            self.hit("design_with_forwarder_style_readiness")
        rels = self.prog.get("relations", [])
        if any(r["kind"] == "before" and r.get("rdep") for r in rels):
            self.hit("design_with_ready_dependent_schedule_before")
        if any(r["kind"] == "before" for r in rels):
            self.hit("design_with_schedule_before")
        if a.alias:
            self.hit("design_with_aliases")
        if any(md.get("single") for md in a.mdefs.values()):
            self.hit("design_with_single_caller_method")
        for mid, md in a.mdefs.items():
            ss = self.sites_of(mid)
            if not md.get("nonex"):
                for i, s1 in enumerate(ss):
                    for s2 in ss[i + 1:]:
                        if s1.body == s2.body:
                            self.hit("design_exclusive_method_called_in_several_alternatives")
            else:
                for i, s1 in enumerate(ss):
                    for s2 in ss[i + 1:]:
                        if s1.body == s2.body and not _pos_excl(s1, s2):
                            self.hit("design_nonexclusive_method_called_repeatedly_on_one_path")
        if "AMB" in (self.rel or {}).values():
            self.hit("design_with_ambiguous_pair")
        if any(b.pos and b.pos[0][0][0] in ("if", "sw", "fsm") for b in a.bodies.values()):
            self.hit("design_with_bodies_inside_alternatives")

    # ---- stimulus ---------------------------------------------------------------------------
    def _validator_hits(self):
        """arg input -> value that makes the target's validate_arguments predicate false."""
        out = {}
        for s in self.a.sites.values():
            md = self.a.mdefs[s.target]
            if md.get("val") and s.node.get("arg"):
                op, k = md["val"]
                bad = {"ne": k, "lt": k, "bit0": 1 - k, "mask": 0}[op]
                out[s.node["arg"]] = (bad ^ s.node["k"]) & mask(md["iw"])
        return out

    def stimulus(self, rng, cyc):
        plan = self.cfg["plan"]
        cur = plan[0]
        for ent in plan:
            if ent[0] <= cyc:
                cur = ent
        start, kind, p = cur
        st = self.phase_state
        if st.get("start") != start:
            st.clear()
            st["start"] = start
            if kind == "random":
                st["p"] = {i: rng.choice([0.0, 0.2, 0.5, 0.8, 1.0]) if rng.random() < 0.5 else p for i in self.bits}
            elif kind == "stall":
                readies = [md["ready"] for md in self.prog["methods"] if md.get("ready")]
                st["victim"] = rng.choice(readies) if readies else None
            elif kind == "hold0":
                # everything on except one input (a guard, an enable_call, a condition, a ready ...) held low
                st["victim"] = rng.choice(self.bits) if self.bits else None
            elif kind == "sweep":
                n = len(self.bits)
                st["order"] = rng.sample(range(1 << n), min(1 << n, 1 << 10)) if n <= 10 else None
                st["k"] = 0
        stim = {}
        if kind == "random":
            for i in self.bits:
                stim[i] = int(rng.random() < st["p"][i])
        elif kind == "allon":
            for i in self.bits:
                stim[i] = int(rng.random() < 0.93)
        elif kind in ("stall", "hold0"):
            for i in self.bits:
                stim[i] = int(rng.random() < (0.9 if kind == "stall" else 0.96))
            if st["victim"]:
                stim[st["victim"]] = 0
        elif kind == "flap":
            prev = getattr(self, "_prev", {})
            for i in self.bits:
                stim[i] = prev.get(i, 0) ^ int(rng.random() < 0.5)
        elif kind == "sweep":
            if st["order"] is None:
                for i in self.bits:
                    stim[i] = rng.getrandbits(1)
            else:
                v = st["order"][st["k"] % len(st["order"])]
                st["k"] += 1
                if st["k"] == len(st["order"]):
                    self.hit("exhaustive_valuation_sweep_completed")
                for j, i in enumerate(self.bits):
                    stim[i] = (v >> j) & 1
        for i in self.datas:
            w = self.prog["inputs"][i]
            if i in self._val_hits and rng.random() < 0.3:
                stim[i] = self._val_hits[i]
            else:
                stim[i] = rng.getrandbits(w)
        self._prev = stim
        return stim

    # ---- per-cycle helpers --------------------------------------------------------------------
    def en(self, s, stim):
        e = s.node.get("en")
        if e in ("c0", "c1"):
            return int(e == "c1")
        return stim.get(e, 0) if e else 1

    def act(self, s, stim, obs):
        return bool(obs[f"{s.id}.wc"] and self.en(s, stim))

    def arg(self, s, stim, obs):
        md = self.a.mdefs[s.target]
        if not md["iw"]:
            return 0
        if s.node.get("argsrc") == "din":
            cw = self.a.mdefs[s.body]["iw"]
            return ((obs[f"{s.body}.din"] ^ (s.node["k"] & mask(cw))) & mask(cw)) & mask(md["iw"])
        if s.node.get("arg"):
            return (stim.get(s.node["arg"], 0) ^ s.node["k"]) & mask(md["iw"])
        return s.node["k"] & mask(md["iw"])

    def run(self, bid, obs):
        return obs[f"{bid}.run"]

    def rin(self, bid, stim, obs):
        node = self.a.bodies[bid].node if self.a.bodies[bid].kind == "T" else self.a.mdefs[bid]
        r = self.cval(node["ready"], stim, obs) if node.get("ready") else 1
        if node.get("rdy_run"):
            r = r or self.run(self.a.resolve(node["rdy_run"]), obs)
        return bool(r)

    def body_ready(self, bid, stim, obs):
        return self.rin(bid, stim, obs) and bool(obs[f"{bid}.av"])

    def sites_of(self, mid):
        return [s for s in self.a.sites.values() if s.target == mid]

    def enabled(self, t, stim, obs):
        """C03's definition of 'fully enabled', from inputs, av witnesses and run bits."""
        a = self.a
        if not self.body_ready(t, stim, obs):
            return False
        for d in a.ready_deps(t):
            if not self.run(d, obs):
                return False
        for m in a.tree_methods[t]:
            if not self.body_ready(m, stim, obs):
                return False
            for d in a.ready_deps(m):
                if not self.run(d, obs):
                    return False
        for ch in a.chains[t]:
            md = a.mdefs[ch[-1].target]
            if md.get("val") and all(obs[f"{s.id}.wa"] and self.en(s, stim) for s in ch):
                if not eval_validator(md["val"], self.arg(ch[-1], stim, obs)):
                    return False
        return True

    # ---- the oracle ---------------------------------------------------------------------------
    def check(self, cyc, stim, obs):
        ch = self.checks
        if "C06" in ch:
            self.inv_c06(cyc, stim, obs)
        if "C01" in ch:
            self.inv_c01(stim, obs)
        if "C02" in ch:
            self.inv_c02(stim, obs)
        if "C03" in ch:
            self.inv_c03(stim, obs)
        if "C04" in ch:
            self.inv_c04(stim, obs)
        if "C05" in ch:
            self.inv_c05(stim, obs)
        if "C07" in ch:
            self.inv_c07(stim, obs)
        if "C08" in ch:
            self.inv_c08(stim, obs)
        if "C09" in ch:
            self.inv_c09(stim, obs)
        if "C12" in ch:
            self.inv_c12(stim, obs)
        self.track_fsm(stim, obs)
        running = tuple(t for t in self.a.transactions if self.run(t, obs))
        self.visit(running, nontrivial=len(running) > 0)
        if len(running) > 1:
            self.hit("concurrent_transactions")

    # C01 ----------------------------------------------------------------------------------------
    def inv_c01(self, stim, obs):
        a = self.a
        for mid, md in a.mdefs.items():
            if md.get("nonex"):
                continue
            act = [s.id for s in self.sites_of(mid) if self.act(s, stim, obs)]
            if len(act) > 1:
                raise Violation("exclusive-method-multiple-active-calls", f"{mid}: active call sites {act}", method=mid)
            if len(self.sites_of(mid)) > 1 and act:
                self.hit("exclusive_method_contended_site_active")
        ts = [t for t in a.transactions if self.run(t, obs)]
        for i, t1 in enumerate(ts):
            for t2 in ts[i + 1:]:
                rel, why = a.method_relation(t1, t2)
                if rel == "MUST":
                    raise Violation("conflicting-transactions-run-together",
                                    f"{t1} and {t2} both run but both reach exclusive method {why} on non-exclusive paths",
                                    method=why)
                if rel == "NOT" and set(a.tree_methods[t1]) & set(a.tree_methods[t2]):
                    self.hit("sharing_transactions_run_together_legally")

    # C02 ----------------------------------------------------------------------------------------
    def inv_c02(self, stim, obs):
        for r in self.prog.get("relations", []):
            if r["kind"] != "conflict":
                continue
            x, y = self.a.resolve(r["a"]), self.a.resolve(r["b"])
            rx, ry = self.run(x, obs), self.run(y, obs)
            if rx and ry:
                raise Violation("explicit-conflict-both-run", f"add_conflict({r['a']}, {r['b']}, {r.get('prio')}) but both run",
                                self_conflict=any(p == q for p, q, rr in self.expl if rr is r))
            if rx or ry:
                self.hit("conflict_side_runs")
        for ta, tb, r in self.expl:
            if ta != tb and self.enabled_cached(ta, stim, obs) and self.enabled_cached(tb, stim, obs):
                self.hit("conflict_both_sides_enabled")

    def enabled_cached(self, t, stim, obs):
        return self.enabled(t, stim, obs)

    # C03 ----------------------------------------------------------------------------------------
    def inv_c03(self, stim, obs):
        a = self.a
        for t in a.transactions:
            if t in a.branches:
                # a condition() branch is a nested transaction: ready dependent on the enclosing body
                if self.run(t, obs) and not self.run(a.branches[t][2], obs):
                    raise Violation("ran-without-ready-dependency",
                                    f"branch {t} runs but the enclosing body {a.branches[t][2]} does not", body=t)
                continue
            if not self.run(t, obs):
                if self.body_ready(t, stim, obs):
                    self.hit("ready_but_not_run")
                continue
            if not self.body_ready(t, stim, obs):
                raise Violation("ran-when-not-ready", f"{t} runs but its ready expression is false", body=t)
            for d in a.ready_deps(t):
                if not self.run(d, obs):
                    raise Violation("ran-without-ready-dependency", f"{t} runs but {d} (which it is ready-dependent on) does not", body=t)
            for m in a.tree_methods[t]:
                if not self.body_ready(m, stim, obs):
                    called = any(self.act(s, stim, obs) for s in self.sites_of(m))
                    raise Violation("ran-with-method-not-ready",
                                    f"{t} runs but method {m} of its static call tree is not ready"
                                    f" ({'called' if called else 'call disabled / under a false condition'})",
                                    body=t, method=m, called=called)
                for d in a.ready_deps(m):
                    if not self.run(d, obs):
                        raise Violation("ran-without-ready-dependency", f"{t} runs, calls-tree method {m} needs {d} to run", body=t)
            self.hit("transaction_ran")
        for s in a.sites.values():
            md = a.mdefs[s.target]
            if md.get("val"):
                if self.act(s, stim, obs):
                    if not eval_validator(md["val"], self.arg(s, stim, obs)):
                        raise Violation("ran-with-invalid-arguments",
                                        f"site {s.id} -> {s.target} active with argument {self.arg(s, stim, obs)} rejected by {md['val']}",
                                        method=s.target)
                    self.hit("validated_call_active")
                elif obs[f"{s.id}.wa"] and self.en(s, stim) and not eval_validator(md["val"], self.arg(s, stim, obs)):
                    self.hit("call_refused_by_validate_arguments")

    # C04 ----------------------------------------------------------------------------------------
    def inv_c04(self, stim, obs):
        a = self.a
        for mid in a.mdefs:
            want = any(self.act(s, stim, obs) for s in self.sites_of(mid))
            got = bool(obs[f"{mid}.run"])
            if want != got:
                raise Violation("method-run-mismatch",
                                f"{mid}.run={int(got)} but active call sites: {[s.id for s in self.sites_of(mid) if self.act(s, stim, obs)]}",
                                method=mid, uncalled=not self.sites_of(mid))
            if got:
                self.hit("method_ran")
            if got and len([s for s in self.sites_of(mid) if self.act(s, stim, obs)]) > 1:
                self.hit("nonexclusive_method_multiple_callers")
        for al, tgt in a.alias.items():
            if obs[f"{al}.run"] != obs[f"{a.resolve(al)}.run"]:
                raise Violation("alias-run-mismatch", f"alias {al}.run != {a.resolve(al)}.run", method=al)
        for bid, b in a.bodies.items():
            if b.parent is not None and self.run(bid, obs):
                if not self.run(b.parent, obs):
                    raise Violation("nested-runs-without-parent", f"{bid} runs but enclosing {b.parent} does not", body=bid)
                self.hit("nested_body_ran")

    # C05 ----------------------------------------------------------------------------------------
    def inv_c05(self, stim, obs):
        a = self.a
        for mid, md in a.mdefs.items():
            dout = obs.get(f"{mid}.dout", 0)
            if md["ow"]:
                din = obs.get(f"{mid}.din", 0)
                base = (din + md["k"]) if md["iw"] else md["k"]
                want = (base ^ (stim.get(md["ret"], 0) if md.get("ret") else 0)) & mask(md["ow"])
                if dout != want:
                    raise Violation("method-output-mismatch", f"{mid}.data_out={dout}, body computes {want} from data_in={din}", method=mid)
                for s in self.sites_of(mid):
                    if obs[f"{s.id}.res"] != dout:
                        raise Violation("call-result-mismatch",
                                        f"site {s.id} (via {s.ref}) sees {obs[f'{s.id}.res']}, method {mid} outputs {dout}",
                                        method=mid, via_alias=s.ref != mid)
            if md["iw"] and obs[f"{mid}.run"]:
                acts = [s for s in self.sites_of(mid) if self.act(s, stim, obs)]
                din = obs[f"{mid}.din"]
                if not md.get("nonex"):
                    if len(acts) == 1:
                        want = self.arg(acts[0], stim, obs)
                        if din != want:
                            raise Violation("argument-mismatch",
                                            f"{mid} runs with data_in={din}; its single active call {acts[0].id} passes {want}",
                                            method=mid, via_alias=acts[0].ref != mid)
                        self.hit("exclusive_argument_routed")
                        if len(self.sites_of(mid)) > 1:
                            self.hit("argument_muxed_among_several_sites")
                elif acts:
                    args = [self.arg(s, stim, obs) for s in acts]
                    want = len(args) if md["comb"] == "cnt" else 0
                    for x in args:
                        want = (want | x) if md["comb"] == "or" else (want + x)
                    want &= mask(md["iw"])
                    if din != want:
                        raise Violation("combiner-mismatch", f"{mid} ({md['comb']}) data_in={din}, active args {args} combine to {want}", method=mid)
                    if len(acts) > 1:
                        self.hit("combiner_several_active")
        for al in a.alias:
            tgt = a.resolve(al)
            for f in ("din", "dout"):
                if f"{al}.{f}" in obs and obs[f"{al}.{f}"] != obs[f"{tgt}.{f}"]:
                    raise Violation("alias-data-mismatch", f"{al}.{f}={obs[f'{al}.{f}']} but {tgt}.{f}={obs[f'{tgt}.{f}']}", method=al)

    # C06 ----------------------------------------------------------------------------------------
    def cval(self, ref, stim, obs):
        """value of a condition / switch test: a free input, or bits of a method's observed data_in"""
        if ref.startswith("x:"):
            _, src, msk = ref.split(":")
            return int((stim.get(src, 0) & int(msk)) != 0)
        if ref.startswith("d:"):
            _, mid, bit = ref.split(":")
            x = obs.get(f"{mid}.din", 0)
            return (x & 3) if bit == "s" else ((x >> int(bit)) & 1)
        return stim.get(ref, 0)

    def cond_at(self, pos, stim, obs, with_run):
        for (u, alt) in pos:
            if u[0] == "B":
                if with_run and not self.run(u[1], obs):
                    return False
                continue
            n = self.structs[u]
            if u[0] == "if":
                arms = [self.cval(c, stim, obs) for c, _ in n["arms"]]
                if alt < len(arms):
                    if not arms[alt] or any(arms[:alt]):
                        return False
                elif any(arms):
                    return False
            elif u[0] == "sw":
                test = self.cval(n["test"], stim, obs)
                vals = [case_values(v) for v, _ in n["cases"]]
                if alt < len(vals):
                    if test not in vals[alt] or any(test in vs for vs in vals[:alt]):
                        return False
                    if len(vals[alt]) > 1:
                        self.hit("case_with_several_patterns_selected")
                elif any(test in vs for vs in vals):
                    return False
            elif u[0] == "fsm":
                if self.fsm_state[n["fid"]] != alt:
                    return False
        return True

    def inv_c06(self, cyc, stim, obs):
        a = self.a
        for wid, (dom, body, mod, pos) in a.wits.items():
            got = obs[wid]
            if dom == "comb":
                want = int(self.cond_at(pos, stim, obs, True))
                if got != want:
                    raise Violation("comb-effect-mismatch", f"comb witness {wid} in {body}: {got}, expected {want}", dom=dom)
                if want == 0 and self.cond_at(pos, stim, obs, False):
                    self.hit("comb_suppressed_because_body_not_running")
            elif dom == "av":
                want = int(self.cond_at(pos, stim, obs, False))
                if got != want:
                    raise Violation("av_comb-effect-mismatch", f"av_comb witness {wid} in {body}: {got}, expected {want}", dom=dom)
                if want and body is not None and not self.run(body, obs):
                    self.hit("av_comb_active_while_body_not_running")
            elif dom == "top":
                if got != 1:
                    raise Violation("top_comb-effect-mismatch", f"top_comb witness {wid} is {got}", dom=dom)
                if not self.cond_at(pos, stim, obs, False):
                    self.hit("top_comb_active_under_false_condition")
            else:  # sync counter
                exp = self.sync_expect.get(wid, 0)
                if got != exp:
                    raise Violation("sync-effect-mismatch", f"sync witness {wid} counts {got}, expected {exp}", dom=dom)
                if self.cond_at(pos, stim, obs, True):
                    self.sync_expect[wid] = (exp + 1) & 63
                    self.hit("sync_effect")
        for s in a.sites.values():
            wc = int(self.cond_at(s.pos, stim, obs, True))
            wa = int(self.cond_at(s.pos, stim, obs, False))
            if obs[f"{s.id}.wc"] != wc:
                raise Violation("comb-effect-mismatch", f"comb witness at call site {s.id}: {obs[f'{s.id}.wc']}, expected {wc}", dom="comb")
            if obs[f"{s.id}.wa"] != wa:
                raise Violation("av_comb-effect-mismatch", f"av_comb witness at call site {s.id}: {obs[f'{s.id}.wa']}, expected {wa}", dom="av")
        for bid, b in a.bodies.items():
            if b.branch_of is None:
                want = int(self.cond_at(b.pos, stim, obs, False))
                if obs[f"{bid}.av"] != want:
                    raise Violation("av_comb-effect-mismatch", f"av_comb witness at definition of {bid}: {obs[f'{bid}.av']}, expected {want}", dom="av")
        for fid, n in a.fsms.items():
            for k, st in enumerate(n["states"]):
                if obs[f"{fid}.{st['name']}"] != int(self.fsm_state[fid] == k):
                    raise Violation("fsm-state-mismatch", f"{fid}: oracle tracks state {self.fsm_state[fid]}, hardware ongoing({st['name']})={obs[f'{fid}.{st['name']}']}", dom="fsm")

    def track_fsm(self, stim, obs):
        nxt = {}
        for fid, n in self.a.fsms.items():  # all next states from the *current* states
            mod, pos, body = self.a.fsm_pos[fid]
            k = self.fsm_state[fid]
            st = n["states"][k]
            if st.get("adv") and stim.get(st["adv"], 0) and self.cond_at(pos, stim, obs, True):
                nk = int(st["next"][1:])
                if nk != k:
                    self.hit("fsm_transition")
                nxt[fid] = nk
        self.fsm_state.update(nxt)

    # C07 ----------------------------------------------------------------------------------------
    def cond_can_pick(self, cid, stim, obs):
        """the condition() block can select a branch, or may legally be passed without one"""
        n, _ = self.a.conds[cid]
        if any(self.admissible(b["bid"], stim, obs) for b in n["branches"]):
            return True
        has_default = any(not b.get("cond") for b in n["branches"])
        return bool(n.get("nonblocking")) and not has_default and \
            not any(self.cval(b["cond"], stim, {}) for b in n["branches"] if b.get("cond"))

    def inv_c07_cond(self, stim, obs):
        """Designs with condition(): the statement is judged in a narrower class only - a top-level transaction
        that is fully enabled, whose condition() blocks (its own and those of the methods it calls) can all pick
        a branch, and beside which no other top-level transaction runs at all, has no conflicting transaction
        running: it must run."""
        a = self.a
        tops = [t for t in a.transactions if t not in a.branches and a.bodies[t].parent is None]
        runs = [t for t in tops if self.run(t, obs)]
        for t in tops:
            if self.run(t, obs) or not self.enabled(t, stim, obs):
                continue
            if runs:
                self.hit("cond_design_enabled_transaction_idle_beside_running_one")
                continue
            scope = {t} | set(a.tree_methods[t])
            if all(self.cond_can_pick(cid, stim, obs) for cid, (n, encl) in a.conds.items() if encl in scope):
                raise Violation("wasted-cycle", f"{t} is fully enabled, every condition() block it reaches can pick a branch, "
                                f"no other transaction runs, and {t} does not run", body=t, cond_design=True)
            self.hit("cond_design_enabled_transaction_blocked_by_condition")
        if runs:
            self.hit("cond_design_transaction_ran")

    def inv_c07(self, stim, obs):
        a = self.a
        if a.conds:
            return self.inv_c07_cond(stim, obs)
        runs = [t for t in a.transactions if self.run(t, obs)]
        for t in a.transactions:
            if self.run(t, obs) or not self.enabled(t, stim, obs):
                continue
            blockers = [r for r in runs if (t, r) in self.rel]
            if not blockers:
                related = [r for r in runs if set(a.tree_methods[r]) & set(a.tree_methods[t])]
                raise Violation("wasted-cycle", f"{t} is fully enabled, does not run, and no conflicting transaction runs "
                                f"(running: {runs}; sharing methods only legally: {related})", body=t)
            self.hit("blocked_by_conflict")
        for t in runs:
            for r in runs:
                if t < r and set(a.tree_methods[r]) & set(a.tree_methods[t]):
                    self.hit("sharing_transactions_run_together")

    # C08 ----------------------------------------------------------------------------------------
    def inv_c08(self, stim, obs):
        a = self.a
        for ta, tb, r in self.expl:
            prio = r.get("prio", "U")
            if prio == "U" or ta == tb:
                continue
            hi, lo = (ta, tb) if prio == "L" else (tb, ta)
            if a.never_together(hi, lo):
                continue
            if self.enabled(hi, stim, obs) and self.enabled(lo, stim, obs):
                self.hit("prioritised_pair_both_enabled")
                if self.run(lo, obs):
                    if self.run(hi, obs):
                        raise Violation("explicit-conflict-both-run", f"{hi} and {lo} both run")
                    others = [x for x in a.transactions if x not in (hi, lo) and self.run(x, obs) and (hi, x) in self.rel]
                    if not others:
                        raise Violation("priority-inverted",
                                        f"add_conflict({r['a']}, {r['b']}, {prio}): both {hi} (high) and {lo} (low) fully enabled, "
                                        f"{lo} runs, {hi} does not and nothing else conflicting with {hi} runs", prio=prio)
                    self.hit("low_priority_ran_because_high_blocked_by_third")
                elif self.run(hi, obs):
                    self.hit("high_priority_won")
        # schedule_before never blocks either side
        for r in self.prog.get("relations", []):
            if r["kind"] != "before" or r.get("rdep"):
                continue
            for x in a.trans_for.get(a.resolve(r["a"]), []):
                for y in a.trans_for.get(a.resolve(r["b"]), []):
                    if x != y and (x, y) not in self.rel and self.run(x, obs) and self.run(y, obs):
                        self.hit("schedule_before_pair_runs_together")

    # C09 ----------------------------------------------------------------------------------------
    def components(self):
        if hasattr(self, "_comps"):
            return self._comps
        a = self.a
        parent = {t: t for t in a.transactions}

        def find(x):
            while parent[x] != x:
                parent[x] = parent[parent[x]]
                x = parent[x]
            return x

        for (x, y) in self.rel:
            parent[find(x)] = find(y)
        comps = {}
        for t in a.transactions:
            comps.setdefault(find(t), []).append(t)
        self._comps = list(comps.values())
        return self._comps

    def inv_c09(self, stim, obs):
        for comp in self.components():
            runs = [t for t in comp if self.run(t, obs)]
            en = [t for t in comp if self.enabled(t, stim, obs)]
            if len(runs) > 1:
                raise Violation("rr-multiple-grants", f"component {comp}: {runs} run together")
            if en and not runs:
                raise Violation("rr-no-grant", f"component {comp}: {en} fully enabled, nobody runs")
            for t in comp:
                if t in en and t not in runs:
                    self.wait[t] = self.wait.get(t, 0) + 1
                    if self.wait[t] >= len(comp):
                        raise Violation("rr-starvation", f"{t} enabled for {self.wait[t]} consecutive cycles without a grant "
                                        f"(component size {len(comp)})", size=len(comp))
                    if self.wait[t] == len(comp) - 1 and len(comp) > 1:
                        self.hit("rr_waited_full_round")
                else:
                    self.wait[t] = 0
            if len(comp) > 1 and runs:
                self.hit("rr_grant_in_multi_member_component")
            if len(en) > 1:
                self.hit("rr_contention")

    # C12 ----------------------------------------------------------------------------------------
    def branch_cond(self, bid, stim):
        cid, k, encl, mod, pos = self.a.branches[bid]
        n, _ = self.a.conds[cid]
        br = n["branches"][k]
        if br.get("cond"):
            return bool(self.cval(br["cond"], stim, {}))
        return not any(self.cval(b["cond"], stim, {}) for b in n["branches"] if b.get("cond"))

    def admissible(self, bid, stim, obs):
        """condition holds and all methods the branch calls are ready (and accept the arguments)."""
        a = self.a
        if not self.branch_cond(bid, stim):
            return False
        for m in a.tree_methods[bid]:
            if not self.body_ready(m, stim, obs):
                return False
            for d in a.ready_deps(m):
                if not self.run(d, obs):
                    return False
        for ch in a.chains[bid]:
            md = a.mdefs[ch[-1].target]
            if md.get("val") and all(obs[f"{s.id}.wa"] and self.en(s, stim) for s in ch):
                if not eval_validator(md["val"], self.arg(ch[-1], stim, obs)):
                    return False
        # a nested condition() inside the branch must itself be able to pick a branch
        for cid, (n, encl) in a.conds.items():
            if encl != bid and encl not in a.tree_methods[bid]:
                continue
            inner = [b["bid"] for b in n["branches"]]
            if any(self.admissible(b, stim, obs) for b in inner):
                continue
            # nonblocking lets the body run without a branch only when *no* condition holds; with an explicit default
            # branch some condition always holds (the default's is "no other condition holds")
            has_default = any(not b.get("cond") for b in n["branches"])
            if n.get("nonblocking") and not has_default and \
                    not any(self.cval(b["cond"], stim, {}) for b in n["branches"] if b.get("cond")):
                continue
            return False
        return True

    def inside(self, bid, root):
        while bid is not None:
            if bid == root:
                return True
            bid = self.a.bodies[bid].parent
        return False

    def xreach(self, bid, _depth=0):
        """methods in the static call tree of a body, continued through the condition() blocks of the methods it
        reaches (and of the body itself)"""
        a = self.a
        out = set(a.tree_methods.get(bid, []))
        if _depth > 6:
            return out
        for cid, (n, e) in a.conds.items():
            if e == bid or e in out:
                for b in n["branches"]:
                    out |= self.xreach(b["bid"], _depth + 1)
        return out

    def taken_from_outside(self, bid, encl, stim, obs):
        """A method the branch would call is executed in this cycle for a caller outside the enclosing
        body: the branch "could not be executed" in the words of condition()'s documentation, so a later
        branch may be selected (reading of "admissible" recorded in DESIGN.md, C12)."""
        a = self.a
        group, todo = [], [bid]
        while todo:  # the branch, nested blocks in it, and blocks inside the methods it calls (recursively)
            x = todo.pop()
            if x in group:
                continue
            group.append(x)
            for cid, (n, e) in a.conds.items():
                if e == x or e in a.tree_methods.get(x, []):
                    todo += [b["bid"] for b in n["branches"]]
        for t in a.transactions:
            if self.inside(t, encl) or not self.run(t, obs):
                continue
            if encl in a.tree_methods.get(t, []) or t == encl:
                continue  # a caller of the enclosing body is part of the same merged transaction
            if t in a.branches:
                # a branch of a condition() somewhere else (in a method): it is outside when a caller of that
                # method which does not belong to the enclosing body runs
                root = t
                while a.bodies[root].parent is not None:
                    root = a.bodies[root].parent
                if root == encl or self.inside(root, encl):
                    continue
                if root in a.mdefs and not any(c != encl and not self.inside(c, encl) and self.run(c, obs)
                                               for c in a.trans_for.get(root, [])):
                    continue
            if any(a.method_relation(b, t)[0] != "NOT" for b in group):
                self.hit("cond_earlier_branch_lost_callee_to_outside_transaction")
                return True
            # a method that holds a condition() block of its own: its branches are alternatives of one body and their
            # callees belong to the static call tree of whichever merged transaction runs - a running outside
            # transaction that reaches such a method holds the block and everything its branches reach for this cycle
            if self.xreach(t) & set().union(*(self.xreach(b) for b in group)):
                self.hit("cond_earlier_branch_lost_shared_block_to_outside_transaction")
                return True
        return False

    def inv_c12(self, stim, obs):
        a = self.a
        for cid, (n, encl) in a.conds.items():
            brs = [b["bid"] for b in n["branches"]]
            ran = [b for b in brs if obs[f"{b}.run"]]
            erun = bool(self.run(encl, obs))
            conds = [bool(self.cval(b["cond"], stim, {})) for b in n["branches"] if b.get("cond")]
            if any(str(b.get("cond", "")).startswith("x:") and self.cval(b["cond"], stim, {}) and not stim.get(b["cond"].split(":")[1], 0) & 1
                   for b in n["branches"] if b.get("cond")):
                self.hit("cond_multibit_condition_true_with_bit0_clear")
            if len(ran) > 1:
                raise Violation("condition-several-branches", f"{cid}: branches {ran} run in one cycle", cond=cid)
            for b in ran:
                if not erun:
                    raise Violation("condition-branch-without-enclosing-body", f"{b} runs but {encl} does not", cond=cid)
                if not self.admissible(b, stim, obs):
                    what = "its condition is false" if not self.branch_cond(b, stim) else "a method it calls is not ready / rejects the argument"
                    raise Violation("condition-inadmissible-branch-ran", f"{b} runs but {what}", cond=cid,
                                    default=n["branches"][brs.index(b)].get("cond") is None)
                if n.get("priority"):
                    k = brs.index(b)
                    for e in brs[:k]:
                        if self.admissible(e, stim, obs) and not self.taken_from_outside(e, encl, stim, obs):
                            raise Violation("condition-priority-violated", f"{b} runs although earlier branch {e} is admissible", cond=cid)
                    if k > 0:
                        self.hit("cond_later_branch_ran_with_priority")
                self.hit("cond_branch_ran")
                if sum(conds) > 1:
                    self.hit("cond_overlapping_conditions_one_chosen")
                if n["branches"][brs.index(b)].get("cond") is None:
                    self.hit("cond_default_ran")
            has_default = any(not b.get("cond") for b in n["branches"])
            if erun and not ran:
                if not (n.get("nonblocking") and not any(conds) and not has_default):
                    raise Violation("condition-body-ran-without-branch",
                                    f"{encl} runs, no branch of {cid} runs (nonblocking={bool(n.get('nonblocking'))}, conditions={conds})", cond=cid)
                self.hit("cond_nonblocking_fallthrough")
            first_true = next((b for b in brs if self.branch_cond(b, stim)), None)
            if first_true is not None and not self.admissible(first_true, stim, obs):
                self.hit("cond_first_true_branch_inadmissible")
            if not any(conds):
                self.hit("cond_no_condition_true")
            if len(conds) > 1 and all(conds):
                self.hit("cond_all_conditions_true")
            if a.branches[brs[0]][2] in a.branches:
                self.hit("cond_nested_block_evaluated")
