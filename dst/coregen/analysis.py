"""Static reading of a generated program, written against the *statements* of the properties
(not against the manager): bodies, call sites, positions in the control tree, call chains, and the
three-valued conflict relation of DESIGN.md 3.2."""

from __future__ import annotations

from itertools import product


class Body:
    def __init__(self, bid, kind, mod, pos, parent, node):
        self.id = bid
        self.kind = kind  # "T" or "M"
        self.mod = mod
        self.pos = pos  # position of the definition (edges from the module root)
        self.parent = parent  # enclosing body id (nested) or None
        self.node = node
        self.sites = []  # call sites directly in this body
        self.order = 0  # definition order (traversal order)
        self.branch_of = None  # (cid, k) if this is a condition() branch pseudo-body


class Site:
    def __init__(self, sid, body, mod, pos, node, target):
        self.id = sid
        self.body = body  # caller body id
        self.mod = mod
        self.pos = pos
        self.node = node
        self.ref = node["m"]  # what is called syntactically (maybe an alias)
        self.target = target  # defining method id


def pos_exclusive(mod1, p1, mod2, p2):
    """Different alternatives of one If/Elif/Else, Switch/Case or FSM in the same module."""
    if mod1 != mod2:
        return False
    for e1, e2 in zip(p1, p2):
        if e1 == e2:
            continue
        return e1[0] == e2[0] and e1[0][0] in ("if", "sw", "fsm") and e1[1] != e2[1]
    return False  # one is a prefix of the other


class Analysis:
    def __init__(self, prog):
        self.prog = prog
        self.mdefs = {md["id"]: md for md in prog["methods"]}
        self.alias = {a["id"]: a["target"] for a in prog.get("aliases", [])}
        self.bodies: dict[str, Body] = {}
        self.sites: dict[str, Site] = {}
        self.wits = {}  # wid -> (dom, body id or None, mod, pos)
        self.fsms = {}  # fid -> node, plus position info
        self.fsm_pos = {}  # fid -> (mod, pos, enclosing body)
        self.conds = {}  # cid -> (node, enclosing body id)
        self.branches = {}  # bid -> (cid, k, enclosing body id, mod, pos)
        self._uid = 0
        self._order = 0
        for mod, nodes in enumerate(prog["tree"]):
            self._walk(nodes, mod, (), None)
        self._chains()

    def resolve(self, ref):
        while ref in self.alias:
            ref = self.alias[ref]
        return ref

    # ---- tree walk ------------------------------------------------------------------------
    def _walk(self, nodes, mod, pos, body):
        for node in nodes:
            k, n = node
            if k in ("T", "M"):
                b = Body(n["id"], k, mod, pos, body, n)
                b.order = self._order
                self._order += 1
                self.bodies[n["id"]] = b
                self._walk(n["body"], mod, pos + ((("B", n["id"]), 0),), n["id"])
            elif k == "C":
                s = Site(n["sid"], body, mod, pos, n, self.resolve(n["m"]))
                self.sites[n["sid"]] = s
                self.bodies[body].sites.append(s)
            elif k == "W":
                self.wits[n["wid"]] = (n["dom"], body, mod, pos)
            elif k == "If":
                u = ("if", n["u"])
                for a, (cond, sub) in enumerate(n["arms"]):
                    self._walk(sub, mod, pos + ((u, a),), body)
                if n.get("else") is not None:
                    self._walk(n["else"], mod, pos + ((u, len(n["arms"])),), body)
            elif k == "Sw":
                u = ("sw", n["u"])
                for a, (val, sub) in enumerate(n["cases"]):
                    self._walk(sub, mod, pos + ((u, a),), body)
                if n.get("default") is not None:
                    self._walk(n["default"], mod, pos + ((u, len(n["cases"])),), body)
            elif k == "Fsm":
                u = ("fsm", n["u"])
                self.fsms[n["fid"]] = n
                self.fsm_pos[n["fid"]] = (mod, pos, body)
                for a, st in enumerate(n["states"]):
                    self._walk(st["body"], mod, pos + ((u, a),), body)
            elif k == "Cond":
                self.conds[n["cid"]] = (n, body)
                for a, br in enumerate(n["branches"]):
                    bid = br["bid"]
                    b = Body(bid, "T", mod, pos, body, {"id": bid, "body": br["body"], "ready": br.get("cond")})
                    b.order = self._order
                    self._order += 1
                    b.branch_of = (n["cid"], a)
                    self.bodies[bid] = b
                    self.branches[bid] = (n["cid"], a, body, mod, pos)
                    self._walk(br["body"], mod, pos + ((("B", bid), 0),), bid)
            else:
                raise ValueError(k)

    # ---- conditions of a position (for the C06 oracle) ------------------------------------------
    def structs(self):
        """uid -> node for If / Sw / Fsm nodes."""
        out = {}

        def rec(nodes):
            for k, n in nodes:
                if k in ("T", "M"):
                    rec(n["body"])
                elif k == "If":
                    out[("if", n["u"])] = n
                    for _, sub in n["arms"]:
                        rec(sub)
                    if n.get("else") is not None:
                        rec(n["else"])
                elif k == "Sw":
                    out[("sw", n["u"])] = n
                    for _, sub in n["cases"]:
                        rec(sub)
                    if n.get("default") is not None:
                        rec(n["default"])
                elif k == "Fsm":
                    out[("fsm", n["u"])] = n
                    for st in n["states"]:
                        rec(st["body"])
                elif k == "Cond":
                    for br in n["branches"]:
                        rec(br["body"])

        for nodes in self.prog["tree"]:
            rec(nodes)
        return out

    # ---- call chains ------------------------------------------------------------------------
    def _chains(self):
        """chains[root body id] = list of chains; a chain = tuple of Site from the root down."""
        self.chains = {}
        for bid, b in self.bodies.items():
            out = []

            def rec(body, prefix, seen):
                for s in self.bodies[body].sites:
                    if s.target in seen:
                        out.append(prefix + (s,))  # recursion: reported by wellformed()
                        continue
                    ch = prefix + (s,)
                    out.append(ch)
                    if s.target in self.bodies:
                        rec(s.target, ch, seen | {s.target})

            rec(bid, (), {bid})
            self.chains[bid] = out
        self.transactions = [b.id for b in self.bodies.values() if b.kind == "T"]
        self.tree_methods = {}
        for t in self.transactions:
            ms = []
            for ch in self.chains[t]:
                if ch[-1].target not in ms:
                    ms.append(ch[-1].target)
            self.tree_methods[t] = ms
        self.trans_for = {}
        for mid in self.mdefs:
            self.trans_for[mid] = [t for t in self.transactions if mid in self.tree_methods[t]]
        for t in self.transactions:
            self.trans_for[t] = [t]

    def nonex(self, mid):
        return bool(self.mdefs[mid].get("nonex"))

    # ---- the statement's notion of "two calls that may meet at an exclusive method" ---------
    def chain_pair(self, c1, c2):
        """Classify two chains (from different transactions, or two chains of one root) that end at
        the same exclusive method: 'same' (identical chain), 'ne' (merge through one call inside a
        common nonexclusive ancestor), 'excl' (diverge at different alternatives of one control
        structure in one module), 'amb' (letter of the statement says conflict, a sharper argument
        says double activation is impossible), 'conflict'."""
        if c1 == c2:
            return "same"
        m1 = [s.target for s in reversed(c1)]
        m2 = [s.target for s in reversed(c2)]
        common = []
        for a, b in zip(m1, m2):
            if a != b:
                break
            common.append(a)
        if common and self.nonex(common[-1]):
            return "ne"
        # first divergence of the call paths, from the root down
        i = 0
        while i < len(c1) and i < len(c2) and c1[i] is c2[i]:
            i += 1
        if i < len(c1) and i < len(c2):
            s1, s2 = c1[i], c2[i]
            if pos_exclusive(s1.mod, s1.pos, s2.mod, s2.pos):
                return "excl"
        shared_ne = {m for m in m1 if self.nonex(m)} & {m for m in m2 if self.nonex(m)}
        later_excl = any(pos_exclusive(a.mod, a.pos, b.mod, b.pos) for a in c1 for b in c2 if a is not b)
        if shared_ne or later_excl:
            return "amb"
        return "conflict"

    def method_relation(self, t1, t2):
        """MUST / AMB / NOT conflict between two transactions by shared exclusive methods."""
        worst = "NOT"
        why = None
        for c1 in self.chains[t1]:
            if self.nonex(c1[-1].target):
                continue
            for c2 in self.chains[t2]:
                if c2[-1].target != c1[-1].target:
                    continue
                r = self.chain_pair(c1, c2)
                if r == "conflict":
                    return "MUST", c1[-1].target
                if r == "amb":
                    worst, why = "AMB", c1[-1].target
        return worst, why

    def bodies_of(self, t):
        return [t] + self.tree_methods[t]

    def never_together(self, t1, t2):
        """Some body of one side is defined in an alternative exclusive with some body of the other:
        the two can never be ready together."""
        for a, b in product(self.bodies_of(t1), self.bodies_of(t2)):
            ba, bb = self.bodies[a], self.bodies[b]
            if pos_exclusive(ba.mod, ba.pos, bb.mod, bb.pos):
                return True
        return False

    def explicit_pairs(self):
        """Lifted add_conflict relations: list of (ta, tb, relation) with ta != tb."""
        out = []
        for r in self.prog.get("relations", []):
            if r["kind"] != "conflict":
                continue
            for ta in self.trans_for.get(self.resolve(r["a"]), []):
                for tb in self.trans_for.get(self.resolve(r["b"]), []):
                    out.append((ta, tb, r))
        return out

    def self_conflict_exclusive(self, t, x, y):
        """Transaction t reaches both sides x, y of a conflict: are all its calls of x exclusive with all its calls of y?"""
        if x == t or y == t:
            return False
        cx = [c for c in self.chains[t] if c[-1].target == x]
        cy = [c for c in self.chains[t] if c[-1].target == y]
        for c1 in cx:
            for c2 in cy:
                i = 0
                while i < len(c1) and i < len(c2) and c1[i] is c2[i]:
                    i += 1
                if not (i < len(c1) and i < len(c2) and pos_exclusive(c1[i].mod, c1[i].pos, c2[i].mod, c2[i].pos)):
                    return False
        return True

    def self_conflict_mixed(self, t, x, y):
        """Some call of x is exclusive with some call of y, but not all of them: the shape in which a pairwise
        (instead of all-pairs) exclusivity test goes wrong."""
        if x == t or y == t:
            return False
        cx = [c for c in self.chains[t] if c[-1].target == x]
        cy = [c for c in self.chains[t] if c[-1].target == y]
        res = []
        for c1 in cx:
            for c2 in cy:
                i = 0
                while i < len(c1) and i < len(c2) and c1[i] is c2[i]:
                    i += 1
                res.append(i < len(c1) and i < len(c2) and pos_exclusive(c1[i].mod, c1[i].pos, c2[i].mod, c2[i].pos))
        return any(res) and not all(res)

    def relation_table(self):
        """(t1, t2) -> 'MUST' | 'AMB' for unordered pairs that may block each other; absent = must not."""
        tab = {}
        ts = self.transactions
        for i, t1 in enumerate(ts):
            for t2 in ts[i + 1:]:
                rel, _ = self.method_relation(t1, t2)
                if rel != "NOT":
                    tab[(t1, t2)] = tab[(t2, t1)] = rel
        for ta, tb, r in self.explicit_pairs():
            if ta != tb and not self.never_together(ta, tb):
                tab[(ta, tb)] = tab[(tb, ta)] = "MUST"
        return tab

    # ---- ready dependencies --------------------------------------------------------------------
    def ready_deps(self, bid):
        """Bodies whose run the body `bid` needs: enclosing body, sources of schedule_before(rdep)."""
        deps = []
        b = self.bodies[bid]
        if b.parent is not None:
            deps.append(b.parent)
        for r in self.prog.get("relations", []):
            if r["kind"] == "before" and r.get("rdep") and self.resolve(r["b"]) == bid:
                deps.append(self.resolve(r["a"]))
        return deps

    def shape_flags(self):
        """Program-shape predicates used to tell violation classes / known findings apart."""
        selfs = [(x, r) for x, y, r in self.explicit_pairs() if x == y]
        f = {"self_conflict": bool(selfs),
             "self_conflict_exclusive_paths": bool(selfs) and all(
                 self.self_conflict_exclusive(x, self.resolve(r["a"]), self.resolve(r["b"])) for x, r in selfs),
             "self_conflict_prioritised": any(r.get("prio", "U") != "U" for _, r in selfs),
             "has_condition": bool(self.conds), "cond_in_conditionally_called_method": False,
             "cond_branch_reaches_validate": False, "cond_two_blocks_in_one_body": False}
        encls = [e for (_, e) in self.conds.values()]
        f["cond_two_blocks_in_one_body"] = len(encls) != len(set(encls))
        for cid, (n, encl) in self.conds.items():
            top = encl
            while top in self.branches:
                top = self.branches[top][2]
            # conditionally called: some call on a path from a transaction down to the method is guarded
            frontier, seen = [top], set()
            while frontier:
                mth = frontier.pop()
                if mth in seen or mth not in self.mdefs:
                    continue
                seen.add(mth)
                for s in self.sites.values():
                    if s.target == mth:
                        if s.node.get("en") or len(s.pos) > len(self.bodies[s.body].pos) + 1:
                            f["cond_in_conditionally_called_method"] = True
                        frontier.append(s.body)
            for br in n["branches"]:
                for ch in self.chains[br["bid"]]:
                    if self.mdefs[ch[-1].target].get("val"):
                        f["cond_branch_reaches_validate"] = True
        return f

    def rr_safe(self):
        """No ready dependency between transactions of one conflict component (the premise of C09; the
        round-robin arbiter's grant depends combinationally on all requests of its component)."""
        comps = components(self.transactions, self.relation_table())
        comp_of = {t: k for k, c in enumerate(comps) for t in c}
        deps = []
        for bid in self.bodies:
            for d in self.ready_deps(bid):
                deps.append((d, bid))
            node = self.bodies[bid].node if self.bodies[bid].kind == "T" else self.mdefs.get(bid, {})
            if node.get("rdy_run"):
                deps.append((self.resolve(node["rdy_run"]), bid))
        # the grant of a component depends combinationally on every request of the component, a request on
        # the run of what it is ready-dependent on: the dependencies must not close a cycle over components
        edges = set()
        for d, b in deps:
            for x in self.trans_for.get(d, []):
                for y in self.trans_for.get(b, []):
                    edges.add((comp_of[x], comp_of[y]))
        return not _cyclic(range(len(comps)), edges)

    # ---- well-formedness by the documented rules (used by the generator; rejection sampling) ----
    def defects(self):
        out = []
        # method calling itself
        for bid, chs in self.chains.items():
            for ch in chs:
                targets = [bid] + [s.target for s in ch]
                if len(set(targets)) != len(targets):
                    out.append(("recursion", bid))
        # exclusive method reached twice from one root on non-exclusive paths
        for bid, chs in self.chains.items():
            for i, c1 in enumerate(chs):
                if self.nonex(c1[-1].target):
                    continue
                for c2 in chs[i + 1:]:
                    if c2[-1].target != c1[-1].target:
                        continue
                    j = 0
                    while j < len(c1) and j < len(c2) and c1[j] is c2[j]:
                        j += 1
                    if j < len(c1) and j < len(c2):
                        s1, s2 = c1[j], c2[j]
                        if pos_exclusive(s1.mod, s1.pos, s2.mod, s2.pos):
                            continue
                    out.append(("double-call", bid, c1[-1].target))
        # single_caller called from more than one site
        for mid, md in self.mdefs.items():
            if md.get("single"):
                n = sum(1 for s in self.sites.values() if s.target == mid)
                if n > 1:
                    out.append(("single-caller", mid))
        # priorities acyclic (lifted to transactions), including schedule_before and nesting
        edges = set()
        for r in self.prog.get("relations", []):
            a, b = self.resolve(r["a"]), self.resolve(r["b"])
            if r["kind"] == "conflict" and r.get("prio", "U") != "U":
                hi, lo = (a, b) if r["prio"] == "L" else (b, a)
            elif r["kind"] == "before":
                hi, lo = a, b
            else:
                continue
            for x in self.trans_for.get(hi, []):
                for y in self.trans_for.get(lo, []):
                    if x == y and r["kind"] == "conflict":
                        continue  # one transaction using both sides: judged below, no priority edge
                    edges.add((x, y))
        for x, y, r in self.explicit_pairs():
            if x == y and not self.self_conflict_exclusive(x, self.resolve(r["a"]), self.resolve(r["b"])):
                out.append(("self-conflict", x))
        for bid, b in self.bodies.items():
            if b.parent is not None:
                for x in self.trans_for.get(b.parent, []):
                    for y in self.trans_for.get(bid, []):
                        edges.add((x, y))
        for md in list(self.mdefs.values()) + [b.node for b in self.bodies.values() if b.kind == "T"]:
            if md.get("rdy_run"):
                for x in self.trans_for.get(self.resolve(md["rdy_run"]), []):
                    for y in self.trans_for.get(md["id"], []):
                        edges.add((x, y))
        # readiness that depends on the run of another body needs that body declared scheduled before
        befores = {(self.resolve(r["a"]), self.resolve(r["b"])) for r in self.prog.get("relations", []) if r["kind"] == "before"}
        for md in list(self.mdefs.values()) + [b.node for b in self.bodies.values() if b.kind == "T"]:
            if md.get("rdy_run") and (self.resolve(md["rdy_run"]), md["id"]) not in befores:
                out.append(("rdy-run-without-schedule-before", md["id"]))
        self.prio_edges = edges
        if _cyclic(self.transactions, edges):
            out.append(("priority-cycle",))
        # transaction ready-dependent on a transaction it conflicts with
        tab = self.relation_table()
        for t in self.transactions:
            for d in self.ready_deps(t):
                if d in self.transactions and (t, d) in tab:
                    out.append(("rdep-conflict", t, d))
        return out


def components(transactions, table):
    parent = {t: t for t in transactions}

    def find(x):
        while parent[x] != x:
            parent[x] = parent[parent[x]]
            x = parent[x]
        return x

    for (x, y) in table:
        parent[find(x)] = find(y)
    comps = {}
    for t in transactions:
        comps.setdefault(find(t), []).append(t)
    return list(comps.values())


def _cyclic(nodes, edges):
    adj = {n: [] for n in nodes}
    for a, b in edges:
        if a == b:
            return True
        adj[a].append(b)
    state = {}

    def dfs(u):
        state[u] = 1
        for v in adj[u]:
            if state.get(v) == 1:
                return True
            if v not in state and dfs(v):
                return True
        state[u] = 2
        return False

    return any(n not in state and dfs(n) for n in nodes)
