"""Generator of well-formed transaction/method programs (DESIGN.md 3.1).

A program is a JSON-able tree (see build.py for the node kinds).  Generation is biased towards the
shapes the properties name; well-formedness is established by rejection against Analysis.defects()
(the documented rules, evaluated on the tree — never by asking the library)."""

from __future__ import annotations

import copy

from .analysis import Analysis

DEFAULT_FEAT = {
    "max_mods": 3,
    "max_trans": 5,
    "max_meth": 6,
    "p_ctrl": 0.35,  # a statement is a control structure
    "p_en": 0.35,  # a call has an enable_call input
    "p_ready": 0.7,  # a body has a ready input
    "p_nonex": 0.25,
    "p_val": 0.25,
    "p_alias": 0.25,
    "p_nested": 0.15,
    "p_wrap": 0.3,  # transaction bodies placed inside alternatives of a module-level structure
    "p_wit": 0.25,
    "p_fwd": 0.0,  # Forwarder-style readiness (ready | run of a body scheduled before)
    "n_conflicts": (0, 0),
    "prio": False,
    "n_before": (0, 0),
    "rdep": False,
    "cond": False,
    "fsm": True,
    "argsrc_din": 0.15,
    "wit_doms": ["comb", "sync", "av", "top"],
    "no_amb": False,  # reject designs with AMBIGUOUS transaction pairs (C07-C09)
    "max_depth": 3,
    "p_datacond": 0.2,  # program-level: some If conditions inside method bodies are bits of the method's data_in
}


class Gen:
    def __init__(self, rng, feat):
        self.rng = rng
        self.f = dict(DEFAULT_FEAT)
        self.f.update(feat or {})
        self.ninp = 0
        self.nsite = 0
        self.nwit = 0
        self.nstruct = 0
        self.inputs = {}
        self.budget = self.f.get("max_sites", 22)  # total call sites of a program

    def inp(self, w=1):
        iid = f"i{self.ninp}"
        self.ninp += 1
        self.inputs[iid] = w
        return iid

    def chance(self, p):
        return self.rng.random() < p

    def uid(self):
        self.nstruct += 1
        return self.nstruct

    # ---------------------------------------------------------------------------------------
    def program(self):
        rng, f = self.rng, self.f
        # conditions that depend on a method's data_in make call enables depend on the argument mux: only in
        # programs without validate_arguments (the restriction of DESIGN.md 3.1)
        self.datacond = self.chance(f["p_datacond"])
        if self.datacond:
            f = self.f = dict(f, p_val=0.0)
        nmeth = rng.randint(0 if rng.random() < 0.05 else 1, f["max_meth"])
        ntrans = rng.randint(1, f["max_trans"])
        nmods = rng.randint(1, f["max_mods"])
        methods = []
        for i in range(nmeth):
            nonex = self.chance(f["p_nonex"])
            iw = rng.choice([0, 3, 3, 4]) if not nonex else rng.choice([0, 0, 3])
            md = {
                "id": f"m{i}",
                "iw": iw,
                "ow": rng.choice([0, 3, 3, 4]),
                "k": rng.getrandbits(4),
                "nonex": nonex,
                "comb": rng.choice(["or", "sum", "cnt"]) if nonex and iw else None,
                "single": False,
                "val": None,
                "ready": self.inp() if self.chance(f["p_ready"]) else None,
                "ret": None,
            }
            if md["ow"]:
                md["ret"] = self.inp(md["ow"]) if self.chance(0.7) else None
            if iw and self.chance(f["p_val"] * (0.6 if nonex else 1.0)):  # also on nonexclusive methods (validated per call)
                md["val"] = rng.choice([["ne", rng.getrandbits(iw)], ["lt", rng.randint(1, (1 << iw) - 1)], ["bit0", rng.getrandbits(1)],
                                        ["mask", rng.randint(2, (1 << iw) - 1)]])
            methods.append(md)
        self.methods = methods
        self.mdef = {m["id"]: m for m in methods}
        aliases = []
        for i, md in enumerate(methods):
            if self.chance(f["p_alias"]):
                aid = f"a{len(aliases)}"
                aliases.append({"id": aid, "target": md["id"], "via": rng.choice([None, None, "methods"])})
                if self.chance(0.3):  # chain of aliases
                    aliases.append({"id": f"a{len(aliases)}", "target": aid, "via": None})
        # Methods collections: several methods of one layout provided through one Methods(n).provide([...])
        by_layout = {}
        for md in methods:
            by_layout.setdefault((md["iw"], md["ow"]), []).append(md["id"])
        ngroup = 0
        for lay in sorted(by_layout):
            mids = by_layout[lay]
            if len(mids) >= 2 and self.chance(f["p_alias"]):
                take = rng.sample(mids, rng.randint(2, min(3, len(mids))))
                for j, mid in enumerate(take):
                    aliases.append({"id": f"a{len(aliases)}", "target": mid, "via": "methods", "group": f"g{ngroup}", "index": j,
                                    "size": len(take)})
                ngroup += 1
        self.aliases = aliases
        self.alias_of = {}
        for a in aliases:
            self.alias_of.setdefault(self._resolve(a["target"], aliases), []).append(a["id"])

        # method bodies, leaves first so that reach() is known when callers are generated
        self.reach = {}
        self.has_val = {}
        mbodies = {}
        for i in reversed(range(nmeth)):
            md = methods[i]
            callable_ = [m["id"] for m in methods[i + 1:]]
            depth = self._depth_budget(i, nmeth)
            body = self.stmts(callable_, depth, set(), in_method=md, max_items=2 if i < nmeth - 1 else 0)
            mbodies[md["id"]] = body
            r = {md["id"]}
            for s in _sites(body):
                r |= self.reach[self._resolve(s["m"], aliases)]
            self.reach[md["id"]] = r
            self.has_val[md["id"]] = any(self.mdef[x].get("val") for x in r)
        # single_caller: only for methods that end up with exactly one call site (decided below)
        tbodies = []
        for t in range(ntrans):
            body = self.stmts([m["id"] for m in methods], f["max_depth"], set(), in_method=None,
                              max_items=3, allow_nested=True)
            node = {"id": f"t{t}", "ready": self.inp() if self.chance(f["p_ready"]) else None, "body": body}
            tbodies.append(["T", node])
        mnodes = [["M", {"id": md["id"], "body": mbodies[md["id"]]}] for md in methods]

        # placement into modules; optionally wrap groups of bodies into alternatives
        tree = [[] for _ in range(nmods)]
        items = mnodes + tbodies
        rng.shuffle(items)
        per_mod = [[] for _ in range(nmods)]
        for it in items:
            per_mod[rng.randrange(nmods)].append(it)
        for k in range(nmods):
            tree[k] = self.wrap(per_mod[k])
        prog = {"inputs": self.inputs, "methods": methods, "aliases": aliases, "tree": tree, "relations": []}
        self.number_nested(prog)
        return prog

    def _depth_budget(self, i, n):
        return max(0, min(self.f["max_depth"] - 1, n - 1 - i))

    @staticmethod
    def _resolve(ref, aliases):
        al = {a["id"]: a["target"] for a in aliases}
        while ref in al:
            ref = al[ref]
        return ref

    # ---- statements of a body ---------------------------------------------------------------
    def pick_ref(self, mid):
        als = self.alias_of.get(mid, [])
        if als and self.chance(0.5):
            return self.rng.choice(als)
        return mid

    def allowed(self, mid, used):
        """Calling `mid` here does not reach an exclusive method a second time on a non-exclusive path."""
        for x in self.reach[mid] & used:
            if not self.mdef[x].get("nonex"):
                return False
            if any(not self.mdef[y].get("nonex") for y in self.reach[x]):
                return False
        return True

    def call(self, mid, in_method):
        rng, f = self.rng, self.f
        md = self.mdef[mid]
        self.nsite += 1
        self.budget -= 1
        n = {"sid": f"s{self.nsite}", "m": self.pick_ref(mid), "k": rng.getrandbits(4), "arg": None, "en": None}
        if md["iw"]:
            if in_method is not None and in_method["iw"] and not self.has_val[mid] and self.chance(f["argsrc_din"]):
                n["argsrc"] = "din"
            elif self.chance(0.8):
                n["arg"] = self.inp(md["iw"])
        if self.chance(f["p_en"]):
            n["en"] = self.inp()
        elif self.chance(f.get("p_en_const", 0.08)):
            # enable_call given as a compile-time constant (a Python feature flag, `i < n` in a generator loop):
            # constant false still locks the callee and never activates the call; constant true is a plain call
            n["en"] = rng.choice(["c0", "c0", "c0", "c1"])
            n["enform"] = rng.randrange(3)
        return ["C", n]

    def stmts(self, callable_, depth, used, in_method, max_items=3, allow_nested=False):
        rng, f = self.rng, self.f
        out = []
        if max_items <= 0:
            return out
        n = rng.randint(0 if in_method is not None else 1, max_items)
        for _ in range(n):
            if self.budget <= 0:
                break
            r = rng.random()
            if r < f["p_ctrl"] and depth > 0 and callable_:
                node, u = self.ctrl(callable_, depth, used, in_method, allow_nested)
                out.append(node)
                used |= u
            elif r < f["p_ctrl"] + f["p_wit"] * 0.5:
                out.append(self.wit())
            elif allow_nested and self.chance(f["p_nested"]) and depth > 0:
                self.nsite += 1
                body = self.stmts(callable_, depth - 1, set(used), None, max_items=2)
                out.append(["T", {"id": f"n{self.nsite}", "ready": self.inp() if self.chance(0.7) else None, "body": body,
                                  "nested": True}])
                # a nested transaction conflicting with its parent is ill-formed (ready-dependent on a
                # conflicting transaction): what it reaches counts as used by the parent as well
                for s in _sites(body):
                    used |= self.reach[self._resolve(s["m"], self.aliases)]
            elif callable_:
                cands = [m for m in callable_ if self.allowed(m, used)]
                if not cands:
                    continue
                mid = rng.choice(cands)
                out.append(self.call(mid, in_method))
                used |= self.reach[mid]
                if self.chance(f["p_wit"] * 0.3):
                    out.append(self.wit())
        return out

    def wit(self):
        self.nwit += 1
        return ["W", {"wid": f"w{self.nwit}", "dom": self.rng.choice(self.f["wit_doms"])}]

    def ctrl(self, callable_, depth, used, in_method, allow_nested):
        """A control structure whose alternatives contain calls; biased towards calling the same
        exclusive method from several alternatives."""
        rng = self.rng
        kind = rng.choice(["If", "If", "Sw", "Fsm"] if self.f["fsm"] else ["If", "If", "Sw"])
        nalt = rng.randint(1, 3)
        same = None
        cands = [m for m in callable_ if self.allowed(m, used)]
        if cands and self.chance(0.5):
            same = rng.choice(cands)
        # ... or towards reaching one method by different routes from different alternatives: a caller X of Y in
        # one alternative, Y itself (or another caller of Y) in another
        routes = []
        if cands and self.chance(0.45):
            tops = [x for x in cands if len(self.reach[x]) > 1]
            if tops:
                x = rng.choice(tops)
                below = sorted(self.reach[x] - {x})
                y = rng.choice(below)
                others = [z for z in cands if z != x and y in self.reach[z]]
                routes = [x, rng.choice(others) if others else y]
                if self.chance(0.5):
                    routes.reverse()
                same = None
        alts = []
        acc = set()
        for k in range(nalt + 1):
            u = set(used)
            body = []
            if routes and k < 3 and self.allowed(routes[k % 2], u) and self.chance(0.85):
                body.append(self.call(routes[k % 2], in_method))
                u |= self.reach[routes[k % 2]]
            if same is not None and self.chance(0.8):
                body.append(self.call(same, in_method))
                u |= self.reach[same]
            body += self.stmts(callable_, depth - 1, u, in_method, max_items=1 if self.chance(0.7) else 2,
                               allow_nested=allow_nested)
            acc |= u
            alts.append(body)
        def cond1():
            if getattr(self, "datacond", False) and in_method is not None and in_method["iw"] and self.chance(0.6):
                return f"d:{in_method['id']}:{rng.randrange(in_method['iw'])}"
            if self.chance(0.2):  # a multi-bit expression as condition: true iff non-zero
                w = rng.choice([2, 3])
                return f"x:{self.inp(w)}:{rng.randint(2, (1 << w) - 1)}"
            return self.inp()

        if kind == "If":
            node = ["If", {"u": self.uid(), "arms": [[cond1(), alts[k]] for k in range(nalt)],
                           "else": alts[nalt] if self.chance(0.6) else None}]
        elif kind == "Sw":
            vals = rng.sample(range(4), min(nalt, 3))
            test = self.inp(2)
            if getattr(self, "datacond", False) and in_method is not None and in_method["iw"] >= 2 and self.chance(0.5):
                test = f"d:{in_method['id']}:s"  # the two low bits of data_in
            rest = [v for v in range(4) if v not in vals]
            if rest and self.chance(0.3):  # one Case with several patterns (or a pattern with a don't-care bit)
                k = rng.randrange(len(vals))
                extra = rng.choice(rest)
                vals[k] = f"{vals[k] >> 1}-" if (vals[k] ^ extra) == 1 and self.chance(0.5) else [vals[k], extra]
            node = ["Sw", {"u": self.uid(), "test": test, "cases": [[v, alts[k]] for k, v in enumerate(vals)],
                           "default": alts[nalt] if self.chance(0.6) else None}]
        else:
            ns = max(2, nalt)
            while len(alts) < ns:
                alts.append([])
            uid = self.uid()
            states = []
            for k in range(ns):
                states.append({"name": f"S{k}", "body": alts[k], "adv": self.inp() if self.chance(0.9) else None,
                               "next": f"S{rng.randrange(ns)}"})
            node = ["Fsm", {"u": uid, "fid": f"f{uid}", "states": states}]
        return node, acc

    # ---- module-level placement -------------------------------------------------------------
    def wrap(self, items):
        """Put some of the bodies of a module into alternatives of a module-level structure."""
        rng = self.rng
        if len(items) < 2 or not self.chance(self.f["p_wrap"]):
            return items
        k = rng.randint(2, min(3, len(items)))
        chosen, rest = items[:k], items[k:]
        kind = rng.choice(["If", "Sw", "Fsm"] if self.f["fsm"] else ["If", "Sw"])
        if kind == "If":
            node = ["If", {"u": self.uid(), "arms": [[self.inp(), [it]] for it in chosen[:-1]], "else": [chosen[-1]]}]
        elif kind == "Sw":
            vals = rng.sample(range(4), len(chosen))
            node = ["Sw", {"u": self.uid(), "test": self.inp(2), "cases": [[v, [it]] for v, it in zip(vals, chosen)], "default": None}]
        else:
            uid = self.uid()
            states = [{"name": f"S{j}", "body": [it], "adv": self.inp(), "next": f"S{(j + 1) % len(chosen)}"}
                      for j, it in enumerate(chosen)]
            node = ["Fsm", {"u": uid, "fid": f"f{uid}", "states": states}]
        pos = rng.randint(0, len(rest))
        return rest[:pos] + [node] + rest[pos:]

    def number_nested(self, prog):
        pass


def _sites(nodes):
    out = []
    for k, n in nodes:
        if k == "C":
            out.append(n)
        elif k in ("T", "M"):
            continue  # nested bodies own their calls
        elif k == "If":
            for _, sub in n["arms"]:
                out += _sites(sub)
            if n.get("else") is not None:
                out += _sites(n["else"])
        elif k == "Sw":
            for _, sub in n["cases"]:
                out += _sites(sub)
            if n.get("default") is not None:
                out += _sites(n["default"])
        elif k == "Fsm":
            for st in n["states"]:
                out += _sites(st["body"])
        elif k == "Cond":
            continue
    return out


# ------------------------------------------------------------------------------------------------
# relations


def add_relations(rng, prog, feat):
    """add_conflict / schedule_before relations, one at a time, each kept only if the program stays
    well-formed by the documented rules."""
    f = dict(DEFAULT_FEAT)
    f.update(feat or {})
    a = Analysis(prog)
    ids = list(a.bodies.keys())
    ids = [i for i in ids if a.bodies[i].branch_of is None]
    if len(ids) < 2:
        return prog
    nconf = rng.randint(*f["n_conflicts"])
    nbef = rng.randint(*f["n_before"])
    cands = []
    # relations are lifted to every calling transaction: prefer bodies with several callers
    weights = [1 + 2 * max(0, len(a.trans_for.get(i, [])) - 1) for i in ids]
    for _ in range(nconf):
        x = rng.choices(ids, weights)[0]
        y = rng.choices(ids, weights)[0]
        if x == y:
            x, y = rng.sample(ids, 2)
        cands.append({"kind": "conflict", "a": x, "b": y, "prio": rng.choice(["U", "L", "R"]) if f["prio"] else "U"})
    if nconf and rng.random() < 0.8:
        # two bodies of different modules, each inside an alternative of its module's control structure, with
        # different alternative numbers: structurally "the same place" in two unrelated modules
        wrapped = [i for i in ids if a.bodies[i].pos and a.bodies[i].parent is None]
        pairs = [(x, y) for x in wrapped for y in wrapped if a.bodies[x].mod != a.bodies[y].mod
                 and a.bodies[x].pos[0][1] != a.bodies[y].pos[0][1]]
        if pairs:
            x, y = rng.choice(pairs)
            cands.insert(0, {"kind": "conflict", "a": x, "b": y, "prio": rng.choice(["U", "L", "R"]) if f["prio"] else "U"})
    for _ in range(nbef):
        x, y = rng.sample(ids, 2)
        if a.bodies[x].order > a.bodies[y].order:
            x, y = y, x
        cands.append({"kind": "before", "a": x, "b": y, "rdep": bool(f["rdep"] and rng.random() < 0.5)})
    # both an ordering relation and a conflict on one and the same pair of bodies (either declared first)
    confs = [c for c in cands if c["kind"] == "conflict"]
    if confs and f["n_before"][1] > 0 and rng.random() < 0.35:
        c0 = rng.choice(confs)
        x, y = c0["a"], c0["b"]
        if a.bodies[x].order > a.bodies[y].order:
            x, y = y, x
        pos = cands.index(c0) + (0 if rng.random() < 0.6 else 1)
        cands.insert(pos, {"kind": "before", "a": x, "b": y, "rdep": False})
    if rng.random() < f.get("p_self_conflict_excl", 0.0):
        # the shape of fixed finding F9: one transaction calls x and y in different alternatives of one
        # control structure and x.add_conflict(y, priority)
        opts = []
        for t in a.transactions:
            ms = a.tree_methods.get(t, [])
            for i, x in enumerate(ms):
                for y in ms[i + 1:]:
                    if a.self_conflict_exclusive(t, x, y):
                        opts.append((x, y))
        if opts:
            # prefer pairs where one side has further callers: the relation is then also lifted to (T, T') pairs
            # (and most of all when a side is nonexclusive: no implicit conflict covers those pairs)
            w = [(1 + 3 * (len(a.trans_for.get(x, [])) + len(a.trans_for.get(y, [])) - 2)) * (12 if a.nonex(x) or a.nonex(y) else 1)
                 for x, y in opts]
            x, y = rng.choices(opts, w)[0]
            if rng.random() < 0.5:
                x, y = y, x
            if a.nonex(x) and not a.nonex(y) and rng.random() < 0.6:
                x, y = y, x  # more often than not the nonexclusive side is the second argument of add_conflict
            cands.insert(0, {"kind": "conflict", "a": x, "b": y, "prio": rng.choice(["U", "L", "R"] if not f["prio"] else ["L", "R", "L", "R", "U"])})
            nonex_side = [z for z in (y, x) if a.nonex(z)][:1]
            if not nonex_side and cands[0]["prio"] != "U" and rng.random() < 0.6:
                # ... or only the second argument of a prioritised add_conflict: the order between the two transactions
                # then comes from the relation alone
                nonex_side = [y]
                rng.random()
            if nonex_side and rng.random() < 0.8:
                # a further transaction that calls only the nonexclusive side: it conflicts with the transaction that
                # uses both sides through the explicit relation alone (no shared exclusive method covers the pair)
                z = rng.choice(nonex_side)
                n = 0
                while f"i{n}" in prog["inputs"]:
                    n += 1
                prog["inputs"][f"i{n}"] = 1
                call = {"sid": f"y{len(a.sites)}", "m": z, "k": rng.getrandbits(4), "arg": None, "en": None}
                k = 0
                while f"u{k}" in a.bodies:
                    k += 1
                prog["tree"][rng.randrange(len(prog["tree"]))].append(["T", {"id": f"u{k}", "ready": f"i{n}", "body": [["C", call]]}])
    # a relation may be declared on a provide() alias of a method instead of the method itself
    als = {}
    for al in prog.get("aliases", []):
        als.setdefault(a.resolve(al["id"]), []).append(al["id"])
    if rng.random() < 3 * f.get("p_self_conflict_nonexcl", 0.0):
        # ... and the ill-formed variant: one transaction whose calls of x and y are exclusive for some pairs of call
        # sites only (rejected by a correct library; accepted by one that compares the call sites pairwise)
        opts = []
        for t in a.transactions:
            ms = a.tree_methods.get(t, [])
            for i, x in enumerate(ms):
                for y in ms[i + 1:]:
                    if a.self_conflict_mixed(t, x, y):
                        opts.append((x, y))
        if opts:
            x, y = rng.choice(opts)
            cands.insert(0, {"kind": "conflict", "a": x, "b": y, "prio": rng.choice(["U", "L", "R"]), "_force": True})
    for r in cands:
        for side in ("a", "b"):
            if r[side] in als and rng.random() < 0.3:
                r[side] = rng.choice(als[r[side]])
    for r in cands:
        trial = copy.deepcopy(prog)
        trial["relations"].append(r)
        ta = Analysis(trial)
        d = ta.defects()
        if any(x[0] != "self-conflict" for x in d):
            continue
        if r["kind"] == "conflict":
            selfs = [(x, rr) for x, y, rr in ta.explicit_pairs() if x == y and rr is trial["relations"][-1]]
            if selfs:
                # one transaction reaches both sides of the conflict (shapes of the fixed findings F8 / F9): on
                # exclusive paths a valid design; on non-exclusive paths ill-formed (rejected since the fix) and
                # generated only where the property under test speaks about it (C02)
                excl = all(ta.self_conflict_exclusive(x, ta.resolve(r["a"]), ta.resolve(r["b"])) for x, _ in selfs)
                if not r.get("_force") and rng.random() >= (f.get("p_self_conflict_excl", 0.0) if excl else f.get("p_self_conflict_nonexcl", 0.0)):
                    continue
        if d and not f.get("p_self_conflict_nonexcl"):
            continue
        if r["kind"] == "before" and r.get("rdep"):
            # the dependent side must not also be required by the source's own transactions
            if set(ta.trans_for.get(r["a"], [])) & set(ta.trans_for.get(r["b"], [])):
                continue
        prog = trial
    for r in prog["relations"]:
        r.pop("_force", None)
    return prog


def generate(rng, feat=None, tries=60):
    """Returns a well-formed program (rejection sampling)."""
    f = dict(DEFAULT_FEAT)
    f.update(feat or {})
    for attempt in range(tries):
        g = Gen(rng, f)
        prog = g.program()
        a = Analysis(prog)
        if a.defects():
            continue
        if not a.transactions:
            continue
        prog = add_relations(rng, prog, f)
        prog = add_forwarding(rng, prog, f)
        prog = mark_single_callers(rng, prog)
        a = Analysis(prog)
        if any(x[0] != "self-conflict" or not f.get("p_self_conflict_nonexcl") for x in a.defects()):
            continue
        if f["no_amb"] and "AMB" in a.relation_table().values():
            continue
        prog["gen_attempts"] = attempt + 1
        return prog
    # fall back to a trivial design rather than failing the run
    g = Gen(rng, {**f, "max_trans": 1, "max_meth": 1, "p_ctrl": 0, "p_nested": 0, "p_wrap": 0})
    prog = g.program()
    prog["gen_attempts"] = tries + 1
    return prog


# ------------------------------------------------------------------------------------------------
# post-processing features


def _bodies_nodes(prog):
    out = {}

    def rec(nodes):
        for k, n in nodes:
            if k in ("T", "M"):
                out[n["id"]] = (k, n)
                rec(n["body"])
            elif k == "If":
                for _, sub in n["arms"]:
                    rec(sub)
                if n.get("else") is not None:
                    rec(n["else"])
            elif k == "Sw":
                for _, sub in n["cases"]:
                    rec(sub)
                if n.get("default") is not None:
                    rec(n["default"])
            elif k == "Fsm":
                for st in n["states"]:
                    rec(st["body"])
            elif k == "Cond":
                for br in n["branches"]:
                    rec(br["body"])

    for nodes in prog["tree"]:
        rec(nodes)
    return out


def add_forwarding(rng, prog, feat):
    """Forwarder-style readiness: B.ready = input | A.run with A.schedule_before(B) (DESIGN.md 3.1)."""
    f = dict(DEFAULT_FEAT)
    f.update(feat or {})
    if rng.random() >= f["p_fwd"]:
        return prog
    a = Analysis(prog)
    ids = [i for i, b in a.bodies.items() if b.branch_of is None]
    for _ in range(6):
        if len(ids) < 2:
            break
        x, y = rng.sample(ids, 2)
        if a.bodies[x].order > a.bodies[y].order:
            x, y = y, x
        # not nested in each other, no transaction reaching both
        anc = set()
        p = a.bodies[y].parent
        while p:
            anc.add(p)
            p = a.bodies[p].parent
        if x in anc:
            continue
        if set(a.trans_for.get(x, [])) & set(a.trans_for.get(y, [])):
            continue
        if not a.trans_for.get(x) or not a.trans_for.get(y):
            continue
        trial = copy.deepcopy(prog)
        nodes = _bodies_nodes(trial)
        if y in {m["id"] for m in trial["methods"]}:
            tgt = next(m for m in trial["methods"] if m["id"] == y)
        else:
            tgt = nodes[y][1]
        if tgt.get("rdy_run"):
            continue
        tgt["rdy_run"] = x
        trial["relations"].append({"kind": "before", "a": x, "b": y, "rdep": False})
        ta = Analysis(trial)
        if ta.defects():
            continue
        prog = trial
        a = ta
        if rng.random() < 0.6:
            break
    return prog


def mark_single_callers(rng, prog, p=0.3):
    a = Analysis(prog)
    for md in prog["methods"]:
        n = sum(1 for s in a.sites.values() if s.target == md["id"])
        if n == 1 and rng.random() < p:
            md["single"] = True
    return prog


# ------------------------------------------------------------------------------------------------
# condition() designs (C12)


def _cond_callees(node):
    out = set()
    for br in node[1]["branches"]:
        for k, n in br["body"]:
            if k == "C":
                out.add(n["m"])
            elif k == "Cond":
                out |= _cond_callees([k, n])
    return out


def _has_nested_priority(node):
    for br in node[1]["branches"]:
        for k, n in br["body"]:
            if k == "Cond" and (n["priority"] or _has_nested_priority([k, n])):
                return True
    return False


def _alternatives(prog):
    """Upper estimate of the number of merged transactions the manager builds for the largest family: every
    condition() block multiplies the alternatives of its enclosing body by its number of branches (nested blocks
    and blocks in called methods multiply further)."""
    mbody = {}
    for nodes in prog["tree"]:
        for k, n in nodes:
            if k == "M":
                mbody[n["id"]] = n["body"]

    def alts(body, depth=0):
        if depth > 8:
            return 1
        r = 1
        for k, n in body:
            if k == "Cond":
                r *= sum(alts(br["body"], depth + 1) for br in n["branches"]) + (1 if n["nonblocking"] else 0)
            elif k == "C":
                r *= alts(mbody.get(n["m"], []), depth + 1)
            elif k == "If":
                for _, arm in n["arms"]:
                    r *= alts(arm, depth + 1)
        return r

    return max([alts(n["body"]) for nodes in prog["tree"] for k, n in nodes if k == "T"] + [1])


def generate_cond(rng, feat=None):
    """generate_cond_once, retried until the design stays small enough to elaborate and simulate quickly (merged
    transactions multiply with every block)."""
    for _ in range(40):
        prog = generate_cond_once(rng, feat)
        if _alternatives(prog) <= 20:
            return prog
    return prog


def generate_cond_once(rng, feat=None):
    """One or two condition() blocks inside a transaction or a (single- or two-caller) method; branches
    with overlapping conditions that share callees with each other and with outside transactions."""
    g = Gen(rng, feat or {})
    nm = rng.randint(1, 4)
    methods = []
    for i in range(nm):
        iw = rng.choice([0, 3, 3])
        md = {"id": f"m{i}", "iw": iw, "ow": rng.choice([0, 3]), "k": rng.getrandbits(4), "nonex": rng.random() < 0.15 and not iw,
              "comb": None, "single": False, "val": None, "ready": g.inp() if rng.random() < 0.8 else None, "ret": None}
        if iw and rng.random() < 0.3:
            md["val"] = rng.choice([["ne", rng.getrandbits(iw)], ["bit0", rng.getrandbits(1)]])
        methods.append(md)
    g.methods = methods
    g.mdef = {m["id"]: m for m in methods}
    g.aliases = []
    g.alias_of = {}
    g.reach = {m["id"]: {m["id"]} for m in methods}
    g.has_val = {m["id"]: bool(m.get("val")) for m in methods}
    pool = [m["id"] for m in methods]
    ncond = [0]
    mbody = {m["id"]: [] for m in methods}

    def pick(cands, n, avoid):
        """up to n methods whose call trees are pairwise disjoint and avoid `avoid` (no second route to one method)"""
        out, seen = [], set(avoid)
        cands = list(cands)
        rng.shuffle(cands)
        for mid in cands:
            if len(out) < n and g.reach[mid].isdisjoint(seen):
                out.append(mid)
                seen |= g.reach[mid]
        return out

    def reach_of(mids):
        r = set()
        for mid in mids:
            r |= g.reach[mid]
        return r

    def block(depth, avoid, pool=pool, maxb=4, minb=1):
        ncond[0] += 1
        cid = f"c{ncond[0]}"
        nb = rng.randint(minb, maxb)
        branches = []
        for k in range(nb):
            body = []
            for mid in pick(pool, rng.choice([0, 1, 1, 2]), avoid):
                body.append(g.call(mid, None))
            if depth > 0 and rng.random() < 0.2:
                used = reach_of(g._resolve(s["m"], []) for s in _sites(body))
                body.append(block(depth - 1, avoid | used, pool=pool, maxb=maxb))
            if rng.random() < 0.25:  # a multi-bit expression as branch condition: holds iff non-zero
                w = rng.choice([2, 3])
                cnd = f"x:{g.inp(w)}:{rng.randint(2, (1 << w) - 1)}"
            else:
                cnd = g.inp()
            branches.append({"bid": f"{cid}b{k}", "cond": cnd, "body": body})
        if rng.random() < 0.4:
            body = []
            for mid in pick(pool, rng.choice([0, 1]), avoid):
                body.append(g.call(mid, None))
            branches.append({"bid": f"{cid}b{nb}", "cond": None, "body": body})
        return ["Cond", {"cid": cid, "nonblocking": rng.random() < 0.4, "priority": rng.random() < 0.5, "branches": branches}]

    if rng.random() < 0.65:
        # callees with a body of their own: a pool method forwards to a leaf method, or holds a condition() block
        # over leaf methods (leaves have no validate_arguments: known finding F11 is about validated callees)
        leaves = []
        for i in range(rng.randint(1, 2)):
            ld = {"id": f"l{i}", "iw": 0, "ow": 0, "k": 0, "nonex": False, "comb": None, "single": False, "val": None,
                  "ready": g.inp() if rng.random() < 0.8 else None, "ret": None}
            methods.append(ld)
            g.mdef[ld["id"]] = ld
            g.reach[ld["id"]] = {ld["id"]}
            g.has_val[ld["id"]] = False
            mbody[ld["id"]] = []
            leaves.append(ld["id"])
        for mid in rng.sample(pool, min(len(pool), rng.choice([1, 1, 2]))):
            if rng.random() < 0.5:
                mbody[mid] = [g.call(rng.choice(leaves), None)]
                g.reach[mid] |= reach_of(g._resolve(s["m"], []) for s in _sites(mbody[mid]))
            else:
                shared = rng.random() < 0.5
                inner = block(0, set(), pool=leaves, maxb=3 if shared else 2, minb=2 if shared else 1)
                inner[1]["priority"] = False
                mbody[mid] = [inner]
                if shared:
                    # several callers may run the method (and its block) in one cycle
                    g.mdef[mid].update({"nonex": True, "iw": 0, "val": None})
                    g.has_val[mid] = False
                g.reach[mid] |= reach_of(_cond_callees(inner))
        withcond = [m for m in pool if mbody[m] and mbody[m][0][0] == "Cond"]
        plain = [m for m in pool if not mbody[m]]
        forwarders = []
        if withcond and rng.random() < 0.85:
            # a plain forwarding method between a branch and the method that holds a condition() of its own
            if not plain:
                fd = {"id": "f0", "iw": 0, "ow": 0, "k": 0, "nonex": False, "comb": None, "single": False, "val": None,
                      "ready": g.inp() if rng.random() < 0.5 else None, "ret": None}
                methods.append(fd)
                g.mdef["f0"] = fd
                g.reach["f0"] = {"f0"}
                g.has_val["f0"] = False
                mbody["f0"] = []
                pool.append("f0")
                plain = ["f0"]
            x, y = rng.choice(plain), rng.choice(withcond)
            mbody[x] = [g.call(y, None)]
            g.reach[x] |= g.reach[y]
            forwarders.append(x)
        pool = pool + leaves

    own = pick(pool, sum(rng.random() < 0.25 for _ in pool), set())  # called by the enclosing body itself, outside the block
    ebody = [g.call(mid, None) for mid in own]
    first = block(1, reach_of(own), pool=pool)
    hasbody = [m for m in pool if mbody.get(m)]
    if hasbody and rng.random() < 0.9 and not (_cond_callees(first) & set(hasbody)):
        # make sure that some branch reaches a callee that has a body of its own
        fw = [m for m in hasbody if mbody[m][0][0] == "C" and mbody.get(g._resolve(mbody[m][0][1]["m"], []))]
        x = rng.choice(fw) if fw and rng.random() < 0.8 else rng.choice(hasbody)
        brs = [br for br in first[1]["branches"]
               if g.reach[x].isdisjoint(reach_of(own) | reach_of(_cond_callees(["Cond", {"branches": [br]}])))]
        if brs:
            rng.choice(brs)["body"].append(g.call(x, None))
    ebody.append(first)
    if rng.random() < 0.2:
        # a second block in the same body is parallel code: it must not reach the callees of the first.
        # Two *prioritised* blocks in one body are not generated: their branch orders contradict each other in
        # the merged transactions and elaboration fails with a priority cycle (observation recorded in DESIGN.md)
        second = block(0, reach_of(own) | reach_of(_cond_callees(first)), pool=pool)
        if first[1]["priority"] or _has_nested_priority(first):
            second[1]["priority"] = False
        ebody.append(second)
    rng.shuffle(ebody)
    tree = [[], []]
    for md in methods:
        tree[rng.randrange(2)].append(["M", {"id": md["id"], "body": mbody[md["id"]]}])
    kind = rng.choice(["T", "T", "M1", "M2", "MW1", "MW2"])
    if rng.random() < 0.14:
        kind = rng.choice(["M0", "MW0"])  # the method with the condition (or its wrapper) has no caller at all
    if kind == "T":
        tree[0].append(["T", {"id": "t0", "ready": g.inp() if rng.random() < 0.7 else None, "body": ebody}])
    else:
        def newm(mid):
            emd = {"id": mid, "iw": 0, "ow": 0, "k": 0, "nonex": False, "comb": None, "single": False, "val": None,
                   "ready": g.inp() if rng.random() < 0.5 else None, "ret": None}
            methods.append(emd)
            g.mdef[mid] = emd
            g.reach[mid] = {mid}
            g.has_val[mid] = False

        def guarded(call):
            """the call as it is, or under an m.If (both make the callee 'conditionally called')"""
            if call[1].get("en") is None and rng.random() < 0.35:
                return ["If", {"u": g.uid(), "arms": [[g.inp(), [call]]], "else": None}]
            return call

        newm("e0")
        tree[0].append(["M", {"id": "e0", "body": ebody}])
        entry = "e0"
        if kind.startswith("MW"):
            # the method with the condition is called unconditionally by a wrapper method; the guard
            # (enable_call / m.If) sits one level further up, at the wrapper's callers
            newm("w0")
            inner = g.call("e0", None)
            inner[1]["en"] = None
            tree[rng.randrange(2)].append(["M", {"id": "w0", "body": [inner]}])
            entry = "w0"
        for j in range(int(kind[-1])):
            tree[rng.randrange(2)].append(["T", {"id": f"t{j}", "ready": g.inp() if rng.random() < 0.8 else None,
                                                 "body": [guarded(g.call(entry, None))]}])
    shared_blocks = [m for m in pool if g.mdef[m].get("nonex") and mbody.get(m) and mbody[m][0][0] == "Cond"]
    if shared_blocks and rng.random() < 0.7:
        # a further caller of a nonexclusive method that holds a condition() block
        tree[rng.randrange(2)].append(["T", {"id": "o9", "ready": g.inp() if rng.random() < 0.6 else None,
                                             "body": [g.call(rng.choice(shared_blocks), None)]}])
    for j in range(rng.choice([0, 1, 1, 2])):
        body = [g.call(mid, None) for mid in pick(pool, rng.choice([1, 1, 2]), set())]
        tree[rng.randrange(2)].append(["T", {"id": f"o{j}", "ready": g.inp() if rng.random() < 0.8 else None, "body": body}])
    prog = {"inputs": g.inputs, "methods": methods, "aliases": [], "tree": tree, "relations": []}
    fl = Analysis(prog).shape_flags()
    if fl["cond_in_conditionally_called_method"] and fl["cond_branch_reaches_validate"] and rng.random() < (feat or {}).get("p_drop_f11", 0.85):
        # known finding F11 (combinational loop): keep the shape at a low rate only
        for nodes in tree:
            for k, n in nodes:
                if k == "T":
                    body = []
                    for kk, c in n["body"]:
                        if kk == "If" and len(c["arms"]) == 1 and c["arms"][0][1] and c["arms"][0][1][0][0] == "C" \
                                and c["arms"][0][1][0][1]["m"] in ("e0", "w0"):
                            kk, c = c["arms"][0][1][0]
                        if kk == "C" and c["m"] in ("e0", "w0"):
                            c["en"] = None
                        body.append([kk, c])
                    n["body"] = body
    return prog
