"""Design-level fault injection for C11: take a well-formed program and inject exactly one defect
from the statement's list.  Returns (program, description) or None if this program offers no place."""

from __future__ import annotations

import copy

from .analysis import Analysis
from .gen import _bodies_nodes

KINDS = ["double-call", "recursion", "priority-cycle", "single-caller", "rdep-conflict"]


def _new_input(prog, w=1):
    k = 0
    while f"j{k}" in prog["inputs"]:
        k += 1
    prog["inputs"][f"j{k}"] = w
    return f"j{k}"


def _new_site(prog, mid, rng, en=False):
    a = Analysis(prog)
    k = 0
    while f"x{k}" in a.sites:
        k += 1
    md = a.mdefs[a.resolve(mid)]
    n = {"sid": f"x{k}", "m": mid, "k": rng.getrandbits(4), "arg": None, "en": None}
    if md["iw"] and rng.random() < 0.5:
        n["arg"] = _new_input(prog, md["iw"])
    if en:
        n["en"] = _new_input(prog)
    return ["C", n]


def _new_method(prog, rng, body):
    k = 0
    ids = {m["id"] for m in prog["methods"]}
    while f"q{k}" in ids:
        k += 1
    md = {"id": f"q{k}", "iw": 0, "ow": 0, "k": 0, "nonex": False, "comb": None, "single": False, "val": None,
          "ready": _new_input(prog) if rng.random() < 0.5 else None, "ret": None}
    prog["methods"].append(md)
    prog["tree"][rng.randrange(len(prog["tree"]))].append(["M", {"id": md["id"], "body": body}])
    return md["id"]


def _new_uid(prog):
    a = Analysis(prog)
    return max([u[1] for u in a.structs()] + [0]) + 100 + len(prog["inputs"])


def _alias_ref(prog, a, m, rng, p=0.4):
    """`m`, or (with probability p) a provide()-alias of it: the second call of a double call reaches the
    method through another Method object"""
    if rng.random() >= p:
        return m
    al = [k for k in a.alias if a.resolve(k) == m and not any(x["id"] == k and x.get("group") for x in prog.get("aliases", []))]
    if not al:
        k = 0
        while f"z{k}" in a.alias or any(x["id"] == f"z{k}" for x in prog.get("aliases", [])):
            k += 1
        prog.setdefault("aliases", []).append({"id": f"z{k}", "target": m, "via": None})
        al = [f"z{k}"]
    return rng.choice(al)


def inject(rng, prog, kind):
    prog = copy.deepcopy(prog)
    a = Analysis(prog)
    nodes = _bodies_nodes(prog)
    tids = [t for t in a.transactions if a.bodies[t].branch_of is None]
    excl = [m for m, md in a.mdefs.items() if not md.get("nonex")]
    if kind == "double-call":
        if not excl or not tids:
            return None
        m = rng.choice(excl)
        t = rng.choice(tids)
        body = nodes[t][1]["body"]
        how = rng.choice(["same-body", "two-chains", "parallel-ifs", "disabled-calls", "beside-existing-chain", "beside-existing-chain",
                          "second-site-of-wrapper"])
        if how == "beside-existing-chain":
            # a direct call of an exclusive method right next to an existing call that already reaches it
            # (possibly deep in the chain, possibly one of several exclusive alternatives calling the same method)
            opts = []
            for sid, st in a.sites.items():
                reach = {st.target} | {ch[-1].target for ch in a.chains.get(st.target, [])}
                for x in sorted(reach):
                    if not a.nonex(x):
                        opts.append((sid, x))
            if not opts:
                return None
            sid, m = rng.choice(opts)
            from .prop import _lists
            for lst in _lists(prog):
                for i, (k, n) in enumerate(lst):
                    if k == "C" and n["sid"] == sid:
                        lst.insert(i + 1 if rng.random() < 0.5 else i, _new_site(prog, _alias_ref(prog, a, m, rng), rng))
                        break
            t = a.sites[sid].body
        elif how == "same-body":
            body.append(_new_site(prog, m, rng))
            body.append(_new_site(prog, _alias_ref(prog, a, m, rng), rng))
        elif how == "disabled-calls":  # enable_call does not make calls exclusive
            body.append(_new_site(prog, m, rng, en=True))
            body.append(_new_site(prog, _alias_ref(prog, a, m, rng), rng, en=True))
        elif how == "second-site-of-wrapper":
            # a wrapper of the method is called in both alternatives of an If; only beside its *second* call site the
            # method is also called directly (a validation that walks a callee's subtree once per root misses it)
            q = _new_method(prog, rng, [_new_site(prog, m, rng)])
            u = _new_uid(prog)
            body.append(["If", {"u": u, "arms": [[_new_input(prog), [_new_site(prog, q, rng)]]],
                                "else": [_new_site(prog, q, rng), _new_site(prog, _alias_ref(prog, a, m, rng), rng)]}])
        elif how == "two-chains":
            q1 = _new_method(prog, rng, [_new_site(prog, m, rng)])
            q2 = _new_method(prog, rng, [_new_site(prog, m, rng)])
            body.append(_new_site(prog, q1, rng))
            body.append(_new_site(prog, q2, rng))
        else:
            u = _new_uid(prog)
            body.append(["If", {"u": u, "arms": [[_new_input(prog), [_new_site(prog, m, rng)]]], "else": None}])
            body.append(["If", {"u": u + 1, "arms": [[_new_input(prog), [_new_site(prog, _alias_ref(prog, a, m, rng), rng)]]], "else": None}])
        desc = f"double-call of {m} from {t} ({how})"
    elif kind == "recursion":
        if not a.mdefs:
            return None
        how = rng.choice(["direct", "chain", "alias"])
        mids = list(a.mdefs)
        if how == "chain":
            pairs = [(x, y) for x in mids for y in mids if x != y and any(ch[-1].target == y for ch in a.chains[x])]
            if not pairs:
                how = "direct"
            else:
                x, y = rng.choice(pairs)  # x reaches y; make y call x
                nodes[y][1]["body"].append(_new_site(prog, x, rng))
                desc = f"recursion: {y} calls {x} which reaches {y}"
        if how == "alias":
            m = rng.choice(mids)
            al = [k for k, v in a.alias.items() if a.resolve(k) == m]
            if not al:
                k = 0
                while f"z{k}" in a.alias:
                    k += 1
                prog.setdefault("aliases", []).append({"id": f"z{k}", "target": m, "via": None})
                al = [f"z{k}"]
            nodes[m][1]["body"].append(_new_site(prog, rng.choice(al), rng))
            desc = f"recursion: {m} calls itself through an alias"
        if how == "direct":
            m = rng.choice(mids)
            nodes[m][1]["body"].append(_new_site(prog, m, rng))
            desc = f"recursion: {m} calls itself"
        # the recursive method must be reachable from somewhere or at least be defined: the manager
        # validates every method's call tree
    elif kind == "priority-cycle":
        ids = [i for i, b in a.bodies.items() if b.branch_of is None and a.trans_for.get(i)]
        if len(ids) < 2:
            return None
        how = rng.choice(["two", "three"]) if len(tids) >= 3 else "two"
        if how == "two":
            x, y = rng.sample(ids, 2)
            prog["relations"].append({"kind": "conflict", "a": x, "b": y, "prio": "L"})
            prog["relations"].append({"kind": "conflict", "a": x, "b": y, "prio": "R"} if rng.random() < 0.5
                                     else {"kind": "conflict", "a": y, "b": x, "prio": "L"})
            desc = f"priority 2-cycle between {x} and {y}"
        else:
            x, y, z = rng.sample(tids, 3)
            for p, q in ((x, y), (y, z), (z, x)):
                prog["relations"].append({"kind": "conflict", "a": p, "b": q, "prio": "L"})
            desc = f"priority 3-cycle {x} > {y} > {z} > {x}"
    elif kind == "single-caller":
        if len(tids) < 2:
            return None
        q = _new_method(prog, rng, [])
        next(m for m in prog["methods"] if m["id"] == q)["single"] = True
        t1, t2 = rng.sample(tids, 2)
        nodes[t1][1]["body"].append(_new_site(prog, q, rng))
        nodes[t2][1]["body"].append(_new_site(prog, q, rng))
        desc = f"single_caller method {q} called from {t1} and {t2}"
    elif kind == "rdep-conflict":
        top = [t for t in tids if a.bodies[t].parent is None]
        how = rng.choice(["nested-shares-method", "nested-deep", "explicit"]) if excl else "explicit"
        if how == "nested-deep":
            # nesting of depth 2-3: the innermost transaction shares an exclusive method with its *direct* parent
            # (itself a nested transaction), not with the outermost body (seeded change C11-3: the ready dependence
            # recorded against the outermost body instead of the enclosing one)
            if not top:
                return None
            t = rng.choice(top)
            m = rng.choice(excl)
            k = 0
            while any(f"nn{k + d}" in a.bodies for d in range(3)):
                k += 1
            depth = rng.choice([2, 2, 3])
            inner = ["T", {"id": f"nn{k + depth - 1}", "ready": None, "body": [_new_site(prog, m, rng)], "nested": True}]
            node = ["T", {"id": f"nn{k + depth - 2}", "ready": None, "body": [_new_site(prog, m, rng), inner], "nested": True}]
            for d in range(depth - 3, -1, -1):
                node = ["T", {"id": f"nn{k + d}", "ready": None, "body": [node], "nested": True}]
            nodes[t][1]["body"].append(node)
            desc = (f"transaction nn{k + depth - 1} nested {depth} levels deep in {t} calls {m} which its direct parent "
                    f"nn{k + depth - 2} also calls")
        elif how == "nested-shares-method":
            if not top:
                return None
            t = rng.choice(top)
            m = rng.choice(excl)
            body = nodes[t][1]["body"]
            k = 0
            while f"nn{k}" in a.bodies:
                k += 1
            body.append(_new_site(prog, m, rng))
            body.append(["T", {"id": f"nn{k}", "ready": None, "body": [_new_site(prog, m, rng)], "nested": True}])
            desc = f"nested transaction nn{k} calls {m} which its parent {t} also calls"
        else:
            if len(top) < 2:
                return None
            x, y = rng.sample(top, 2)
            if a.bodies[x].order > a.bodies[y].order:
                x, y = y, x
            prog["relations"].append({"kind": "before", "a": x, "b": y, "rdep": True})
            prog["relations"].append({"kind": "conflict", "a": x, "b": y, "prio": "U"})
            desc = f"{y} ready-dependent on {x} and conflicting with it"
    else:
        raise ValueError(kind)
    found = {d[0] for d in Analysis(prog).defects()}
    if kind not in found:
        return None  # injection did not produce the intended defect in this program
    return prog, desc, sorted(found)
