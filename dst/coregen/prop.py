"""Property modules of the generated-design engine are thin parameterisations of CoreProp."""

from __future__ import annotations

import copy
import random

from ..kernel import h64
from ..propbase import PropBase, make_plan
from .analysis import Analysis
from .gen import generate
from .scen import CoreScenario


class CoreProp(PropBase):
    engine = "dst-coregen"
    feat: dict = {}
    checks: list = []
    scheds = ["eager", "rr"]
    phase_kinds = ["random", "random", "allon", "stall", "hold0", "hold0", "flap", "sweep"]
    real = ["transactron.core (TModule, Transaction, Method, def_method, TransactionManager, both schedulers)",
            "transactron.lib.simultaneous.condition", "amaranth elaboration + pysim"]
    stubs = ["generated program (built through the public API)", "cycle driver", "semantic oracle over observed signals"]
    search_space = "generated transaction/method programs x arbiters x internal set orders x input histories"
    state_measure = "(program, set of transactions running in a cycle)"
    technique = ("deterministic simulation: seeded generation of transaction/method programs built with the real library, "
                 "seeded input histories (contention, stalls, flapping readiness, exhaustive valuation sweeps of small designs), "
                 "semantic invariants checked on the observed signals of every simulated cycle")
    cycles = (60, 160)

    def features_for(self, rng, tier):
        f = dict(self.feat)
        if tier == "thorough":  # larger programs: more transactions, methods and call sites
            f.setdefault("max_trans", 6)
            f.setdefault("max_meth", 7)
            f.setdefault("max_sites", 30)
        return f

    def gen_config(self, rng, tier, idx):
        # the program comes from a sub-seed shared by two neighbouring run indices, so that the same
        # program recurs under the other arbiter and under another internal set order (salt)
        group = idx // len(self.scheds)
        prng = random.Random(h64(self.master_seed, self.ID, "program", group))
        feat = self.features_for(prng, tier)
        prog = generate(prng, feat)
        sched = self.scheds[idx % len(self.scheds)]
        if sched == "rr" and not Analysis(prog).rr_safe():
            sched = "eager"  # C09's premise does not hold for this program: use the default arbiter
        cycles = rng.randint(*self.cycles) * (2 if tier == "thorough" else 1)
        return {"prog": prog, "sched": sched, "cycles": cycles, "checks": list(self.checks),
                "plan": make_plan(rng, cycles, self.phase_kinds, 6, 24)}

    def make(self, cfg):
        return CoreScenario(cfg)

    def cfg_signature(self, cfg):
        return [h64(repr(cfg["prog"]["tree"]), repr(cfg["prog"]["methods"]), repr(cfg["prog"].get("relations"))), cfg["sched"]]

    def features(self, cfg, viol):
        info = viol.get("info") or {}
        f = {k: v for k, v in info.items() if isinstance(v, (str, int, bool)) and k in ("self_conflict", "exc", "dom", "prio", "uncalled", "via_alias", "called")}
        f["sched"] = cfg["sched"]
        try:
            f.update(Analysis(cfg["prog"]).shape_flags())
        except Exception:
            pass
        return f

    def violation_class(self, feats):
        return {"kind": feats["kind"]}

    # ---- program shrinking ----------------------------------------------------------------
    def shrink_cfg(self, cfg):
        prog = cfg["prog"]
        for cand in shrink_programs(prog):
            try:
                a = Analysis(cand)
                if a.defects() or not a.transactions:
                    continue
            except Exception:
                continue
            c = dict(cfg)
            c["prog"] = cand
            yield c
        if cfg["sched"] != "eager" and "eager" in self.scheds:
            c = dict(cfg)
            c["sched"] = "eager"
            yield c


def _lists(prog):
    """All statement lists of the program (mutable references)."""
    out = []

    def rec(nodes):
        out.append(nodes)
        for k, n in nodes:
            if k in ("T", "M"):
                rec(n["body"])
            elif k == "If":
                for arm in n["arms"]:
                    rec(arm[1])
                if n.get("else") is not None:
                    rec(n["else"])
            elif k == "Sw":
                for cs in n["cases"]:
                    rec(cs[1])
                if n.get("default") is not None:
                    rec(n["default"])
            elif k == "Fsm":
                for st in n["states"]:
                    rec(st["body"])
            elif k == "Cond":
                for br in n["branches"]:
                    rec(br["body"])

    for nodes in prog["tree"]:
        rec(nodes)
    return out


def _purge(prog):
    """Drop calls, aliases and relations that refer to bodies no longer defined."""
    defined = set()
    for lst in _lists(prog):
        for k, n in lst:
            if k in ("T", "M"):
                defined.add(n["id"])
    prog["methods"] = [m for m in prog["methods"] if m["id"] in defined]
    changed = True
    while changed:
        changed = False
        keep = []
        for al in prog.get("aliases", []):
            if al["target"] in defined or al["target"] in {a["id"] for a in keep}:
                keep.append(al)
            else:
                changed = True
        prog["aliases"] = keep
    names = defined | {a["id"] for a in prog.get("aliases", [])}
    for lst in _lists(prog):
        lst[:] = [node for node in lst if not (node[0] == "C" and node[1]["m"] not in names)]
    prog["relations"] = [r for r in prog.get("relations", []) if r["a"] in names and r["b"] in names]
    for md in prog["methods"]:
        if md.get("rdy_run") and md["rdy_run"] not in names:
            md["rdy_run"] = None
    for lst in _lists(prog):
        for k, n in lst:
            if k == "T" and n.get("rdy_run") and n["rdy_run"] not in names:
                n["rdy_run"] = None
    return prog


def shrink_programs(prog):
    nl = len(_lists(prog))
    # drop one node
    for li in range(nl):
        for ni in range(len(_lists(prog)[li])):
            c = copy.deepcopy(prog)
            del _lists(c)[li][ni]
            yield _purge(c)
    # replace a control structure by one of its alternatives
    for li in range(nl):
        for ni, (k, n) in enumerate(_lists(prog)[li]):
            alts = []
            if k == "If":
                alts = [a[1] for a in n["arms"]] + ([n["else"]] if n.get("else") is not None else [])
            elif k == "Sw":
                alts = [a[1] for a in n["cases"]] + ([n["default"]] if n.get("default") is not None else [])
            elif k == "Fsm":
                alts = [st["body"] for st in n["states"]]
            for ai in range(len(alts)):
                c = copy.deepcopy(prog)
                lst = _lists(c)[li]
                kk, nn = lst[ni]
                if kk == "If":
                    body = ([a[1] for a in nn["arms"]] + ([nn["else"]] if nn.get("else") is not None else []))[ai]
                elif kk == "Sw":
                    body = ([a[1] for a in nn["cases"]] + ([nn["default"]] if nn.get("default") is not None else []))[ai]
                else:
                    body = nn["states"][ai]["body"]
                lst[ni:ni + 1] = body
                yield _purge(c)
    # drop a relation / an alias indirection / simplify attributes
    for ri in range(len(prog.get("relations", []))):
        c = copy.deepcopy(prog)
        del c["relations"][ri]
        yield c
    for li in range(nl):
        for ni, (k, n) in enumerate(_lists(prog)[li]):
            if k == "C":
                for key in ("en", "arg"):
                    if n.get(key):
                        c = copy.deepcopy(prog)
                        _lists(c)[li][ni][1][key] = None
                        yield c
                if n["m"].startswith("a"):
                    c = copy.deepcopy(prog)
                    al = {a["id"]: a["target"] for a in c["aliases"]}
                    _lists(c)[li][ni][1]["m"] = al[n["m"]]
                    yield c
            if k == "T" and n.get("ready"):
                c = copy.deepcopy(prog)
                _lists(c)[li][ni][1]["ready"] = None
                yield c
    for mi, md in enumerate(prog["methods"]):
        for key in ("ready", "val", "ret"):
            if md.get(key):
                c = copy.deepcopy(prog)
                c["methods"][mi][key] = None
                yield c
