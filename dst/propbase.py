"""Shared pieces of the property modules."""

from __future__ import annotations


class PropBase:
    ID = "C00"
    tiers = {"quick": {"runs": 100}, "thorough": {"runs": 1000}}
    rule = ""
    expected_cov: list = []
    real: list = []
    stubs: list = []
    assumptions: list = []

    def gen_config(self, rng, tier, idx):
        raise NotImplementedError

    def make(self, cfg):
        raise NotImplementedError

    def features(self, cfg, viol):
        return {}

    def cfg_signature(self, cfg):
        return {k: v for k, v in cfg.items() if k not in ("plan", "cycles")}


PROBS = [0.0, 0.1, 0.3, 0.5, 0.7, 0.9, 1.0]


def make_plan(rng, total, kinds, min_len=6, max_len=40):
    """Phase plan of a run (DESIGN.md 2.4): [[start cycle, phase kind, p], ...].  Part of the
    configuration, so it is visible in evidence samples and replay files."""
    plan = []
    t = 0
    while t < total:
        plan.append([t, rng.choice(kinds), rng.choice(PROBS)])
        t += rng.randint(min_len, max_len)
    return plan


def phase_at(plan, cyc):
    cur = plan[0]
    for ent in plan:
        if ent[0] <= cyc:
            cur = ent
        else:
            break
    return cur[1], cur[2]
