"""C28 — PipelineBuilder pipelines are ordered, lossless and compute the composed stages.

One run = one generated pipeline (cfg, JSON-able):

    source external -> 1..4 middle nodes -> sink external

middle nodes: function stage (adds / overwrites a field with arithmetic from a table; optional
`ready=` free input = stalling stage; three ways of declaring the inputs), called-method stage (a real
Adapter `self.callee`: readiness from the driver, result = table function of the argument the model
predicts, or -- no inputs -- a prefetched value with `no_dependency`), middle external (observes some
fields, may overwrite others), and the pair "exit external + re-entry external" bridged either by a
transaction inside the harness (re-entry `no_dependency`, as in test_pipeline.TwoExternalsPipeline) or
by two AdapterTrans and a harness buffer (an external module with latency; re-entry with or without
`no_dependency`).  `fifo(depth)` or the default Pipe after random nodes.

Reference model (untimed, states only what C28 states): items in entry order; every observable node
("pass" node: its `done` coincides with the item passing the node's combiner) has a pointer to the next
item it must process; unobservable nodes (function stages, combiners behind a `no_dependency` Pipe) are
applied lazily when the next observable node sees the item.  Values supplied through a `no_dependency`
node are paired with items by order within the clear epoch.  A `clear` executed in cycle c drops every
item that entered in a cycle <= c and has not left through the sink in a cycle <= c (read from the
code: Pipe.clear / CircularAllocator.clear are defined last, so they override a same-cycle write; a
same-cycle read still returns its data): an item accepted in the clear cycle is dropped, an item read
by the sink in the clear cycle is delivered.
"""

from __future__ import annotations

from ..comp import CompScenario, leaves
from ..propbase import PropBase, make_plan, phase_at

FW = {"tag": 12, "a": 8, "b": 8, "c": 5, "d": 16, "e": 8}
DATA = ["a", "b", "c", "d", "e"]
NOPS = 6


def lay(fields):
    return [(f, FW[f]) for f in fields]


def mask(f):
    return (1 << FW[f]) - 1


def py_op(op, xs, k, out):
    """Table of stage functions (python side)."""
    if not xs:
        return k & mask(out)
    x = xs[0]
    y = xs[1] if len(xs) > 1 else k
    r = [x + k, x ^ k, x + y, x - y, x * 3 + k, (x << 1) | 1][op]
    return r & mask(out)


def hw_op(op, xs, k, out):
    """Table of stage functions (Amaranth side); the result is truncated by the assignment."""
    from amaranth import C

    if not xs:
        return C(k & mask(out), FW[out])
    x = xs[0]
    y = xs[1] if len(xs) > 1 else k
    return [lambda: x + k, lambda: x ^ k, lambda: x + y, lambda: x - y, lambda: x * 3 + k, lambda: (x << 1) | 1][op]()


def full_nodes(cfg):
    src = {"t": "src", "gen": cfg["src"], "fifo": cfg.get("src_fifo", 0), "stall": cfg.get("src_stall", False)}
    snk = {"t": "snk", "req": cfg["sink"], "stall": cfg.get("sink_stall", False)}
    return [src] + [dict(n) for n in cfg["nodes"]] + [snk]


def gen_req(nd):
    t = nd["t"]
    if t == "src":
        return list(nd["gen"]), []
    if t == "snk":
        return [], list(nd["req"])
    if t == "fn":
        return ([nd["out"]] if nd["out"] else []), list(nd["ins"])
    if t == "call":
        return list(nd["outs"]), list(nd["ins"])
    if t == "ext":
        return list(nd["i"]), list(nd["o"])
    if t == "exit":
        return [], list(nd["o"])
    if t == "re":
        return list(nd["i"]), []
    raise ValueError(t)


def liveness(nodes):
    """What PipelineBuilder.get_live_signals computes: (live sets after each node, needs allow_unused,
    needs allow_empty)."""
    live: set = set()
    after = []
    unused = False
    for nd in reversed(nodes):
        after.append(set(live))
        gen, req = gen_req(nd)
        if set(gen) - live:
            unused = True
        live -= set(gen)
        live |= set(req)
    after.reverse()
    empty = not all(after[:-1])
    return after, unused, empty


def capacity(nodes):
    return sum((nd.get("fifo") or 1) for nd in nodes[:-1])


# --------------------------------------------------------------------------------------------
# the design: PipelineBuilder + the stage functions / bridge transactions (harness stubs)


def make_top(cfg, nodes):
    from amaranth import Elaboratable, Signal
    from transactron import Method, TModule, Transaction
    from transactron.lib.pipeline import PipelineBuilder
    from transactron.utils import from_method_layout

    class PipeTop(Elaboratable):
        def __init__(self):
            self.p = PipelineBuilder(allow_unused=bool(cfg["allow_unused"]), allow_empty=bool(cfg["allow_empty"]))
            self.src = Method(name="src", i=lay(cfg["src"]))
            self.snk = Method(name="snk", o=lay(cfg["sink"]))
            self.rdy: dict = {}
            self.methods: dict = {}
            self.callees: dict = {}
            self.bridge: dict = {}
            self.xclr = None

        def new_method(self, n, i, o):
            self.methods[n] = Method(name=f"n{n}", i=lay(i), o=lay(o))
            return self.methods[n]

        def new_rdy(self, n):
            self.rdy[n] = Signal(name=f"n{n}_rdy")
            return self.rdy[n]

        def new_bridge(self, n, o):
            self.bridge[n] = (Signal(name=f"n{n}_bridge_en"), Signal(name=f"n{n}_bridge_done"),
                              Signal(from_method_layout(lay(o)), name=f"n{n}_bridge_x"))
            return self.bridge[n]

        def elaborate(self, platform):
            m = TModule()
            p = self.p
            m.submodules.pipeline = p
            exits: dict = {}
            for n, nd in enumerate(nodes):
                kw = {}
                if n in self.rdy:
                    kw["ready"] = self.rdy[n]
                t = nd["t"]
                if t == "src":
                    p.add_external(self.src, **kw)
                elif t == "snk":
                    p.add_external(self.snk, **kw)
                elif t == "fn":
                    self.add_fn(m, p, n, nd, kw)
                elif t == "call":
                    p.call_method(self.callees[n].iface, no_dependency=bool(nd["nodep"]), **kw)
                elif t == "ext":
                    p.add_external(self.methods[n], **kw)
                elif t == "exit":
                    if nd["via"] == "adapt":
                        p.add_external(self.methods[n], **kw)
                    else:
                        exits[n] = p.create_external(i=[], o=lay(nd["o"]), name=f"n{n}_exit", **kw)
                elif t == "re":
                    if nd["via"] == "adapt":
                        p.add_external(self.methods[n], no_dependency=bool(nd["nodep"]), **kw)
                    else:
                        re_m = p.create_external(i=lay(nd["i"]), o=[], name=f"n{n}_reentry", no_dependency=True, **kw)
                        exit_m = exits[nd["exit"]]
                        en, done, xs = self.bridge[nd["exit"]]
                        with Transaction(name=f"bridge{n}").body(m, ready=en):
                            x = exit_m(m)
                            m.d.comb += done.eq(1)
                            m.d.top_comb += xs.eq(x)
                            re_m(m, {y: hw_op(op, [x[sf]], k, y) for y, sf, op, k in nd["f"]})
                if nd.get("fifo"):
                    p.fifo(depth=nd["fifo"])
            if self.xclr is not None:
                p.add_external_clear(self.xclr.iface)
            return m

        def add_fn(self, m, p, n, nd, kw):
            ins, out, op, k = nd["ins"], nd["out"], nd["op"], nd["k"]

            def body(*vals):
                if out is None:
                    return None
                return {out: hw_op(op, list(vals), k, out)}

            style = nd["style"]
            if nd.get("nodep"):
                kw = dict(kw, no_dependency=True)
            if style == "arg":
                def fn(arg):
                    return body(*[arg[f] for f in ins])

                deco = p.stage(m, o=lay([out] if out else []), i=lay(ins), name=f"n{n}_fn", **kw)
            else:
                ns = {"body": body}
                params = ", ".join(ins)
                exec(f"def fn({params}):\n    return body({params})\n", ns)
                fn = ns["fn"]
                if style == "named_i":
                    deco = p.stage(m, o=lay([out] if out else []), i=lay(ins), **kw)
                else:
                    deco = p.stage(m, o=lay([out] if out else []), **kw)
            deco(fn)

    return PipeTop()


class Item:
    __slots__ = ("idx", "f", "pos", "epoch", "eidx", "left", "dropped", "cyc")

    def __init__(self, idx, f, epoch, eidx, cyc):
        self.idx, self.f, self.pos, self.epoch, self.eidx = idx, f, 0, epoch, eidx
        self.left = self.dropped = False
        self.cyc = cyc


class Scen(CompScenario):
    def build(self):
        c = self.cfg
        self.nodes = nodes = full_nodes(c)
        self.N = len(nodes)
        self.dut = dut = make_top(c, nodes)
        self.top.add("dut", dut)
        self.caller("src", dut.src)
        self.caller("snk", dut.snk)
        self.caller("clear", dut.p.clear)
        self.pass_nodes = []
        self.feed_nodes = []
        self.en_ports = []  # (port name, class) in a fixed order: everything the driver may hold back
        self.buf: dict = {}  # adapt exit node -> harness buffer of exited items
        for n, nd in enumerate(nodes):
            t = nd["t"]
            if nd.get("stall"):
                self.add_input(f"n{n}.rdy", dut.new_rdy(n))
                self.en_ports.append((f"n{n}.rdy", "rdy"))
            if t in ("src", "snk"):
                self.pass_nodes.append(n)
            elif t == "call":
                dut.callees[n] = self.callee(f"n{n}", i=lay(nd["ins"]), o=lay(nd["outs"]))
                self.en_ports.append((f"n{n}.en", "callee"))
                (self.feed_nodes if nd["nodep"] else self.pass_nodes).append(n)
            elif t == "ext":
                self.caller(f"n{n}", dut.new_method(n, nd["i"], nd["o"]))
                self.en_ports.append((f"n{n}.en", "ext"))
                self.pass_nodes.append(n)
            elif t == "exit":
                if nd["via"] == "adapt":
                    self.caller(f"n{n}", dut.new_method(n, [], nd["o"]))
                    self.buf[n] = []
                else:
                    en, done, xs = dut.new_bridge(n, nd["o"])
                    self.add_input(f"n{n}.en", en)
                    self.add_obs(f"n{n}.done", done)
                    for path, sig in leaves(xs):
                        self.add_obs(f"n{n}.o.{path}", sig)
                self.en_ports.append((f"n{n}.en", "exit"))
                self.pass_nodes.append(n)
            elif t == "re":
                if nd["via"] == "adapt":
                    self.caller(f"n{n}", dut.new_method(n, nd["i"], []))
                (self.feed_nodes if nd["nodep"] else self.pass_nodes).append(n)
        if c["xclr"]:
            dut.xclr = self.callee("xclr", i=[], o=[])
        self.prev_pass = {}
        last = None
        for n in self.pass_nodes:
            self.prev_pass[n] = last
            last = n
        self.ptr = {n: 0 for n in self.pass_nodes}
        self.vals = {n: {} for n in self.feed_nodes}
        self.items: list = []
        self.base = 0
        self.epoch = 0
        self.inflight = 0
        self.cap = capacity(nodes)
        self.ntag = 0
        self.quiet = 0
        self.pred: dict = {}
        self.stallable = [name for name, _ in self.en_ports]
        return self.top

    # ---- model helpers ----------------------------------------------------------------------
    def advance(self, f, it, frm, to, strict):
        """Apply the unobservable nodes frm+1 .. to-1 to the field dict f of item it."""
        for n in range(frm + 1, to):
            nd = self.nodes[n]
            t = nd["t"]
            if t == "fn":
                if nd["out"]:
                    f[nd["out"]] = py_op(nd["op"], [f[x] for x in nd["ins"]], nd["k"], nd["out"])
            elif n in self.vals:
                lst = self.vals[n].get(it.epoch, ())
                if it.eidx >= len(lst):
                    if strict:
                        self.expect(False, "passed-without-value",
                                    f"item #{it.idx} (tag {it.f.get('tag')}) went past no_dependency node {n} "
                                    f"but only {len(lst)} value(s) were supplied there since the last clear", node=n)
                    return False
                f.update(lst[it.eidx])
        return True

    def pass_event(self, n):
        nd = self.nodes[n]
        i = self.ptr[n]
        self.expect(i < len(self.items), "ran-without-item",
                    f"node {n} ({nd['t']}) executed, but every item entered so far has already passed it or was cleared",
                    node=n, ntype=nd["t"])
        it = self.items[i]
        pp = self.prev_pass[n]
        self.expect(it.pos == pp, "stage-order",
                    f"node {n} ({nd['t']}) executed for item #{it.idx} (tag {it.f.get('tag')}) which has not passed "
                    f"node {pp} yet (last passed: {it.pos})", node=n, ntype=nd["t"])
        self.advance(it.f, it, pp, n, True)
        it.pos = n
        self.ptr[n] = i + 1
        return it

    def compare(self, n, it, fields, got, what):
        want = tuple(it.f[x] for x in fields)
        if got == want:
            return
        nd = self.nodes[n]
        kind = "data-mismatch"
        extra = ""
        if "tag" in fields:
            tg = got[fields.index("tag")]
            owner = [o for o in self.items if o.f.get("tag") == tg]
            if owner and owner[-1] is not it:
                o = owner[-1]
                if o.dropped:
                    kind, extra = "cleared-item-survived", f"; tag {tg} entered in cycle {o.cyc} and was cleared"
                elif o.idx < it.idx:
                    kind, extra = "duplicate", f"; item #{o.idx} (tag {tg}) already passed node {n}"
                else:
                    kind, extra = "lost-or-reordered", f"; item #{o.idx} (tag {tg}) overtook item #{it.idx}"
        self.expect(False, kind, f"node {n} ({nd['t']}) {what} {dict(zip(fields, got))}, expected "
                    f"{dict(zip(fields, want))} for item #{it.idx}{extra}", node=n, ntype=nd["t"])

    def predict(self, n):
        i = self.ptr[n]
        if i >= len(self.items):
            return None
        it = self.items[i]
        pp = self.prev_pass[n]
        if it.pos != pp:
            return None
        f = dict(it.f)
        return f if self.advance(f, it, pp, n, False) else None

    # ---- stimulus -------------------------------------------------------------------------
    def stimulus(self, rng, cyc):
        c = self.cfg
        kind, p = phase_at(c["plan"], cyc)
        drain = cyc >= c["cycles"] - c["drain"]
        P = c["P"]
        pclear = P["clear"]
        if kind == "random":
            ps, pk, po = P["src"], P["snk"], None
        elif kind == "backpressure":
            ps, pk, po = 0.95, 0.03, 0.9
        elif kind == "stall":
            ps, pk, po = 0.9, 0.9, 0.9
        elif kind == "flush":
            ps, pk, po = 0.9, 0.4, 0.8
            pclear = 0.5 if self.inflight >= self.cap - 1 else 0.12
        elif kind == "full":
            ps, pk, po = 1.0, 1.0, 1.0
        else:  # drainrun
            ps, pk, po = 0.05, 0.95, 0.95
        victim = None
        if kind == "stall" and self.stallable:
            victim = self.stallable[int(p * 10) % len(self.stallable)]
        stim = {}
        stim["src.en"] = 0 if drain else int(rng.random() < ps)
        stim["snk.en"] = 1 if drain else int(rng.random() < pk)
        stim["clear.en"] = 0 if drain else int(rng.random() < pclear)
        if c["xclr"]:
            stim["xclr.en"] = 1 if drain else int(rng.random() < 0.85)
        for name, cls in self.en_ports:
            pr = P[cls] if po is None else po
            if name == victim:
                pr = 0.04
            stim[name] = 1 if drain else int(rng.random() < pr)
        # source item: unique tag, noise elsewhere
        self.ntag += 1
        for f in c["src"]:
            stim[f"src.i.{f}"] = (self.ntag if f == "tag" else rng.getrandbits(FW[f])) & mask(f)
        self.pred = {}
        for n, nd in enumerate(self.nodes):
            t = nd["t"]
            if t == "call":
                f = self.predict(n) if not nd["nodep"] else None
                self.pred[n] = f is not None
                for j, o in enumerate(nd["outs"]):
                    if f is not None:  # the result is a function of the argument (predicted by the model)
                        v = py_op(nd["op"], [f[x] for x in nd["ins"]], nd["k"] + j, o)
                    else:
                        v = rng.getrandbits(FW[o])
                    stim[f"n{n}.ret.{o}"] = v
            elif t == "ext":
                for o in nd["i"]:
                    stim[f"n{n}.i.{o}"] = rng.getrandbits(FW[o])
            elif t == "re" and nd["via"] == "adapt":
                buf = self.buf[nd["exit"]]
                pr = P["re"] if po is None else po
                want = int(rng.random() < pr) if not drain else 1
                stim[f"n{n}.en"] = int(bool(buf) and want)
                head = buf[0] if buf else {}
                for y, sf, op, k in nd["f"]:
                    if sf is not None and sf in head:
                        v = py_op(op, [head[sf]], k, y)
                    else:
                        v = rng.getrandbits(FW[y])
                    stim[f"n{n}.i.{y}"] = v
        return stim

    # ---- oracle -----------------------------------------------------------------------------
    def check(self, cyc, stim, obs):
        c = self.cfg
        nodes = self.nodes
        events = []
        clear_done = obs["clear.done"]
        self.expect(not clear_done or stim.get("clear.en", 0), "ran-when-not-requested", "clear done without request")
        inflight0 = self.inflight
        blen0 = {k: len(b) for k, b in self.buf.items()}
        quiet = not stim.get("src.en", 0) and not stim.get("clear.en", 0) and stim.get("snk.en", 0)
        for n, nd in enumerate(nodes):
            t = nd["t"]
            rdy = stim.get(f"n{n}.rdy", 0) if nd.get("stall") else 1
            if not rdy:
                quiet = False
                if inflight0:
                    self.hit("stage_stalled_with_items_in_flight")
            if t == "src":
                en, done = stim.get("src.en", 0), obs["src.done"]
                self.expect(not done or (en and rdy), "ran-when-not-requested", f"source: en={en} ready={rdy} done", node=n)
                if en and not obs["src.runnable"]:
                    self.hit("source_refused")
                    if self.inflight >= self.cap:
                        self.hit("source_refused_at_capacity")
                if done:
                    f = {x: 0 for x in FW}
                    for x in c["src"]:
                        f[x] = stim.get(f"src.i.{x}", 0)
                    it = Item(len(self.items), f, self.epoch, len(self.items) - self.base, cyc)
                    self.items.append(it)
                    self.inflight += 1
                    events.append(n)
            elif t == "snk":
                en, done = stim.get("snk.en", 0), obs["snk.done"]
                self.expect(not done or (en and rdy), "ran-when-not-requested", f"sink: en={en} ready={rdy} done", node=n)
                if not en and inflight0:
                    self.hit("sink_backpressure")
                if done:
                    it = self.pass_event(n)
                    self.compare(n, it, c["sink"], tuple(obs[f"snk.o.{x}"] for x in c["sink"]), "delivered")
                    it.left = True
                    self.inflight -= 1
                    self.hit("delivered")
                    events.append(n)
            elif t == "fn":
                pass
            elif t == "call":
                en, done = stim.get(f"n{n}.en", 0), obs[f"n{n}.done"]
                if not en:
                    quiet = False
                    if inflight0:
                        self.hit("callee_not_ready_with_items_in_flight")
                self.expect(not done or en, "ran-when-not-requested", f"callee of node {n} done while not ready", node=n)
                if done:
                    ret = {o: stim.get(f"n{n}.ret.{o}", 0) for o in nd["outs"]}
                    if nd["nodep"]:
                        self.vals[n].setdefault(self.epoch, []).append(ret)
                        self.hit("nodep_call_prefetched")
                    else:
                        self.expect(rdy, "ran-when-not-ready", f"node {n} (call) ran while its ready= input is 0", node=n)
                        it = self.pass_event(n)
                        self.compare(n, it, nd["ins"], tuple(obs[f"n{n}.arg.{x}"] for x in nd["ins"]), "was called with")
                        it.f.update(ret)
                        if self.pred.get(n):
                            self.hit("callee_result_function_of_argument")
                    events.append(n)
            elif t == "ext":
                en, done = stim.get(f"n{n}.en", 0), obs[f"n{n}.done"]
                if not en:
                    quiet = False
                self.expect(not done or (en and rdy), "ran-when-not-requested", f"node {n} (ext): en={en} ready={rdy} done", node=n)
                if done:
                    it = self.pass_event(n)
                    self.compare(n, it, nd["o"], tuple(obs[f"n{n}.o.{x}"] for x in nd["o"]), "returned")
                    for x in nd["i"]:
                        it.f[x] = stim.get(f"n{n}.i.{x}", 0)
                    self.hit("middle_external_called")
                    events.append(n)
            elif t == "exit":
                en, done = stim.get(f"n{n}.en", 0), obs[f"n{n}.done"]
                if not en:
                    quiet = False
                self.expect(not done or (en and rdy), "ran-when-not-requested", f"node {n} (exit): en={en} ready={rdy} done", node=n)
                if done:
                    it = self.pass_event(n)
                    got = {x: obs[f"n{n}.o.{x}"] for x in nd["o"]}
                    self.compare(n, it, nd["o"], tuple(got[x] for x in nd["o"]), "returned")
                    r = nd["re"]
                    if nd["via"] == "adapt":
                        self.buf[n].append(dict(got, _epoch=self.epoch))
                        self.hit("exit_to_harness_buffer")
                    else:  # the bridge transaction wrote f(x) into the re-entry node in this very cycle
                        v = {y: py_op(op, [got[sf]], k, y) for y, sf, op, k in nodes[r]["f"]}
                        self.vals[r].setdefault(self.epoch, []).append(v)
                        self.hit("bridge_transaction_ran")
                    events.append(n)
            elif t == "re" and nd["via"] == "adapt":
                en, done = stim.get(f"n{n}.en", 0), obs[f"n{n}.done"]
                buf = self.buf[nd["exit"]]
                self.premise(not en or blen0[nd["exit"]] > 0, "re-entry requested although the external module holds no item")
                if blen0[nd["exit"]] and not en:
                    quiet = False
                self.expect(not done or en, "ran-when-not-requested", f"node {n} (re-entry) done without request", node=n)
                if done:
                    v = {y: stim.get(f"n{n}.i.{y}", 0) for y, _, _, _ in nd["f"]}
                    head = buf.pop(0)
                    self.expect(head["_epoch"] == self.epoch, "cleared-item-survived",
                                f"the external module between node {nd['exit']} and node {n} re-entered an item it received "
                                f"before the last clear ({head}): the external clear hook did not reach it", node=n, ntype="re")
                    if nd["nodep"]:
                        self.vals[n].setdefault(self.epoch, []).append(v)
                        self.hit("reentry_nodep_adapters")
                    else:
                        self.expect(rdy, "ran-when-not-ready", f"node {n} (re-entry) ran while its ready= input is 0", node=n)
                        it = self.pass_event(n)
                        it.f.update(v)
                        self.hit("reentry_dependent_adapters")
                    events.append(n)
        # ---- clear: everything that entered up to and including this cycle and has not left is gone
        xdone = obs["xclr.done"] if c["xclr"] else clear_done
        if c["xclr"] and not stim.get("xclr.en", 0):
            quiet = False
            if stim.get("clear.en", 0):
                self.hit("clear_blocked_by_external_clear")
        if xdone:
            for b in self.buf.values():
                if b:
                    self.hit("external_buffer_cleared")
                b.clear()
        if clear_done:
            self.hit("clear")
            if self.inflight:
                self.hit("clear_with_items_in_flight")
            if inflight0 >= self.cap:
                self.hit("clear_with_every_buffer_full")
            if inflight0 * 2 >= self.cap:
                self.hit("clear_at_half_capacity_or_more")
            if 0 in events:
                self.hit("source_accepted_in_clear_cycle")
            if (self.N - 1) in events:
                self.hit("sink_read_in_clear_cycle")
            if any(0 < e < self.N - 1 for e in events):
                self.hit("middle_node_ran_in_clear_cycle")
            for it in self.items[self.base:]:
                if not it.left:
                    it.dropped = True
            self.base = len(self.items)
            for n in self.ptr:
                self.ptr[n] = self.base
            self.epoch += 1
            self.inflight = 0
        if self.inflight >= self.cap:
            self.hit("pipeline_at_capacity")
        self.visit((min(inflight0, self.cap + 1), tuple(events), clear_done),
                   nontrivial=bool(clear_done and inflight0) or bool(events and inflight0))
        self.quiet = self.quiet + 1 if quiet else 0

    def finish(self):
        # bounded "lossless": decided only if the trace really ends with the drain phase
        if self.quiet < self.cfg["drain"] - 1:
            return
        lost = [it for it in self.items[self.base:] if not it.left]
        if lost:
            it = lost[0]
            self.expect(False, "item-lost",
                        f"{len(lost)} item(s) never left although every stage and the sink were ready for {self.quiet} "
                        f"cycles; first: item #{it.idx} tag {it.f.get('tag')} entered in cycle {it.cyc}, last seen "
                        f"passing node {it.pos}")
        self.hit("drained_clean")


# --------------------------------------------------------------------------------------------


class Prop(PropBase):
    ID = "C28"
    tiers = {
        "quick": {"runs": 300, "selftest_runs": 4},
        "thorough": {"runs": 12000, "selftest_runs": 32},
    }
    rule = ("one run = one generated pipeline (source, 1-4 middle nodes from {function stage, stalling stage, called "
            "method, prefetched no_dependency method, middle external, exit + re-entry bridged by a transaction or by "
            "adapters}, fifo(depth)/Pipe placement, allow_unused/allow_empty, external clear hook) driven for 90-300 "
            "cycles by a seeded phase plan (random / sink back-pressure / one stage stalled / flush / full speed / "
            "drain); distinct = distinct (pipeline, items in flight, set of observable nodes executed, clear); "
            "non-trivial = something executed or clear ran while items were in flight")
    expected_cov = ["delivered", "sink_backpressure", "stage_stalled_with_items_in_flight",
                    "callee_not_ready_with_items_in_flight", "source_refused_at_capacity", "pipeline_at_capacity", "clear",
                    "clear_with_items_in_flight", "clear_with_every_buffer_full", "source_accepted_in_clear_cycle",
                    "sink_read_in_clear_cycle", "middle_node_ran_in_clear_cycle", "external_buffer_cleared",
                    "clear_blocked_by_external_clear", "bridge_transaction_ran", "exit_to_harness_buffer",
                    "reentry_nodep_adapters", "reentry_dependent_adapters", "nodep_call_prefetched",
                    "middle_external_called", "callee_result_function_of_argument", "drained_clean"]
    real = ["transactron.lib.pipeline.PipelineBuilder", "transactron.lib.connectors.Pipe / ConnectTrans",
            "transactron.lib.fifo.BasicFifo", "transactron.lib.adapters.AdapterTrans / Adapter",
            "TransactionManager + scheduler", "amaranth pysim"]
    stubs = ["cycle driver (stimulus)", "stage functions from a fixed arithmetic table (generated python functions)",
             "bridge transaction exit -> f -> re-entry inside the harness top module",
             "harness buffer standing for an external module between exit and re-entry (adapter variant)",
             "called methods are Adapters whose result the driver computes from the predicted argument",
             "untimed reference model (entry-ordered item list, per-node pointers, clear epochs)"]
    search_space = "pipeline shapes and histories of source/sink readiness, per-stage stalls and clears"
    assumptions = ["clear (read from the code, the statement gives no timing): an item accepted by the pipeline in the cycle clear "
                   "runs is dropped, an item read by the sink in the cycle clear runs is delivered"]
    state_measure = "(items in flight, observable nodes executed this cycle, clear) per pipeline"

    # ---- generation -----------------------------------------------------------------------
    def gen_config(self, rng, tier, idx):
        nsrc = rng.randint(1, 2)
        src = ["tag"] + sorted(rng.sample(DATA[:3], nsrc))
        avail = list(src)
        nmid = rng.choice([1, 2, 2, 3, 3, 4, 4])
        nodes: list = []

        def pick_out(allow_new=True):
            new = [f for f in DATA if f not in avail]
            old = [f for f in avail if f != "tag"]
            if new and allow_new and (not old or rng.random() < 0.5):
                return rng.choice(new)
            return rng.choice(old)

        def fifo():
            return rng.choice([0, 0, 0, 1, 2, 3, 4])

        def add_fn(stall=None):
            ins = rng.sample(avail, rng.choice([0, 1, 1, 1, 2, 2]) if len(avail) > 1 else rng.choice([0, 1]))
            out = None if rng.random() < 0.12 else pick_out()
            nd = {"t": "fn", "ins": ins, "out": out, "op": rng.randrange(NOPS), "k": rng.randrange(256),
                  "stall": (rng.random() < 0.3) if stall is None else stall, "fifo": fifo(),
                  "style": rng.choice(["named", "named", "named_i", "arg"]),
                  "nodep": bool(not ins and out and rng.random() < 0.5)}
            nodes.append(nd)
            if out and out not in avail:
                avail.append(out)

        while len(nodes) < nmid:
            room = nmid - len(nodes)
            kinds = ["fn", "fn", "stallfn", "call", "call", "gen", "ext"] + (["pair", "pair", "pair"] if room >= 2 else [])
            k = rng.choice(kinds)
            if k == "fn":
                add_fn()
            elif k == "stallfn":
                add_fn(stall=True)
            elif k == "call":
                ins = rng.sample(avail, rng.choice([1, 1, 2]) if len(avail) > 1 else 1)
                outs = []
                for _ in range(rng.choice([0, 1, 1, 2])):
                    o = pick_out()
                    if o not in outs:
                        outs.append(o)
                        if o not in avail:
                            avail.append(o)
                nodes.append({"t": "call", "ins": ins, "outs": outs, "op": rng.randrange(NOPS), "k": rng.randrange(200),
                              "nodep": False, "stall": rng.random() < 0.25, "fifo": fifo()})
            elif k == "gen":
                o = pick_out()
                if o not in avail:
                    avail.append(o)
                nodes.append({"t": "call", "ins": [], "outs": [o], "op": 0, "k": 0, "nodep": rng.random() < 0.7,
                              "stall": rng.random() < 0.25, "fifo": fifo()})
            elif k == "ext":
                o = rng.sample(avail, rng.randint(0, min(3, len(avail))))
                i = []
                if rng.random() < 0.5:
                    i = [pick_out()]
                    if i[0] not in avail:
                        avail.append(i[0])
                nodes.append({"t": "ext", "o": o, "i": i, "stall": rng.random() < 0.25, "fifo": fifo()})
            else:  # exit + re-entry
                via = rng.choice(["trans", "adapt"])
                xo = rng.sample(avail, rng.randint(1, len(avail)))
                nexit = len(nodes) + 1  # index in the full node list (source is node 0)
                ex = {"t": "exit", "via": via, "o": xo, "stall": rng.random() < 0.2, "fifo": fifo()}
                nodes.append(ex)
                if room >= 3 and rng.random() < 0.25:
                    add_fn()
                ys = []
                for _ in range(rng.choice([1, 1, 2])):
                    if "tag" in xo and rng.random() < 0.25:
                        y = "tag"
                    else:
                        y = pick_out()
                    if y not in ys:
                        ys.append(y)
                f = []
                for y in ys:
                    if y == "tag":
                        f.append([y, "tag", 0, 0])  # the external module hands the tag back unchanged
                    elif via == "trans":
                        f.append([y, rng.choice(xo), rng.choice([0, 1, 4]), rng.randrange(256)])
                    else:
                        f.append([y, rng.choice(xo) if rng.random() < 0.8 else None, rng.choice([0, 1, 4]), rng.randrange(256)])
                    if y not in avail:
                        avail.append(y)
                nre = len(nodes) + 1
                ex["re"] = nre
                nodes.append({"t": "re", "via": via, "exit": nexit, "i": ys, "f": f,
                              "nodep": True if via == "trans" else rng.random() < 0.5,
                              "stall": rng.random() < 0.2, "fifo": fifo()})
        rest = [f for f in avail if f != "tag"]
        sink = ["tag"] + rng.sample(rest, rng.randint(0, len(rest)))
        cfg = {"src": src, "nodes": nodes, "sink": sink, "src_fifo": fifo(), "src_stall": rng.random() < 0.15,
               "sink_stall": rng.random() < 0.2, "xclr": rng.random() < 0.45}
        _, unused, empty = liveness(full_nodes(cfg))
        cfg["allow_unused"] = bool(unused or rng.random() < 0.25)
        cfg["allow_empty"] = bool(empty or rng.random() < 0.25)
        cap = capacity(full_nodes(cfg))
        cfg["drain"] = 2 * cap + 2 * len(nodes) + 10
        cycles = rng.randint(100, 300) if tier == "thorough" else rng.randint(90, 220)
        cfg["cycles"] = cycles
        cfg["sched"] = rng.choice(["eager", "eager", "rr"])
        pr = [0.3, 0.5, 0.7, 0.9, 1.0]
        cfg["P"] = {"src": rng.choice(pr), "snk": rng.choice([0.1] + pr), "rdy": rng.choice(pr), "callee": rng.choice(pr),
                    "ext": rng.choice(pr), "exit": rng.choice(pr), "re": rng.choice(pr),
                    "clear": rng.choice([0.0, 0.01, 0.03, 0.08])}
        cfg["plan"] = make_plan(rng, cycles - cfg["drain"],
                                ["random", "random", "backpressure", "stall", "flush", "flush", "full", "drainrun"],
                                min_len=8, max_len=40)
        return cfg

    def make(self, cfg):
        return Scen(cfg)

    def features(self, cfg, viol):
        info = viol.get("info") or {}
        return {"ntype": info.get("ntype"), "shape": "-".join(n["t"] + ("*" if n.get("nodep") else "") for n in cfg["nodes"])}

    def violation_class(self, feats):
        return {"kind": feats["kind"]}

    def cfg_signature(self, cfg):
        return [cfg["src"], cfg["nodes"], cfg["sink"], cfg["src_fifo"], cfg["src_stall"], cfg["sink_stall"], cfg["xclr"],
                cfg["allow_unused"], cfg["allow_empty"], cfg["sched"]]

    def shrink_cfg(self, cfg):
        # node indices name the ports, so nodes are not removed; buffers are replaced by the default Pipe
        import copy

        if cfg["src_fifo"]:
            c = copy.deepcopy(cfg)
            c["src_fifo"] = 0
            yield c
        for i, nd in enumerate(cfg["nodes"]):
            if nd.get("fifo"):
                c = copy.deepcopy(cfg)
                c["nodes"][i]["fifo"] = 0
                yield c
        if cfg["sched"] != "eager":
            c = copy.deepcopy(cfg)
            c["sched"] = "eager"
            yield c


PROP = Prop()
