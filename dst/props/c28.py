"""C28 — PipelineBuilder pipelines are ordered, lossless and compute the composed stages.

One run = one generated pipeline (cfg, JSON-able):

    source -> 1..4 middle nodes -> sink

source / sink: an external (`add_external`, driven by an AdapterTrans), a called method (`call_method` of an
Adapter: the pipeline pulls items from / pushes items into a method of the environment) or a function stage
(the source function numbers the items with a counter of its own, the sink function records what it was given);
a source external / called method may be `no_dependency`.

middle nodes: function stage (adds / overwrites one or several fields with arithmetic from a table; optional
`ready=` free input = stalling stage; four ways of declaring the inputs: inferred from the parameter names,
named + `i=`, a single `arg`, `**kwargs`), called-method stage (a real Adapter `self.callee`: readiness from the
driver, result = table function of the argument the model predicts, or -- no inputs -- a prefetched value with
`no_dependency`), middle external (observes some fields, may overwrite others; without observed fields it may be
`no_dependency`: a value feed), and the pair "exit external + re-entry external" bridged either by a
transaction inside the harness (re-entry `no_dependency`, as in test_pipeline.TwoExternalsPipeline) or
by two AdapterTrans and a harness buffer (an external module with latency; re-entry with or without
`no_dependency`).  `fifo(depth)` or the default Pipe after random nodes (also before the first / after the last
node, where the builder has nothing to buffer).  0-3 external clear hooks (`add_external_clear`), each clearing
its own subset of the external modules.  Field shapes: unsigned scalars by default; a share of the runs uses
signed, 1-bit, wide (up to 64), enum, (nested) struct and array fields; a node that generates an already known
field again may redefine its shape (the builder takes the shape of a field from its latest generator).

Reference model (untimed, states only what C28 states): items in entry order; every observable node
("pass" node: its `done` coincides with the item passing the node's combiner) has a pointer to the next
item it must process; unobservable nodes (function stages, combiners behind a `no_dependency` Pipe) are
applied lazily when the next observable node sees the item.  Values supplied through a `no_dependency`
node are paired with items by order within the clear epoch.  A `clear` executed in cycle c drops every
item that entered in a cycle <= c and has not left through the sink in a cycle <= c (read from the
code: Pipe.clear / CircularAllocator.clear are defined last, so they override a same-cycle write; a
same-cycle read still returns its data): an item accepted in the clear cycle is dropped, an item read
by the sink in the clear cycle is delivered.  Field values are kept as raw bit patterns; the stage functions
see them with the declared shape (a signed scalar is sign-extended, everything composite is its bit pattern).
"""

from __future__ import annotations

from ..comp import CompScenario
from ..propbase import PropBase, make_plan, phase_at

FW = {"tag": 12, "a": 8, "b": 8, "c": 5, "d": 16, "e": 8}
DATA = ["a", "b", "c", "d", "e"]
NOPS = 6


# --------------------------------------------------------------------------------------------
# field shapes: spec = ["u", w] | ["s", w] | ["enum", w] | ["struct", [[name, spec], ...]] | ["arr", spec, n]


def spec_width(s):
    k = s[0]
    if k in ("u", "s", "enum"):
        return s[1]
    if k == "struct":
        return sum(spec_width(x) for _, x in s[1])
    return spec_width(s[1]) * s[2]


def spec_kinds(s, top=True):
    k = s[0]
    if k == "u":
        return {"1bit"} if s[1] == 1 else ({"wide"} if s[1] > 32 else set())
    if k == "s":
        return {"signed"}
    if k == "enum":
        return {"enum"}
    if k == "struct":
        out = {"struct" if top else "nested_struct"}
        for _, x in s[1]:
            out |= spec_kinds(x, False)
        return out
    return {"array"} | spec_kinds(s[1], False)


def smask(s):
    return (1 << spec_width(s)) - 1


def sval(s, raw):
    """The integer a stage function computes with, given the raw bits of a field of shape s."""
    if s[0] == "s" and raw >> (s[1] - 1):
        return raw - (1 << s[1])
    return raw


class Types:
    """Shapes of the pipeline fields of one run.  A node that generates a field may give it a new shape
    (nd["retype"]), so a field has a shape before node n (`sb[n]`: what node n may require) and after it
    (`sa[n]`: what node n generates, and what flows on)."""

    def __init__(self, cfg, nodes):
        cur = {f: ["u", w] for f, w in FW.items()}
        cur.update(cfg.get("ftypes") or {})
        self.sb, self.sa = [], []
        for nd in nodes:
            self.sb.append(cur)
            if nd.get("retype"):
                cur = dict(cur)
                cur.update(nd["retype"])
            self.sa.append(cur)
        self._enums: dict = {}

    def enum(self, w):
        # one class per width and run: two classes with equal members are different shapes
        if w not in self._enums:
            import types

            from amaranth.lib import enum

            def fill(ns):
                for i in range(1 << w):
                    ns[f"M{i}"] = i

            self._enums[w] = types.new_class(f"E{w}", (enum.Enum,), {"shape": w}, fill)
        return self._enums[w]

    def build(self, s):
        from amaranth import signed
        from amaranth.lib import data

        k = s[0]
        if k == "u":
            return s[1]
        if k == "s":
            return signed(s[1])
        if k == "enum":
            return self.enum(s[1])
        if k == "struct":
            return data.StructLayout({n: self.build(x) for n, x in s[1]})
        return data.ArrayLayout(self.build(s[1]), s[2])

    # fresh method layouts (new shape objects on every call, as independent modules would declare them)
    def lay_in(self, n, fields):
        """Fields node n requires."""
        return [(f, self.build(self.sb[n][f])) for f in fields]

    def lay_out(self, n, fields):
        """Fields node n generates."""
        return [(f, self.build(self.sa[n][f])) for f in fields]


def py_op(op, xs, k, m):
    """Table of stage functions (python side); xs = input values as the stage sees them, m = mask of the output."""
    if not xs:
        return k & m
    x = xs[0]
    y = xs[1] if len(xs) > 1 else k
    r = [x + k, x ^ k, x + y, x - y, x * 3 + k, (x << 1) | 1][op]
    return r & m


def as_plain(v):
    from amaranth.hdl import ValueCastable

    return v.as_value() if isinstance(v, ValueCastable) else v


def hw_op(op, xs, k, ospec):
    """Table of stage functions (Amaranth side); the result is truncated by the assignment."""
    from amaranth import C

    if not xs:
        return C(k & smask(ospec), spec_width(ospec))
    x = as_plain(xs[0])
    y = as_plain(xs[1]) if len(xs) > 1 else k
    return [lambda: x + k, lambda: x ^ k, lambda: x + y, lambda: x - y, lambda: x * 3 + k, lambda: (x << 1) | 1][op]()


def typed(m, T, spec, value):
    """What a stage function returns for a field of shape spec: composite / enum fields need a value of exactly
    that shape."""
    from amaranth import Signal, Value

    if spec[0] in ("u", "s"):
        return value
    tmp = Signal(T.build(spec))
    m.d.top_comb += Value.cast(tmp).eq(value)
    return tmp


def rawfields(view):
    """(field, raw unsigned assignable bits) of a method argument / result."""
    base = view.as_value()
    return [(name, base[fld.offset:fld.offset + fld.width]) for name, fld in view.shape() if fld.width]


def full_nodes(cfg):
    src = {"t": "src", "kind": cfg.get("src_kind", "ext"), "gen": cfg["src"], "fifo": cfg.get("src_fifo", 0),
           "stall": cfg.get("src_stall", False), "nodep": cfg.get("src_nodep", False), "fgen": cfg.get("src_fgen", {})}
    snk = {"t": "snk", "kind": cfg.get("snk_kind", "ext"), "req": cfg["sink"], "stall": cfg.get("sink_stall", False),
           "xout": cfg.get("snk_xout", [])}
    return [src] + [dict(n) for n in cfg["nodes"]] + [snk]


def gen_req(nd):
    t = nd["t"]
    if t == "src":
        return list(nd["gen"]), []
    if t == "snk":
        return list(nd.get("xout", [])), list(nd["req"])
    if t == "fn":
        return ([nd["out"]] if nd["out"] else []) + [x[0] for x in nd.get("xouts", [])], list(nd["ins"])
    if t == "call":
        return list(nd["outs"]), list(nd["ins"])
    if t == "ext":
        return list(nd["i"]), list(nd["o"])
    if t == "exit":
        return [], list(nd["o"])
    if t == "re":
        return list(nd["i"]), []
    raise ValueError(t)


def liveness(nodes):
    """What PipelineBuilder.get_live_signals computes: (live sets after each node, needs allow_unused,
    needs allow_empty)."""
    live: set = set()
    after = []
    unused = False
    for nd in reversed(nodes):
        after.append(set(live))
        gen, req = gen_req(nd)
        if set(gen) - live:
            unused = True
        live -= set(gen)
        live |= set(req)
    after.reverse()
    empty = not all(after[:-1])
    return after, unused, empty


def capacity(nodes):
    return sum((nd.get("fifo") or 1) for nd in nodes[:-1]) + int(bool(nodes[0].get("nodep")))


def hook_list(cfg):
    """External clear hooks: one list of exit nodes (external modules) per hook.  Old configurations have at
    most one hook, which clears every external module."""
    hooks = cfg.get("xhooks")
    if hooks is None:
        exits = [n + 1 for n, nd in enumerate(cfg["nodes"]) if nd["t"] == "exit" and nd["via"] == "adapt"]
        hooks = [exits] if cfg["xclr"] else []
    return hooks


def hook_name(j):
    return "xclr" if j == 0 else f"xclr{j}"


# --------------------------------------------------------------------------------------------
# the design: PipelineBuilder + the stage functions / bridge transactions (harness stubs)


def make_top(cfg, nodes, T):
    from amaranth import Elaboratable, Signal, Value
    from transactron import Method, TModule, Transaction
    from transactron.lib.pipeline import PipelineBuilder
    from transactron.utils import from_method_layout

    lay_in, lay_out = T.lay_in, T.lay_out
    last = len(nodes) - 1

    class PipeTop(Elaboratable):
        def __init__(self):
            self.p = PipelineBuilder(allow_unused=bool(cfg["allow_unused"]), allow_empty=bool(cfg["allow_empty"]))
            self.src = Method(name="src", i=lay_out(0, cfg["src"])) if nodes[0]["kind"] == "ext" else None
            self.snk = Method(name="snk", o=lay_in(last, cfg["sink"])) if nodes[-1]["kind"] == "ext" else None
            self.rdy: dict = {}
            self.methods: dict = {}
            self.callees: dict = {}
            self.bridge: dict = {}
            self.xclr: list = []
            # function source / sink: request (the stage's ready=), "ran" and what the sink function was given
            self.fsrc_en = Signal(name="fsrc_en")
            self.fsrc_done = Signal(name="fsrc_done")
            self.fsnk_en = Signal(name="fsnk_en")
            self.fsnk_done = Signal(name="fsnk_done")
            self.fsnk_x = Signal(from_method_layout(lay_in(last, cfg["sink"])), name="fsnk_x")

        def new_method(self, n, i, o):
            self.methods[n] = Method(name=f"n{n}", i=lay_out(n, i), o=lay_in(n, o))
            return self.methods[n]

        def new_rdy(self, n):
            self.rdy[n] = Signal(name=f"n{n}_rdy")
            return self.rdy[n]

        def new_bridge(self, n, o):
            self.bridge[n] = (Signal(name=f"n{n}_bridge_en"), Signal(name=f"n{n}_bridge_done"),
                              Signal(from_method_layout(lay_in(n, o)), name=f"n{n}_bridge_x"))
            return self.bridge[n]

        def elaborate(self, platform):
            m = TModule()
            p = self.p
            m.submodules.pipeline = p
            exits: dict = {}
            if cfg.get("xclr_early"):
                for x in self.xclr:
                    p.add_external_clear(x.iface)
            if cfg.get("pre_fifo"):
                p.fifo(depth=cfg["pre_fifo"])  # nothing precedes the first node: the builder has nothing to buffer
            for n, nd in enumerate(nodes):
                kw = {}
                if n in self.rdy:
                    kw["ready"] = self.rdy[n]
                t = nd["t"]
                if t == "src":
                    if nd["kind"] == "ext":
                        p.add_external(self.src, no_dependency=bool(nd["nodep"]), **kw)
                    elif nd["kind"] == "call":
                        p.call_method(self.callees[n].iface, no_dependency=bool(nd["nodep"]), **kw)
                    else:
                        self.add_fsrc(m, p, nd)
                elif t == "snk":
                    if nd["kind"] == "ext":
                        p.add_external(self.snk, **kw)
                    elif nd["kind"] == "call":
                        p.call_method(self.callees[n].iface, **kw)
                    else:
                        self.add_fsnk(m, p, nd)
                elif t == "fn":
                    self.add_fn(m, p, n, nd, kw)
                elif t == "call":
                    p.call_method(self.callees[n].iface, no_dependency=bool(nd["nodep"]), **kw)
                elif t == "ext":
                    p.add_external(self.methods[n], no_dependency=bool(nd.get("nodep")), **kw)
                elif t == "exit":
                    if nd["via"] == "adapt":
                        p.add_external(self.methods[n], **kw)
                    else:
                        exits[n] = p.create_external(i=[], o=lay_in(n, nd["o"]), name=f"n{n}_exit", **kw)
                elif t == "re":
                    if nd["via"] == "adapt":
                        p.add_external(self.methods[n], no_dependency=bool(nd["nodep"]), **kw)
                    else:
                        re_m = p.create_external(i=lay_out(n, nd["i"]), o=[], name=f"n{n}_reentry", no_dependency=True,
                                                 **kw)
                        exit_m = exits[nd["exit"]]
                        en, done, xs = self.bridge[nd["exit"]]
                        with Transaction(name=f"bridge{n}").body(m, ready=en):
                            x = exit_m(m)
                            m.d.comb += done.eq(1)
                            m.d.top_comb += xs.eq(x)
                            re_m(m, {y: typed(m, T, T.sa[n][y], hw_op(op, [x[sf]], k, T.sa[n][y]))
                                     for y, sf, op, k in nd["f"]})
                if nd.get("fifo"):
                    p.fifo(depth=nd["fifo"])
            if cfg.get("post_fifo"):
                p.fifo(depth=cfg["post_fifo"])  # nothing follows the last node
            if not cfg.get("xclr_early"):
                for x in self.xclr:
                    p.add_external_clear(x.iface)
            return m

        def add_fsrc(self, m, p, nd):
            """The pipeline starts with a function stage: it produces an item whenever it runs.  The function
            numbers its items (tag = its own counter) and derives the other fields from the number."""
            cnt = Signal(16, name="fsrc_cnt")
            fgen = nd["fgen"]

            def fn():
                m.d.comb += self.fsrc_done.eq(1)
                m.d.sync += cnt.eq(cnt + 1)
                out = {}
                for f in nd["gen"]:
                    if f == "tag":
                        out[f] = cnt[:spec_width(T.sa[0]["tag"])]
                    else:
                        op, k = fgen[f]
                        out[f] = typed(m, T, T.sa[0][f], hw_op(op, [cnt], k, T.sa[0][f]))
                return out

            p.stage(m, o=lay_out(0, nd["gen"]), name="fsrc", ready=self.fsrc_en)(fn)

        def add_fsnk(self, m, p, nd):
            """The pipeline ends with a function stage that consumes the item (here: shows it to the harness)."""

            def fn(arg):
                m.d.comb += self.fsnk_done.eq(1)
                m.d.top_comb += Value.cast(self.fsnk_x).eq(Value.cast(arg))

            p.stage(m, i=lay_in(last, nd["req"]), name="fsnk", ready=self.fsnk_en)(fn)

        def add_fn(self, m, p, n, nd, kw):
            ins, out, op, k = nd["ins"], nd["out"], nd["op"], nd["k"]
            outs = ([[out, op, k]] if out else []) + [list(x) for x in nd.get("xouts", [])]

            def body(*vals):
                if not outs:
                    return None
                return {o: typed(m, T, T.sa[n][o], hw_op(op_, list(vals), k_, T.sa[n][o])) for o, op_, k_ in outs}

            style = nd["style"]
            if nd.get("nodep"):
                kw = dict(kw, no_dependency=True)
            olay = lay_out(n, [o for o, _, _ in outs])
            if style == "arg":
                def fn(arg):
                    return body(*[arg[f] for f in ins])

                deco = p.stage(m, o=olay, i=lay_in(n, ins), name=f"n{n}_fn", **kw)
            elif style == "kwargs":
                def fn(**kwargs):
                    return body(*[kwargs[f] for f in ins])

                deco = p.stage(m, o=olay, i=lay_in(n, ins), name=f"n{n}_fn", **kw)
            else:
                ns = {"body": body}
                params = ", ".join(ins)
                exec(f"def fn({params}):\n    return body({params})\n", ns)
                fn = ns["fn"]
                if style == "named_i":
                    deco = p.stage(m, o=olay, i=lay_in(n, ins), **kw)
                else:
                    deco = p.stage(m, o=olay, **kw)
            deco(fn)

    return PipeTop()


class Item:
    __slots__ = ("idx", "f", "pos", "epoch", "eidx", "left", "dropped", "cyc")

    def __init__(self, idx, f, epoch, eidx, cyc):
        self.idx, self.f, self.pos, self.epoch, self.eidx = idx, f, 0, epoch, eidx
        self.left = self.dropped = False
        self.cyc = cyc


class Scen(CompScenario):
    # ---- ports: one raw (unsigned) port per top-level field, whatever its shape ---------------
    def caller(self, name, method):
        from transactron.lib import AdapterTrans

        at = AdapterTrans.create(method)
        self.top.add(f"at_{name}", at)
        self.add_input(f"{name}.en", at.en)
        for f, sig in rawfields(at.data_in):
            self.add_input(f"{name}.i.{f}", sig)
        self.add_obs(f"{name}.done", at.done)
        for f, sig in rawfields(at.data_out):
            self.add_obs(f"{name}.o.{f}", sig)
        self.callers[name] = at
        return at

    def callee(self, name, method=None, i=(), o=(), **kwargs):
        from transactron.lib import Adapter

        ad = Adapter(name=name, i=i, o=o, **kwargs)
        self.top.add(f"ad_{name}", ad)
        self.add_input(f"{name}.en", ad.en)
        for f, sig in rawfields(ad.data_in):
            self.add_input(f"{name}.ret.{f}", sig)
        self.add_obs(f"{name}.done", ad.done)
        for f, sig in rawfields(ad.data_out):
            self.add_obs(f"{name}.arg.{f}", sig)
        return ad

    def build(self):
        c = self.cfg
        self.nodes = nodes = full_nodes(c)
        self.N = len(nodes)
        self.T = T = Types(c, nodes)
        lay_in, lay_out = T.lay_in, T.lay_out
        self.dut = dut = make_top(c, nodes, T)
        self.top.add("dut", dut)
        self.src_kind, self.snk_kind = nodes[0]["kind"], nodes[-1]["kind"]
        if self.src_kind == "ext":
            self.caller("src", dut.src)
            self.src_pref = "src.i."
        elif self.src_kind == "call":
            dut.callees[0] = self.callee("src", i=[], o=lay_out(0, c["src"]))
            self.src_pref = "src.ret."
        else:
            self.add_input("src.en", dut.fsrc_en)
            self.add_obs("src.done", dut.fsrc_done)
            self.src_pref = None
        if self.snk_kind == "ext":
            self.caller("snk", dut.snk)
            self.snk_pref = "snk.o."
        elif self.snk_kind == "call":
            dut.callees[self.N - 1] = self.callee("snk", i=lay_in(self.N - 1, c["sink"]),
                                                  o=lay_out(self.N - 1, nodes[-1]["xout"]))
            self.snk_pref = "snk.arg."
        else:
            self.add_input("snk.en", dut.fsnk_en)
            self.add_obs("snk.done", dut.fsnk_done)
            for f, sig in rawfields(dut.fsnk_x):
                self.add_obs(f"snk.arg.{f}", sig)
            self.snk_pref = "snk.arg."
        self.caller("clear", dut.p.clear)
        self.pass_nodes = []
        self.feed_nodes = []
        self.en_ports = []  # (port name, class) in a fixed order: everything the driver may hold back
        self.buf: dict = {}  # adapt exit node -> harness buffer of exited items
        for n, nd in enumerate(nodes):
            t = nd["t"]
            if nd.get("stall"):
                self.add_input(f"n{n}.rdy", dut.new_rdy(n))
                self.en_ports.append((f"n{n}.rdy", "rdy"))
            if t in ("src", "snk"):
                self.pass_nodes.append(n)
            elif t == "call":
                dut.callees[n] = self.callee(f"n{n}", i=lay_in(n, nd["ins"]), o=lay_out(n, nd["outs"]))
                self.en_ports.append((f"n{n}.en", "callee"))
                (self.feed_nodes if nd["nodep"] else self.pass_nodes).append(n)
            elif t == "ext":
                self.caller(f"n{n}", dut.new_method(n, nd["i"], nd["o"]))
                self.en_ports.append((f"n{n}.en", "ext"))
                (self.feed_nodes if nd.get("nodep") else self.pass_nodes).append(n)
            elif t == "exit":
                if nd["via"] == "adapt":
                    self.caller(f"n{n}", dut.new_method(n, [], nd["o"]))
                    self.buf[n] = []
                else:
                    en, done, xs = dut.new_bridge(n, nd["o"])
                    self.add_input(f"n{n}.en", en)
                    self.add_obs(f"n{n}.done", done)
                    for f, sig in rawfields(xs):
                        self.add_obs(f"n{n}.o.{f}", sig)
                self.en_ports.append((f"n{n}.en", "exit"))
                self.pass_nodes.append(n)
            elif t == "re":
                if nd["via"] == "adapt":
                    self.caller(f"n{n}", dut.new_method(n, nd["i"], []))
                (self.feed_nodes if nd["nodep"] else self.pass_nodes).append(n)
        self.hooks = [list(h) for h in hook_list(c)]
        for j in range(len(self.hooks)):
            dut.xclr.append(self.callee(hook_name(j), i=[], o=[]))
        hooked = {e for h in self.hooks for e in h}
        self.unhooked = [e for e in self.buf if e not in hooked]
        self.prev_pass = {}
        last = None
        for n in self.pass_nodes:
            self.prev_pass[n] = last
            last = n
        self.ptr = {n: 0 for n in self.pass_nodes}
        self.vals = {n: {} for n in self.feed_nodes}
        self.items: list = []
        self.base = 0
        self.epoch = 0
        self.inflight = 0
        self.cap = capacity(nodes)
        self.ntag = 0
        self.fcnt = 0  # items the source function has produced
        self.quiet = 0
        self.prev_clear = False
        self.pred: dict = {}
        self.stallable = [name for name, _ in self.en_ports]
        self.drain_start = c["cycles"] - c["drain"]
        lc = c.get("late_clear")
        # [a, ln]: the a + ln cycles before the final drain are a drain too, ending with ln cycles of clear
        self.win_start = self.drain_start - (lc[0] + lc[1]) if lc else self.drain_start
        self.clr_start = self.drain_start - lc[1] if lc else self.drain_start
        self.static_cov()
        return self.top

    def static_cov(self):
        """What the generated pipeline contains (counted once per run)."""
        c, nodes, T = self.cfg, self.nodes, self.T
        after, _, _ = liveness(nodes)
        seen: set = set()
        kinds: set = set()
        for n, nd in enumerate(nodes):
            gen, req = gen_req(nd)
            before = after[n - 1] if n else set()
            for g in gen:
                if g in seen and g not in before:
                    self.hit("field_dead_then_recreated")
                if g in before:
                    self.hit("field_overwritten_by_its_reader")
            seen |= set(gen)
            for g in sorted(nd.get("retype") or {}):
                if T.sa[n][g] != T.sb[n][g]:
                    self.hit("field_shape_redefined")
                    for j in range(n + 1, len(nodes)):  # who sees the new shape first?
                        gen2, req2 = gen_req(nodes[j])
                        if g in req2:
                            self.hit("redefined_field_consumed")
                            if nodes[j]["t"] == "fn" and nodes[j]["style"] == "named":
                                self.hit("redefined_field_consumed_by_inferred_inputs")
                            break
                        if g in gen2:
                            break
            for g in gen:
                kinds |= spec_kinds(T.sa[n][g])
            if nd["t"] == "fn":
                if nd["style"] == "kwargs":
                    self.hit("stage_function_kwargs")
                if nd.get("xouts"):
                    self.hit("stage_function_several_outputs")
            if nd["t"] == "ext" and nd.get("nodep"):
                self.hit("middle_external_nodep")
            if nd.get("fifo") == 1:
                self.hit("fifo_depth_1")
        self.hit(f"source_{self.src_kind}")
        self.hit(f"sink_{self.snk_kind}")
        if nodes[0]["nodep"]:
            self.hit("source_nodep")
        if nodes[-1]["xout"]:
            self.hit("sink_method_with_unused_result")
        if c.get("pre_fifo"):
            self.hit("fifo_before_first_node")
        if c.get("post_fifo"):
            self.hit("fifo_after_last_node")
        if len(self.hooks) >= 2:
            self.hit("external_clear_hooks_2plus")
        self.sink_kinds = sorted(set().union(*[spec_kinds(T.sb[self.N - 1][f]) for f in c["sink"]]))
        for k in sorted(kinds):
            self.hit(f"field_{k}")

    # ---- model helpers ----------------------------------------------------------------------
    def fval(self, n, f, names):
        """What node n computes with: the raw bits of its input fields seen with the shapes they have there."""
        sb = self.T.sb[n]
        return [sval(sb[x], f[x]) for x in names]

    def omask(self, n, f):
        return smask(self.T.sa[n][f])

    def owidth(self, n, f):
        return spec_width(self.T.sa[n][f])

    def advance(self, f, it, frm, to, strict):
        """Apply the unobservable nodes frm+1 .. to-1 to the field dict f of item it."""
        for n in range(frm + 1, to):
            nd = self.nodes[n]
            t = nd["t"]
            if t == "fn":
                xs = self.fval(n, f, nd["ins"])
                new = {}
                if nd["out"]:
                    new[nd["out"]] = py_op(nd["op"], xs, nd["k"], self.omask(n, nd["out"]))
                for o, op, k in nd.get("xouts", []):
                    new[o] = py_op(op, xs, k, self.omask(n, o))
                f.update(new)
            elif n in self.vals:
                lst = self.vals[n].get(it.epoch, ())
                if it.eidx >= len(lst):
                    if strict:
                        self.expect(False, "passed-without-value",
                                    f"item #{it.idx} (tag {it.f.get('tag')}) went past no_dependency node {n} "
                                    f"but only {len(lst)} value(s) were supplied there since the last clear", node=n)
                    return False
                f.update(lst[it.eidx])
        return True

    def pass_event(self, n):
        nd = self.nodes[n]
        i = self.ptr[n]
        self.expect(i < len(self.items), "ran-without-item",
                    f"node {n} ({nd['t']}) executed, but every item entered so far has already passed it or was cleared",
                    node=n, ntype=nd["t"])
        it = self.items[i]
        pp = self.prev_pass[n]
        self.expect(it.pos == pp, "stage-order",
                    f"node {n} ({nd['t']}) executed for item #{it.idx} (tag {it.f.get('tag')}) which has not passed "
                    f"node {pp} yet (last passed: {it.pos})", node=n, ntype=nd["t"])
        self.advance(it.f, it, pp, n, True)
        it.pos = n
        self.ptr[n] = i + 1
        return it

    def compare(self, n, it, fields, got, what):
        want = tuple(it.f[x] for x in fields)
        if got == want:
            return
        nd = self.nodes[n]
        kind = "data-mismatch"
        extra = ""
        if "tag" in fields:
            tg = got[fields.index("tag")]
            owner = [o for o in self.items if o.f.get("tag") == tg]
            if owner and owner[-1] is not it:
                o = owner[-1]
                if o.dropped:
                    kind, extra = "cleared-item-survived", f"; tag {tg} entered in cycle {o.cyc} and was cleared"
                elif o.idx < it.idx:
                    kind, extra = "duplicate", f"; item #{o.idx} (tag {tg}) already passed node {n}"
                else:
                    kind, extra = "lost-or-reordered", f"; item #{o.idx} (tag {tg}) overtook item #{it.idx}"
        self.expect(False, kind, f"node {n} ({nd['t']}) {what} {dict(zip(fields, got))}, expected "
                    f"{dict(zip(fields, want))} for item #{it.idx}{extra}", node=n, ntype=nd["t"])

    def predict(self, n):
        i = self.ptr[n]
        if i >= len(self.items):
            return None
        it = self.items[i]
        pp = self.prev_pass[n]
        if it.pos != pp:
            return None
        f = dict(it.f)
        return f if self.advance(f, it, pp, n, False) else None

    # ---- stimulus -------------------------------------------------------------------------
    def stimulus(self, rng, cyc):
        c, T = self.cfg, self.T
        kind, p = phase_at(c["plan"], cyc)
        drain = cyc >= self.win_start
        P = c["P"]
        pclear = P["clear"]
        if kind == "random":
            ps, pk, po = P["src"], P["snk"], None
        elif kind == "backpressure":
            ps, pk, po = 0.95, 0.03, 0.9
        elif kind == "stall":
            ps, pk, po = 0.9, 0.9, 0.9
        elif kind == "flush":
            ps, pk, po = 0.9, 0.4, 0.8
            pclear = 0.5 if self.inflight >= self.cap - 1 else 0.12
            if self.prev_clear:  # clears in back-to-back cycles
                pclear = 0.5
        elif kind == "full":
            ps, pk, po = 1.0, 1.0, 1.0
        else:  # drainrun
            ps, pk, po = 0.05, 0.95, 0.95
        victim = None
        if kind == "stall" and self.stallable:
            victim = self.stallable[int(p * 10) % len(self.stallable)]
        stim = {}
        stim["src.en"] = 0 if drain else int(rng.random() < ps)
        stim["snk.en"] = 1 if drain else int(rng.random() < pk)
        if drain:
            stim["clear.en"] = int(self.clr_start <= cyc < self.drain_start)
        else:
            stim["clear.en"] = int(rng.random() < pclear)
        for j in range(len(self.hooks)):
            stim[hook_name(j) + ".en"] = 1 if drain else int(rng.random() < 0.85)
        for name, cls in self.en_ports:
            pr = P[cls] if po is None else po
            if name == victim:
                pr = 0.04
            stim[name] = 1 if drain else int(rng.random() < pr)
        # source item: unique tag, noise elsewhere
        self.ntag += 1
        if self.src_pref:
            for f in c["src"]:
                stim[self.src_pref + f] = (self.ntag if f == "tag" else rng.getrandbits(self.owidth(0, f))) & self.omask(0, f)
        if self.snk_kind == "call":
            for f in self.nodes[-1]["xout"]:
                stim[f"snk.ret.{f}"] = rng.getrandbits(self.owidth(self.N - 1, f))
        self.pred = {}
        for n, nd in enumerate(self.nodes):
            t = nd["t"]
            if t == "call":
                f = self.predict(n) if not nd["nodep"] else None
                self.pred[n] = f is not None
                for j, o in enumerate(nd["outs"]):
                    if f is not None:  # the result is a function of the argument (predicted by the model)
                        v = py_op(nd["op"], self.fval(n, f, nd["ins"]), nd["k"] + j, self.omask(n, o))
                    else:
                        v = rng.getrandbits(self.owidth(n, o))
                    stim[f"n{n}.ret.{o}"] = v
            elif t == "ext":
                for o in nd["i"]:
                    stim[f"n{n}.i.{o}"] = rng.getrandbits(self.owidth(n, o))
            elif t == "re" and nd["via"] == "adapt":
                buf = self.buf[nd["exit"]]
                pr = P["re"] if po is None else po
                want = int(rng.random() < pr) if not drain else 1
                stim[f"n{n}.en"] = int(bool(buf) and want)
                head = buf[0] if buf else {}
                for y, sf, op, k in nd["f"]:
                    if sf is not None and sf in head:
                        v = py_op(op, self.fval(nd["exit"], head, [sf]), k, self.omask(n, y))
                    else:
                        v = rng.getrandbits(self.owidth(n, y))
                    stim[f"n{n}.i.{y}"] = v
        return stim

    # ---- oracle -----------------------------------------------------------------------------
    def check(self, cyc, stim, obs):
        c, T = self.cfg, self.T
        nodes = self.nodes
        events = []
        clear_done = obs["clear.done"]
        self.expect(not clear_done or stim.get("clear.en", 0), "ran-when-not-requested", "clear done without request")
        inflight0 = self.inflight
        blen0 = {k: len(b) for k, b in self.buf.items()}
        quiet = not stim.get("src.en", 0) and not stim.get("clear.en", 0) and stim.get("snk.en", 0)
        for n, nd in enumerate(nodes):
            t = nd["t"]
            rdy = stim.get(f"n{n}.rdy", 0) if nd.get("stall") else 1
            if not rdy:
                quiet = False
                if inflight0:
                    self.hit("stage_stalled_with_items_in_flight")
            if t == "src":
                en, done = stim.get("src.en", 0), obs["src.done"]
                # behind a no_dependency Pipe the ready= input holds back the combiner, not the acceptance
                self.expect(not done or (en and (rdy or nd["nodep"])), "ran-when-not-requested",
                            f"source: en={en} ready={rdy} done", node=n)
                refused = en and not (obs["src.runnable"] if self.src_kind == "ext" else done)
                if refused:
                    self.hit("source_refused")
                    if self.inflight >= self.cap:
                        self.hit("source_refused_at_capacity")
                if done:
                    f = {x: 0 for x in FW}
                    if self.src_pref:
                        for x in c["src"]:
                            f[x] = stim.get(self.src_pref + x, 0)
                    else:  # function source: the fields are functions of the function's own item counter
                        cnt = self.fcnt & 0xFFFF
                        self.fcnt += 1
                        for x in c["src"]:
                            if x == "tag":
                                f[x] = cnt & self.omask(0, x)
                            else:
                                op, k = nd["fgen"][x]
                                f[x] = py_op(op, [cnt], k, self.omask(0, x))
                    it = Item(len(self.items), f, self.epoch, len(self.items) - self.base, cyc)
                    self.items.append(it)
                    self.inflight += 1
                    events.append(n)
            elif t == "snk":
                en, done = stim.get("snk.en", 0), obs["snk.done"]
                self.expect(not done or (en and rdy), "ran-when-not-requested", f"sink: en={en} ready={rdy} done", node=n)
                if not en and inflight0:
                    self.hit("sink_backpressure")
                if done:
                    it = self.pass_event(n)
                    self.compare(n, it, c["sink"], tuple(obs[self.snk_pref + x] for x in c["sink"]), "delivered")
                    it.left = True
                    self.inflight -= 1
                    self.hit("delivered")
                    for k in self.sink_kinds:
                        self.hit("delivered_field_" + k)
                    events.append(n)
            elif t == "fn":
                pass
            elif t == "call":
                en, done = stim.get(f"n{n}.en", 0), obs[f"n{n}.done"]
                if not en:
                    quiet = False
                    if inflight0:
                        self.hit("callee_not_ready_with_items_in_flight")
                self.expect(not done or en, "ran-when-not-requested", f"callee of node {n} done while not ready", node=n)
                if done:
                    ret = {o: stim.get(f"n{n}.ret.{o}", 0) for o in nd["outs"]}
                    if nd["nodep"]:
                        self.vals[n].setdefault(self.epoch, []).append(ret)
                        self.hit("nodep_call_prefetched")
                    else:
                        self.expect(rdy, "ran-when-not-ready", f"node {n} (call) ran while its ready= input is 0", node=n)
                        it = self.pass_event(n)
                        self.compare(n, it, nd["ins"], tuple(obs[f"n{n}.arg.{x}"] for x in nd["ins"]), "was called with")
                        it.f.update(ret)
                        if self.pred.get(n):
                            self.hit("callee_result_function_of_argument")
                    events.append(n)
            elif t == "ext":
                en, done = stim.get(f"n{n}.en", 0), obs[f"n{n}.done"]
                if not en:
                    quiet = False
                nodep = nd.get("nodep")
                self.expect(not done or (en and (rdy or nodep)), "ran-when-not-requested",
                            f"node {n} (ext): en={en} ready={rdy} done", node=n)
                if done:
                    v = {x: stim.get(f"n{n}.i.{x}", 0) for x in nd["i"]}
                    if nodep:  # a value feed: paired with the items by order
                        self.vals[n].setdefault(self.epoch, []).append(v)
                        self.hit("middle_external_nodep_fed")
                    else:
                        it = self.pass_event(n)
                        self.compare(n, it, nd["o"], tuple(obs[f"n{n}.o.{x}"] for x in nd["o"]), "returned")
                        it.f.update(v)
                        self.hit("middle_external_called")
                    events.append(n)
            elif t == "exit":
                en, done = stim.get(f"n{n}.en", 0), obs[f"n{n}.done"]
                if not en:
                    quiet = False
                self.expect(not done or (en and rdy), "ran-when-not-requested", f"node {n} (exit): en={en} ready={rdy} done", node=n)
                if done:
                    it = self.pass_event(n)
                    got = {x: obs[f"n{n}.o.{x}"] for x in nd["o"]}
                    self.compare(n, it, nd["o"], tuple(got[x] for x in nd["o"]), "returned")
                    r = nd["re"]
                    if nd["via"] == "adapt":
                        self.buf[n].append(dict(got, _epoch=self.epoch))
                        self.hit("exit_to_harness_buffer")
                    else:  # the bridge transaction wrote f(x) into the re-entry node in this very cycle
                        v = {y: py_op(op, self.fval(n, got, [sf]), k, self.omask(r, y)) for y, sf, op, k in nodes[r]["f"]}
                        self.vals[r].setdefault(self.epoch, []).append(v)
                        self.hit("bridge_transaction_ran")
                    events.append(n)
            elif t == "re" and nd["via"] == "adapt":
                en, done = stim.get(f"n{n}.en", 0), obs[f"n{n}.done"]
                buf = self.buf[nd["exit"]]
                self.premise(not en or blen0[nd["exit"]] > 0, "re-entry requested although the external module holds no item")
                if blen0[nd["exit"]] and not en:
                    quiet = False
                self.expect(not done or en, "ran-when-not-requested", f"node {n} (re-entry) done without request", node=n)
                if done:
                    v = {y: stim.get(f"n{n}.i.{y}", 0) for y, _, _, _ in nd["f"]}
                    head = buf.pop(0)
                    self.expect(head["_epoch"] == self.epoch, "cleared-item-survived",
                                f"the external module between node {nd['exit']} and node {n} re-entered an item it received "
                                f"before the last clear ({head}): its external clear hook was not called", node=n, ntype="re")
                    if nd["nodep"]:
                        self.vals[n].setdefault(self.epoch, []).append(v)
                        self.hit("reentry_nodep_adapters")
                    else:
                        self.expect(rdy, "ran-when-not-ready", f"node {n} (re-entry) ran while its ready= input is 0", node=n)
                        it = self.pass_event(n)
                        it.f.update(v)
                        self.hit("reentry_dependent_adapters")
                    events.append(n)
        # ---- clear: everything that entered up to and including this cycle and has not left is gone
        # An external module forgets its items when (and only when) its own clear hook is called; a module
        # without a hook is cleared by its owner together with the pipeline.
        nonempty_cleared = 0
        for j, exits in enumerate(self.hooks):
            name = hook_name(j)
            if not stim.get(name + ".en", 0):
                quiet = False
                if stim.get("clear.en", 0):
                    self.hit("clear_blocked_by_external_clear")
            if obs[name + ".done"]:
                if not clear_done:
                    self.hit("external_clear_hook_ran_without_clear")
                for e in exits:
                    if self.buf[e]:
                        self.hit("external_buffer_cleared")
                        nonempty_cleared += 1
                    self.buf[e].clear()
        if clear_done:
            for e in self.unhooked:
                self.buf[e].clear()
        if nonempty_cleared >= 2:
            self.hit("two_external_modules_cleared")
        if clear_done:
            self.hit("clear")
            if len(self.hooks) >= 2:
                self.hit("clear_with_2plus_external_hooks")
            if self.inflight:
                self.hit("clear_with_items_in_flight")
                if cyc >= self.win_start:
                    self.hit("clear_during_drain")
            if self.prev_clear:
                self.hit("clear_back_to_back")
            if inflight0 >= self.cap:
                self.hit("clear_with_every_buffer_full")
            if inflight0 * 2 >= self.cap:
                self.hit("clear_at_half_capacity_or_more")
            if 0 in events:
                self.hit("source_accepted_in_clear_cycle")
            if (self.N - 1) in events:
                self.hit("sink_read_in_clear_cycle")
            if any(0 < e < self.N - 1 for e in events):
                self.hit("middle_node_ran_in_clear_cycle")
            for it in self.items[self.base:]:
                if not it.left:
                    it.dropped = True
            self.base = len(self.items)
            for n in self.ptr:
                self.ptr[n] = self.base
            self.epoch += 1
            self.inflight = 0
        self.prev_clear = bool(clear_done)
        if self.inflight >= self.cap:
            self.hit("pipeline_at_capacity")
        self.visit((min(inflight0, self.cap + 1), tuple(events), clear_done),
                   nontrivial=bool(clear_done and inflight0) or bool(events and inflight0))
        self.quiet = self.quiet + 1 if quiet else 0

    def finish(self):
        # bounded "lossless": decided only if the trace really ends with the drain phase
        if self.quiet < self.cfg["drain"] - 1:
            return
        lost = [it for it in self.items[self.base:] if not it.left]
        if lost:
            it = lost[0]
            self.expect(False, "item-lost",
                        f"{len(lost)} item(s) never left although every stage and the sink were ready for {self.quiet} "
                        f"cycles; first: item #{it.idx} tag {it.f.get('tag')} entered in cycle {it.cyc}, last seen "
                        f"passing node {it.pos}")
        self.hit("drained_clean")


# --------------------------------------------------------------------------------------------


def rand_spec(rng):
    return rng.choice([
        ["s", rng.choice([2, 5, 8, 13, 16])],
        ["s", rng.choice([2, 5, 8, 13, 16])],
        ["u", 1],
        ["u", rng.choice([33, 48, 64])],
        ["u", rng.choice([40, 64])],
        ["enum", rng.choice([2, 3])],
        ["struct", [["x", ["u", 4]], ["y", ["s", 5]]]],
        ["struct", [["p", ["u", 1]], ["in", ["struct", [["x", ["u", 3]], ["y", ["s", 4]]]]], ["q", ["enum", 2]]]],
        ["arr", ["u", 4], 3],
        ["arr", ["s", 3], 4],
        ["arr", ["struct", [["x", ["u", 2]], ["y", ["u", 3]]]], 2],
    ])


class Prop(PropBase):
    ID = "C28"
    tiers = {
        "quick": {"runs": 300, "selftest_runs": 4},
        "thorough": {"runs": 12000, "selftest_runs": 32},
    }
    rule = ("one run = one generated pipeline (source and sink each an external, a called method or a function stage; "
            "1-4 middle nodes from {function stage with one or several outputs declared in four styles, stalling stage, "
            "called method, prefetched no_dependency method, middle external (also as no_dependency value feed), exit + "
            "re-entry bridged by a transaction or by adapters}, fifo(depth)/Pipe placement incl. before the first / after "
            "the last node, allow_unused/allow_empty, 0-3 external clear hooks over the external modules, field shapes "
            "unsigned / signed / 1-bit / wide / enum / struct / array, a field's shape may be redefined by a node that "
            "generates it again) driven for 90-300 cycles by a seeded phase plan "
            "(random / sink back-pressure / one stage stalled / flush / full speed / drain; optionally clear while "
            "draining); distinct = distinct (pipeline, items in flight, set of observable nodes executed, clear); "
            "non-trivial = something executed or clear ran while items were in flight")
    expected_cov = ["delivered", "sink_backpressure", "stage_stalled_with_items_in_flight",
                    "callee_not_ready_with_items_in_flight", "source_refused_at_capacity", "pipeline_at_capacity", "clear",
                    "clear_with_items_in_flight", "clear_with_every_buffer_full", "source_accepted_in_clear_cycle",
                    "sink_read_in_clear_cycle", "middle_node_ran_in_clear_cycle", "external_buffer_cleared",
                    "clear_blocked_by_external_clear", "bridge_transaction_ran", "exit_to_harness_buffer",
                    "reentry_nodep_adapters", "reentry_dependent_adapters", "nodep_call_prefetched",
                    "middle_external_called", "callee_result_function_of_argument", "drained_clean",
                    "clear_with_2plus_external_hooks", "source_call", "source_fn", "sink_call", "sink_fn", "source_nodep",
                    "stage_function_kwargs", "stage_function_several_outputs", "field_dead_then_recreated",
                    "field_overwritten_by_its_reader", "middle_external_nodep_fed", "fifo_depth_1",
                    "fifo_before_first_node", "fifo_after_last_node", "clear_during_drain", "clear_back_to_back",
                    "delivered_field_signed", "delivered_field_1bit", "delivered_field_wide", "delivered_field_enum",
                    "delivered_field_struct", "delivered_field_array", "field_shape_redefined",
                    "redefined_field_consumed"]
    real = ["transactron.lib.pipeline.PipelineBuilder", "transactron.lib.connectors.Pipe / ConnectTrans",
            "transactron.lib.fifo.BasicFifo", "transactron.lib.adapters.AdapterTrans / Adapter",
            "TransactionManager + scheduler", "amaranth pysim"]
    stubs = ["cycle driver (stimulus)", "stage functions from a fixed arithmetic table (generated python functions)",
             "source function stage numbering its items with its own counter; sink function stage showing its argument",
             "bridge transaction exit -> f -> re-entry inside the harness top module",
             "harness buffer standing for an external module between exit and re-entry (adapter variant), emptied when "
             "its external clear hook is called",
             "called methods are Adapters whose result the driver computes from the predicted argument",
             "untimed reference model (entry-ordered item list, per-node pointers, clear epochs)"]
    search_space = "pipeline shapes and histories of source/sink readiness, per-stage stalls and clears"
    assumptions = ["clear (read from the code, the statement gives no timing): an item accepted by the pipeline in the cycle clear "
                   "runs is dropped, an item read by the sink in the cycle clear runs is delivered"]
    state_measure = "(items in flight, observable nodes executed this cycle, clear) per pipeline"

    # ---- generation -----------------------------------------------------------------------
    def gen_config(self, rng, tier, idx):
        nsrc = rng.randint(1, 2)
        src = ["tag"] + sorted(rng.sample(DATA[:3], nsrc))
        avail = list(src)
        known = set(src)
        nmid = rng.choice([1, 2, 2, 3, 3, 4, 4])
        nodes: list = []
        ftypes: dict = {}
        if rng.random() < 0.4:
            for f in DATA:
                if rng.random() < 0.55:
                    ftypes[f] = rand_spec(rng)
        # a node that generates a field again may give it another shape (a share of the runs)
        retyping = rng.random() < 0.3
        redefined: list = []
        cur = {f: ["u", w] for f, w in FW.items()}
        cur.update(ftypes)

        def retype(nd, fields):
            """Maybe redefine the shape of the already known fields among those node nd generates."""
            for f in fields:
                if retyping and f and f != "tag" and f in known and rng.random() < 0.6:
                    w = spec_width(cur[f])
                    cands = [["u", w * 2], ["u", max(1, w - 3)], ["u", w + 1], ["s", max(2, w)], ["s", w + 4], rand_spec(rng)]
                    new = rng.choice([x for x in cands if x != cur[f] and spec_width(x) <= 64] or [cur[f]])
                    if new != cur[f]:
                        nd.setdefault("retype", {})[f] = new
                        cur[f] = new
                        redefined.append(f)
            known.update(f for f in fields if f)

        def pick_out(allow_new=True, exclude=()):
            new = [f for f in DATA if f not in avail and f not in exclude]
            old = [f for f in avail if f != "tag" and f not in exclude]
            if new and allow_new and (not old or rng.random() < (0.25 if retyping else 0.5)):
                return rng.choice(new)
            return rng.choice(old) if old else None

        def fifo():
            return rng.choice([0, 0, 0, 1, 2, 3, 4])

        def add_fn(stall=None):
            ins = rng.sample(avail, rng.choice([0, 1, 1, 1, 2, 2]) if len(avail) > 1 else rng.choice([0, 1]))
            if redefined and rng.random() < 0.7:  # somebody should look at a field whose shape was redefined
                f = redefined.pop(0)
                if f not in ins:
                    ins = [f] + ins[:1]
            out = None if rng.random() < 0.12 else pick_out()
            nd = {"t": "fn", "ins": ins, "out": out, "op": rng.randrange(NOPS), "k": rng.randrange(256),
                  "stall": (rng.random() < 0.3) if stall is None else stall, "fifo": fifo(),
                  "style": rng.choice(["named", "named", "named_i", "arg", "kwargs"] + (["named"] * 3 if retyping else [])),
                  "nodep": bool(not ins and out and rng.random() < 0.5)}
            xouts = []
            if out and rng.random() < 0.3:
                for _ in range(rng.choice([1, 1, 2])):
                    o = pick_out(exclude=[out] + [x[0] for x in xouts])
                    if o:
                        xouts.append([o, rng.randrange(NOPS), rng.randrange(256)])
            if xouts:
                nd["xouts"] = xouts
            retype(nd, [out] + [x[0] for x in xouts])
            nodes.append(nd)
            for o in [out] + [x[0] for x in xouts]:
                if o and o not in avail:
                    avail.append(o)

        while len(nodes) < nmid:
            room = nmid - len(nodes)
            kinds = ["fn", "fn", "stallfn", "call", "call", "gen", "ext"] + (["pair", "pair", "pair"] if room >= 2 else [])
            k = rng.choice(kinds)
            if k == "fn":
                add_fn()
            elif k == "stallfn":
                add_fn(stall=True)
            elif k == "call":
                ins = rng.sample(avail, rng.choice([1, 1, 2]) if len(avail) > 1 else 1)
                outs = []
                for _ in range(rng.choice([0, 1, 1, 2])):
                    o = pick_out()
                    if o not in outs:
                        outs.append(o)
                        if o not in avail:
                            avail.append(o)
                nodes.append({"t": "call", "ins": ins, "outs": outs, "op": rng.randrange(NOPS), "k": rng.randrange(200),
                              "nodep": False, "stall": rng.random() < 0.25, "fifo": fifo()})
                retype(nodes[-1], outs)
            elif k == "gen":
                o = pick_out()
                if o not in avail:
                    avail.append(o)
                nodes.append({"t": "call", "ins": [], "outs": [o], "op": 0, "k": 0, "nodep": rng.random() < 0.7,
                              "stall": rng.random() < 0.25, "fifo": fifo()})
                retype(nodes[-1], [o])
            elif k == "ext":
                o = rng.sample(avail, rng.randint(0, min(3, len(avail))))
                i = []
                if rng.random() < 0.5:
                    i = [pick_out()]
                    if i[0] not in avail:
                        avail.append(i[0])
                nd = {"t": "ext", "o": o, "i": i, "stall": rng.random() < 0.25, "fifo": fifo()}
                if rng.random() < 0.35:  # a no_dependency node cannot observe anything: a pure value feed
                    nd["o"] = []
                    if not i:
                        nd["i"] = [pick_out()]
                        if nd["i"][0] not in avail:
                            avail.append(nd["i"][0])
                    nd["nodep"] = True
                retype(nd, nd["i"])
                nodes.append(nd)
            else:  # exit + re-entry
                via = rng.choice(["trans", "adapt"])
                xo = rng.sample(avail, rng.randint(1, len(avail)))
                nexit = len(nodes) + 1  # index in the full node list (source is node 0)
                ex = {"t": "exit", "via": via, "o": xo, "stall": rng.random() < 0.2, "fifo": fifo()}
                nodes.append(ex)
                if room >= 3 and rng.random() < 0.25:
                    add_fn()
                ys = []
                for _ in range(rng.choice([1, 1, 2])):
                    if "tag" in xo and rng.random() < 0.25:
                        y = "tag"
                    else:
                        y = pick_out()
                    if y not in ys:
                        ys.append(y)
                f = []
                for y in ys:
                    if y == "tag":
                        f.append([y, "tag", 0, 0])  # the external module hands the tag back unchanged
                    elif via == "trans":
                        f.append([y, rng.choice(xo), rng.choice([0, 1, 4]), rng.randrange(256)])
                    else:
                        f.append([y, rng.choice(xo) if rng.random() < 0.8 else None, rng.choice([0, 1, 4]), rng.randrange(256)])
                    if y not in avail:
                        avail.append(y)
                nre = len(nodes) + 1
                ex["re"] = nre
                nodes.append({"t": "re", "via": via, "exit": nexit, "i": ys, "f": f,
                              "nodep": True if via == "trans" else rng.random() < 0.5,
                              "stall": rng.random() < 0.2, "fifo": fifo()})
                retype(nodes[-1], ys)
        rest = [f for f in avail if f != "tag"]
        sink = ["tag"] + rng.sample(rest, rng.randint(0, len(rest)))
        # external clear hooks: 0-3, every external module (adapter-bridged exit) belongs to at most one of them
        exits = [n + 1 for n, nd in enumerate(nodes) if nd["t"] == "exit" and nd["via"] == "adapt"]
        nhooks = rng.choice([0, 1, 1, 2, 2, 3]) if exits else rng.choice([0, 0, 0, 1, 1, 2, 3])
        hooks: list = [[] for _ in range(nhooks)]
        for e in exits:
            if nhooks and rng.random() < 0.9:
                hooks[rng.randrange(nhooks)].append(e)
        cfg = {"src": src, "nodes": nodes, "sink": sink, "src_fifo": fifo(), "src_stall": rng.random() < 0.15,
               "sink_stall": rng.random() < 0.2, "xclr": nhooks > 0, "xhooks": hooks, "xclr_early": rng.random() < 0.3}
        # what the pipeline begins and ends with
        cfg["src_kind"] = rng.choice(["ext"] * 6 + ["call"] * 2 + ["fn"] * 2)
        cfg["snk_kind"] = rng.choice(["ext"] * 6 + ["call"] * 2 + ["fn"] * 2)
        if cfg["src_kind"] == "fn":  # the function's ready= is the driver's request bit
            cfg["src_stall"] = False
            cfg["src_fgen"] = {f: [rng.randrange(NOPS), rng.randrange(256)] for f in src if f != "tag"}
        elif rng.random() < 0.2:
            cfg["src_nodep"] = True
        if cfg["snk_kind"] == "fn":
            cfg["sink_stall"] = False
        elif cfg["snk_kind"] == "call" and rng.random() < 0.3:
            cfg["snk_xout"] = [rng.choice(DATA)]  # the called method returns something nobody uses
        if rng.random() < 0.2:
            cfg["pre_fifo"] = rng.choice([1, 2, 4])
        if rng.random() < 0.2:
            cfg["post_fifo"] = rng.choice([1, 2, 4])
        if ftypes:
            cfg["ftypes"] = ftypes
        _, unused, empty = liveness(full_nodes(cfg))
        cfg["allow_unused"] = bool(unused or rng.random() < 0.25)
        cfg["allow_empty"] = bool(empty or rng.random() < 0.25)
        cap = capacity(full_nodes(cfg))
        cfg["drain"] = 2 * cap + 2 * len(nodes) + 10
        cycles = rng.randint(100, 300) if tier == "thorough" else rng.randint(90, 220)
        if rng.random() < 0.3:  # clear while the pipeline drains: a cycles of draining, then ln cycles of clear
            cfg["late_clear"] = [rng.choice([0, 0, 1, 1, 2, 3, cap]), rng.choice([1, 1, 2, 3])]
            cycles += sum(cfg["late_clear"])
        cfg["cycles"] = cycles
        cfg["sched"] = rng.choice(["eager", "eager", "rr"])
        pr = [0.3, 0.5, 0.7, 0.9, 1.0]
        cfg["P"] = {"src": rng.choice(pr), "snk": rng.choice([0.1] + pr), "rdy": rng.choice(pr), "callee": rng.choice(pr),
                    "ext": rng.choice(pr), "exit": rng.choice(pr), "re": rng.choice(pr),
                    "clear": rng.choice([0.0, 0.01, 0.03, 0.08])}
        cfg["plan"] = make_plan(rng, cycles - cfg["drain"],
                                ["random", "random", "backpressure", "stall", "flush", "flush", "full", "drainrun"],
                                min_len=8, max_len=40)
        return cfg

    def make(self, cfg):
        return Scen(cfg)

    def features(self, cfg, viol):
        info = viol.get("info") or {}
        shape = "-".join(n["t"] + ("*" if n.get("nodep") else "") for n in cfg["nodes"])
        return {"ntype": info.get("ntype"), "shape": shape, "ends": f"{cfg.get('src_kind', 'ext')}/{cfg.get('snk_kind', 'ext')}"}

    def violation_class(self, feats):
        return {"kind": feats["kind"]}

    def cfg_signature(self, cfg):
        return [cfg["src"], cfg["nodes"], cfg["sink"], cfg["src_fifo"], cfg["src_stall"], cfg["sink_stall"], cfg["xclr"],
                cfg["allow_unused"], cfg["allow_empty"], cfg["sched"], cfg.get("xhooks"), cfg.get("xclr_early", False),
                cfg.get("src_kind", "ext"), cfg.get("snk_kind", "ext"), cfg.get("src_nodep", False),
                cfg.get("src_fgen"), cfg.get("snk_xout"), cfg.get("pre_fifo", 0), cfg.get("post_fifo", 0),
                cfg.get("ftypes"), cfg.get("late_clear")]

    def shrink_cfg(self, cfg):
        # node indices name the ports, so nodes are not removed; buffers are replaced by the default Pipe
        import copy

        if cfg["src_fifo"]:
            c = copy.deepcopy(cfg)
            c["src_fifo"] = 0
            yield c
        for i, nd in enumerate(cfg["nodes"]):
            if nd.get("fifo"):
                c = copy.deepcopy(cfg)
                c["nodes"][i]["fifo"] = 0
                yield c
        for key in ("pre_fifo", "post_fifo", "xclr_early"):
            if cfg.get(key):
                c = copy.deepcopy(cfg)
                del c[key]
                yield c
        for f in sorted(cfg.get("ftypes") or {}):  # back to the default unsigned scalar
            c = copy.deepcopy(cfg)
            del c["ftypes"][f]
            yield c
        for i, nd in enumerate(cfg["nodes"]):
            for f in sorted(nd.get("retype") or {}):  # the field keeps the shape it had
                c = copy.deepcopy(cfg)
                del c["nodes"][i]["retype"][f]
                yield c
        if cfg["sched"] != "eager":
            c = copy.deepcopy(cfg)
            c["sched"] = "eager"
            yield c


PROP = Prop()
