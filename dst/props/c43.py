"""C43 — testbench helpers call methods exactly once.

System under test: the library's coroutine layer — `TestbenchIO.call` / `call_try`, `CallTrigger`
(`.call().sample()`, `.until_done()`), `MethodMock` / `def_method_mock` — wired the way the library's
own tests wire it (`SimpleTestCircuit` creates the `TestbenchIO`s; a mock = `output_process` added as a
process + `effect_process` added as a background testbench).

Design under test (a stub, below): 1-3 provided methods `calls[k]` (ready = free input `rdy<k>`) which all
call one shared inner method `core` (ready = `rdy_core ^ gl[0]`), so the callers also compete in the
Transactron scheduler.  `core` increments a hardware execution counter `gcnt` and returns
(gcnt, x ^ 0x5A ^ gcnt[7:0]); `calls[k]` increments its own hardware counter `cnt<k>`.  1-2 transactions
`T<j>` (request = `treq<j> ^ gl[6]`) call a required method `tgt<j>` (argument `targ<j> ^ gl ^ cyc[1:0]<<3`) that is
mocked; in the same cycle `T<j>` stores the returned value and the argument in registers and counts
itself in hardware (`tcnt<j>`).

Who does what: the kernel's cycle driver stays the environment (readiness, request and argument inputs
from the recorded stimulus, applied in pre_observe() so that an exception escaping from a mock process
during a set() is classified as the library's) and samples the *registers* at the start of every cycle — executions of
cycle t are the counter differences between t and t+1, so the truth does not depend on when inside a
cycle a coroutine or a mock acted.  The callers, the mocks and (optionally) a glitcher that changes `gl`
between clock edges are extra coroutines; their registration order, scripts, mock delays and enable
patterns are part of the configuration.  What the coroutines saw is collected in lists, folded into a
rolling hash that the driver publishes through a mailbox signal (observation `py`, hence part of the
run digest), and compared with the hardware log in check() (bounds) and finish() (exact).
"""

from __future__ import annotations

from ..comp import CompScenario
from ..kernel import Violation, h64
from ..propbase import PropBase, make_plan, phase_at

K_ECHO = 0x5A
_STUB = None


def _stub_class():
    global _STUB
    if _STUB is not None:
        return _STUB
    from amaranth import Elaboratable, Signal
    from transactron import TModule, Method, Transaction, def_method
    from transactron.core.method import Required

    class Stub(Elaboratable):
        def __init__(self, ncallers, nmocks):
            self.nc, self.nm = ncallers, nmocks
            self.calls = [Method(name=f"call{k}", i=[("x", 8)], o=[("cnt", 16), ("echo", 8), ("mine", 16)])
                          for k in range(ncallers)]
            self.tgt = [Method(name=f"tgt{j}", i=[("a", 8)], o=[("v", 12)]) for j in range(nmocks)]
            self.rdy_core = Signal()
            self.rdy = [Signal(name=f"rdy{k}") for k in range(ncallers)]
            self.treq = [Signal(name=f"treq{j}") for j in range(nmocks)]
            self.targ = [Signal(8, name=f"targ{j}") for j in range(nmocks)]
            self.gl = Signal(8)  # owned by the glitcher coroutine: changes between clock edges
            self.mb = Signal(32)  # mailbox: the driver publishes the hash of the coroutines' observations
            self.cyc = Signal(16)
            self.gcnt = Signal(16)
            self.cnt = [Signal(16, name=f"cnt{k}") for k in range(ncallers)]
            self.tcnt = [Signal(16, name=f"tcnt{j}") for j in range(nmocks)]
            self.cap = [Signal(12, name=f"cap{j}") for j in range(nmocks)]
            self.capa = [Signal(8, name=f"capa{j}") for j in range(nmocks)]

        def elaborate(self, platform):
            m = TModule()
            mbq = Signal(32)
            m.d.sync += [self.cyc.eq(self.cyc + 1), mbq.eq(self.mb)]
            core = Method(name="core", i=[("x", 8)], o=[("cnt", 16), ("echo", 8)])

            @def_method(m, core, ready=self.rdy_core ^ self.gl[0])
            def _(x):
                m.d.sync += self.gcnt.eq(self.gcnt + 1)
                return {"cnt": self.gcnt, "echo": x ^ K_ECHO ^ self.gcnt[:8]}

            def outer(k):
                @def_method(m, self.calls[k], ready=self.rdy[k])
                def _(x):
                    m.d.sync += self.cnt[k].eq(self.cnt[k] + 1)
                    r = core(m, x=x)
                    return {"cnt": r.cnt, "echo": r.echo, "mine": self.cnt[k]}

            for k in range(self.nc):
                outer(k)

            for j in range(self.nm):
                with Transaction(name=f"T{j}").body(m, ready=self.treq[j] ^ self.gl[6]):
                    a = Signal(8, name=f"arg{j}")
                    m.d.av_comb += a.eq(self.targ[j] ^ self.gl ^ (self.cyc[:2] << 3))  # also changes at the clock edge
                    r = self.tgt[j](m, a=a)
                    m.d.sync += [self.cap[j].eq(r.v), self.capa[j].eq(a), self.tcnt[j].eq(self.tcnt[j] + 1)]
            return m

    Stub.__annotations__ = {"tgt": Required[list[Method]]}  # -> SimpleTestCircuit uses Adapter for tgt
    _STUB = Stub
    return Stub


def mock_value(j, a, n):
    return (a * 5 + n * 3 + j + 1) & 0xFFF


class Scen(CompScenario):
    def build(self):
        from transactron.testing import SimpleTestCircuit

        c = self.cfg
        self.nc, self.nm = len(c["callers"]), len(c["mocks"])
        self.stub = _stub_class()(self.nc, self.nm)
        self.stc = SimpleTestCircuit(self.stub)
        self.top.add("stc", self.stc)
        s = self.stub
        # The environment inputs are applied by pre_observe() (called by the cycle driver right where it would
        # apply them itself): a ctx.set() runs the library's mock processes, and an exception escaping from
        # them has to be classified (lib_error) instead of surfacing as an error of the driver.
        self.drive = {"rdy_core": s.rdy_core}
        for k in range(self.nc):
            self.drive[f"rdy{k}"] = s.rdy[k]
        for j in range(self.nm):
            self.drive[f"treq{j}"] = s.treq[j]
            self.drive[f"targ{j}"] = s.targ[j]
        self.driven: dict = {}
        self.add_obs("cyc", s.cyc)
        self.add_obs("gcnt", s.gcnt)
        for k in range(self.nc):
            self.add_obs(f"cnt{k}", s.cnt[k])
        for j in range(self.nm):
            self.add_obs(f"tcnt{j}", s.tcnt[j])
            self.add_obs(f"cap{j}", s.cap[j])
            self.add_obs(f"capa{j}", s.capa[j])
        self.add_obs("py", s.mb)
        # python-side observations
        self.pyhash = 0
        self.errors: list = []
        self.rets = [[] for _ in range(self.nc)]  # (idx, kind, x, c0, c1, result or None, sampled)
        self.inflight = [None] * self.nc
        self.nret = [0] * self.nc  # successful returns
        self.mst = [{"n": 0, "inv": 0, "encalls": 0, "log": []} for _ in range(self.nm)]
        self.hw: list = []
        self.stimlog: list = []
        self._ctx = None
        self.held = [0] * self.nm
        return self.top

    def pynote(self, rec):
        self.pyhash = h64(self.pyhash, rec)

    # ---- the coroutines ---------------------------------------------------------------------
    def post_elab(self, tm):
        super().post_elab(tm)
        from transactron.testing.method_mock import MethodMock, def_method_mock

        c = self.cfg
        tbs = self.stc.calls
        units = {}
        for k in range(self.nc):
            units[f"c{k}"] = [("background", self.make_caller(k, tbs[k], c["callers"][k]))]
        for j in range(self.nm):
            mm = self.make_mock(j, c["mocks"][j], MethodMock, def_method_mock)
            units[f"m{j}"] = [("process", mm.output_process), ("background", mm.effect_process)]
        if c.get("glitch"):
            units["g"] = [("background", self.make_glitcher(c["glitch"]))]
        order = [u for u in c["order"] if u in units] + sorted(u for u in units if u not in c["order"])
        self.extra_processes = [p for u in order for p in units[u]]

    def make_mock(self, j, mc, MethodMock, def_method_mock):
        st = self.mst[j]
        pattern = mc["enable"]

        def enable():
            i = st["encalls"]
            st["encalls"] += 1
            return bool(pattern[i % len(pattern)])

        def fn(a):
            st["inv"] += 1
            n = st["n"]
            v = mock_value(j, a, n)

            @MethodMock.effect
            def _():
                st["n"] += 1
                st["log"].append((a, v, n))
                self.pynote(("eff", j, a, v, n))

            return {"v": v}

        delay = mc["delay_ns"] * 1e-9
        if mc.get("direct"):
            return MethodMock(self.stc.tgt[j].adapter, fn, enable=enable, delay=delay)
        return def_method_mock(lambda: self.stc.tgt[j], enable=enable, delay=delay)(fn)()

    def make_caller(self, k, tb, script):
        from transactron.testing import CallTrigger
        from transactron.testing.simulator import tick

        s = self.stub

        def unpack(r):
            return None if r is None else (r.cnt, r.echo, r.mine)

        async def caller(ctx):
            try:
                for idx, op in enumerate(script):
                    kind, x = op[0], op[1]
                    if kind == "gap":
                        await tick(ctx, x)
                        continue
                    c0 = ctx.get(s.cyc)
                    self.inflight[k] = (idx, kind, x, c0)
                    sampled = None
                    if kind == "call":
                        r = unpack(await tb.call(ctx, x=x))
                    elif kind == "try":
                        r = unpack(await tb.call_try(ctx, {"x": x}))
                    elif kind == "trig":
                        if op[2]:
                            scyc, r, sg = await CallTrigger(ctx).sample(s.cyc).call(tb, x=x).sample(s.gcnt)
                        else:
                            r, scyc, sg = await CallTrigger(ctx).call(tb, {"x": x}).sample(s.cyc, s.gcnt)
                        r, sampled = unpack(r), (scyc, sg)
                    elif kind == "trigu":
                        (r,) = await CallTrigger(ctx).call(tb, x=x).until_done()
                        r = unpack(r)
                    else:  # trigus: until_done() on a trigger that also samples a plain value
                        r, scyc = await CallTrigger(ctx).call(tb, x=x).sample(s.cyc).until_done()
                        r, sampled = unpack(r), (scyc, None)
                    c1 = ctx.get(s.cyc)
                    self.inflight[k] = None
                    if r is not None:
                        self.nret[k] += 1
                    rec = (idx, kind, x, c0, c1, r, sampled)
                    self.rets[k].append(rec)
                    self.pynote(("ret", k) + rec)
            except BaseException as e:  # re-raised by the driver (check / finish)
                self.errors.append(e)

        return caller

    def make_glitcher(self, g):
        s = self.stub
        pat, d = g["pattern"], g["delay_ns"] * 1e-9

        async def glitcher(ctx):
            try:
                i = 0
                while True:
                    await ctx.delay(d)
                    ctx.set(s.gl, pat[i % len(pat)])
                    i += 1
                    await ctx.tick()
            except BaseException as e:
                self.errors.append(e)

        return glitcher

    # ---- stimulus (the environment) ---------------------------------------------------------
    def stimulus(self, rng, cyc):
        kind, p = phase_at(self.cfg["plan"], cyc)
        stim = {}
        if kind == "open":
            pc = po = pt = 1.0
        elif kind == "blocked":
            pc, po, pt = 0.0, 0.8, p
        elif kind == "flap":
            pc, po, pt = float(cyc & 1), 1.0, float((cyc >> 1) & 1)
        elif kind == "outer":
            pc, po, pt = 1.0, p, 0.5
        else:
            pc = po = pt = p
        stim["rdy_core"] = int(rng.random() < pc)
        for k in range(self.nc):
            stim[f"rdy{k}"] = int(rng.random() < po)
        for j in range(self.nm):
            stim[f"treq{j}"] = int(rng.random() < pt)
            if rng.random() < 0.7:
                self.held[j] = rng.getrandbits(8)
            stim[f"targ{j}"] = self.held[j]
        return stim

    # ---- oracle -----------------------------------------------------------------------------
    def raise_errors(self):
        if self.errors:
            lib_error(self.errors[0])

    def pre_observe(self, ctx, cyc, stim):
        self._ctx = ctx
        try:
            for name, sig in self.drive.items():
                v = stim.get(name, 0)
                if self.driven.get(name) != v:
                    ctx.set(sig, v)
                    self.driven[name] = v
            ctx.set(self.stub.mb, self.pyhash & 0xFFFFFFFF)
        except Exception as e:
            lib_error(e)

    def check(self, cyc, stim, obs):
        self.raise_errors()
        if obs["cyc"] != cyc & 0xFFFF:
            raise RuntimeError(f"cycle counter {obs['cyc']} != driver cycle {cyc}")
        self.hw.append(obs)
        self.stimlog.append(stim)
        # bounds that hold whatever the order inside a cycle is; the exact comparison is in finish()
        for k in range(self.nc):
            got, ex = self.nret[k], obs[f"cnt{k}"]
            self.expect(got <= ex <= got + 1, "returns-vs-executions",
                        f"caller {k}: {got} successful returns but the method body ran {ex} times "
                        f"(at most one call can be in flight)", who=f"c{k}")
        for j in range(self.nm):
            n, ex = self.mst[j]["n"], obs[f"tcnt{j}"]
            prev = self.hw[-2][f"tcnt{j}"] if cyc else 0
            self.expect(n <= ex, "mock-effects-ahead",
                        f"mock {j}: effects applied {n} times, the calling transaction ran {ex} times", who=f"m{j}")
            self.expect(n >= prev, "mock-effects-behind",
                        f"mock {j}: effects applied {n} times, the calling transaction had run {prev} times "
                        f"a cycle ago", who=f"m{j}")
        if cyc:
            p = self.hw[-2]
            ex = tuple(obs[f"cnt{k}"] - p[f"cnt{k}"] for k in range(self.nc))
            tx = tuple(obs[f"tcnt{j}"] - p[f"tcnt{j}"] for j in range(self.nm))
            fl = tuple(None if f is None else f[1] for f in self.inflight)
            self.visit((ex, tx, fl), nontrivial=any(ex) or any(tx))

    def finish(self):
        self.raise_errors()
        if self._ctx is None:
            return
        s, ctx = self.stub, self._ctx
        last = {"cyc": ctx.get(s.cyc), "gcnt": ctx.get(s.gcnt)}
        for k in range(self.nc):
            last[f"cnt{k}"] = ctx.get(s.cnt[k])
        for j in range(self.nm):
            last[f"tcnt{j}"] = ctx.get(s.tcnt[j])
            last[f"cap{j}"] = ctx.get(s.cap[j])
            last[f"capa{j}"] = ctx.get(s.capa[j])
        hw = self.hw + [last]
        T = len(self.hw)
        stimlog = self.stimlog
        intervals = [[None] * T for _ in range(self.nc)]

        for k in range(self.nc):
            who = f"c{k}"
            ex = [hw[t + 1][f"cnt{k}"] - hw[t][f"cnt{k}"] for t in range(T)]
            recs = list(self.rets[k])
            prev = None
            for (idx, kind, x, c0, c1, r, sampled) in recs:
                what = f"caller {k} op {idx} {kind}(x={x}) issued in cycle {c0}, returned in cycle {c1}"
                if not 0 <= c0 <= c1 <= T:
                    raise RuntimeError(f"{what}: malformed interval (T={T})")
                for t in range(c0, c1):
                    intervals[k][t] = idx
                # the executing cycle of the call is the cycle of [c0, c1) in which the method body ran: exactly one
                # for a result, none for None (when within the interval it runs is not stated)
                execs = [t for t in range(c0, c1) if ex[t]]
                if c1 == c0:
                    self.hit("helper_returned_in_the_cycle_it_was_issued")
                if r is None:
                    self.expect(kind in ("try", "trig", "trigus"), "blocking-call-returned-none", what, who=who, op=kind)
                    self.expect(not execs, "none-but-executed",
                                f"{what}: result None although the method body ran in cycle(s) {execs}", who=who, op=kind)
                    self.hit(f"{kind}_none")
                else:
                    self.expect(len(execs) >= 1, "returned-without-execution",
                                f"{what}: result {r} but the method body did not run in any cycle of [{c0}, {c1})",
                                who=who, op=kind)
                    self.expect(len(execs) == 1, "call-extra-execution",
                                f"{what}: the method body ran in cycles {execs}: more than one call", who=who, op=kind)
                    te = execs[0]
                    if te != c1 - 1:
                        self.hit("executed_before_last_cycle_of_the_call")
                    g = hw[te]["gcnt"]
                    want = (g, (x ^ K_ECHO ^ g) & 0xFF, hw[te][f"cnt{k}"])
                    self.expect(r == want, "result-data-mismatch",
                                f"{what}: result {r}, the executing cycle {te} produced {want}", who=who, op=kind)
                    if kind in ("call", "trigu"):
                        self.hit(f"{kind}_immediate" if c1 == c0 + 1 else f"{kind}_waited")
                    else:
                        self.hit(f"{kind}_done")
                    if prev is not None and prev[4] == c0 and prev[5] is not None and c1 == c0 + 1:
                        self.hit("back_to_back_executions")
                if sampled is not None:
                    scyc, sg = sampled
                    # which cycle CallTrigger.sample() samples is not part of the statement: only counted
                    if c1 == 0 or not (scyc == (c1 - 1) & 0xFFFF and (sg is None or sg == hw[c1 - 1]["gcnt"])):
                        self.hit("trigger_sample_not_from_last_cycle_of_the_call")
                prev = (idx, kind, x, c0, c1, r)
            fl = self.inflight[k]
            unreported = 0
            if fl is not None:
                idx, kind, x, c0 = fl
                self.hit("in_flight_at_end")
                for t in range(c0, T):
                    intervals[k][t] = idx
                # an execution in the last simulated cycle may simply not have been reported yet
                ran = [t for t in range(c0, T - 1) if ex[t]]
                self.expect(not ran, "executed-but-never-returned",
                            f"caller {k} op {idx} {kind}(x={x}) issued in cycle {c0} has not returned by cycle {T}, "
                            f"yet the method body ran in cycle(s) {ran}", who=who, op=kind)
                if T and T - 1 >= c0 and ex[T - 1]:
                    self.hit("executed_in_last_cycle_not_yet_returned")
                    unreported = 1
            stray = [t for t in range(T) if ex[t] and intervals[k][t] is None]
            self.expect(not stray, "execution-outside-any-call",
                        f"caller {k}: the method body ran in cycle(s) {stray[:6]} while no call of this caller was "
                        f"pending (enable left asserted)", who=who)
            self.expect(self.nret[k] == hw[T][f"cnt{k}"] - unreported, "returns-differ-from-executions",
                        f"caller {k}: {self.nret[k]} successful returns, {hw[T][f'cnt{k}']} executions"
                        + (" (one of them in the last cycle, call still pending)" if unreported else ""), who=who)
        for t in range(T):
            pend = [k for k in range(self.nc) if intervals[k][t] is not None]
            if len(pend) >= 2:
                nex = sum(hw[t + 1][f"cnt{k}"] - hw[t][f"cnt{k}"] for k in pend)
                if nex == 1:
                    self.hit("contended_cycle_one_winner")
                elif nex == 0:
                    self.hit("contended_cycle_blocked")

        for j in range(self.nm):
            who = f"m{j}"
            st = self.mst[j]
            tx = [hw[t + 1][f"tcnt{j}"] - hw[t][f"tcnt{j}"] for t in range(T)]
            runs = [t for t in range(T) if tx[t]]
            log = st["log"]
            nexec = hw[T][f"tcnt{j}"]
            pending_last = 1 if (T and tx[T - 1]) else 0
            self.expect(nexec - pending_last <= len(log) <= nexec, "mock-effects-count",
                        f"mock {j}: effects applied {len(log)} times, calling transaction ran {nexec} times", who=who)
            for i, t in enumerate(runs[:len(log)]):
                a, v, n = log[i]
                cap, capa = hw[t + 1][f"cap{j}"], hw[t + 1][f"capa{j}"]
                self.expect((cap, capa) == (v, a), "mock-value-not-captured",
                            f"mock {j}: execution #{i} in cycle {t}: the effect belongs to the invocation with "
                            f"argument {a} returning {v}; the transaction captured argument {capa}, value {cap}",
                            who=who)
                if n != i:
                    self.hit("mock_function_saw_unapplied_effects")
            self.hit("mock_exec", len(runs))
            if st["inv"] > len(log):
                self.hit("mock_function_reevaluated", st["inv"] - len(log))
            if self.cfg["mocks"][j]["delay_ns"]:
                self.hit("mock_exec_with_delay", len(runs))
            for t in range(T):
                if not tx[t] and stimlog[t].get(f"treq{j}") and not self.cfg.get("glitch"):
                    self.hit("mock_disabled_blocked_request")
        if self.cfg.get("glitch"):
            self.hit("glitch_run")
        self.notes["returns"] = list(self.nret)
        self.notes["effects"] = [st["n"] for st in self.mst]

    def on_sim_error(self, e):
        lib_error(e)


def lib_error(e):
    """An exception that escaped from library code (helpers / mock processes) is a verdict about the
    library; anything raised by harness code stays a harness error."""
    if isinstance(e, Violation):
        raise e
    tb = e.__traceback__
    inner = None
    while tb is not None:
        inner = tb.tb_frame.f_code.co_filename
        tb = tb.tb_next
    if inner and "/transactron/" in inner.replace("\\", "/"):
        raise Violation("helper-raised", f"{type(e).__name__} in {inner.rsplit('/', 1)[-1]}: {str(e)[:200]}",
                        exc=type(e).__name__)
    raise e


def _gen_script(rng, cycles):
    n = rng.choice([2, 5, 10, 20, 40, 80])
    s = []
    if rng.random() < 0.5:
        s.append(["gap", rng.randint(1, 3)])
    w = [rng.random() + 0.2, rng.random(), rng.random() * 0.6, rng.random() * 0.4, rng.random() * 0.2,
         rng.random() * 0.8]
    for _ in range(n):
        kind = rng.choices(["call", "try", "trig", "trigu", "trigus", "gap"], weights=w)[0]
        if kind == "gap":
            s.append(["gap", rng.randint(1, 4)])
        elif kind == "trig":
            s.append(["trig", rng.getrandbits(8), rng.randrange(2)])
        else:
            s.append([kind, rng.getrandbits(8)])
    return s


class Prop(PropBase):
    ID = "C43"
    tiers = {
        "quick": {"runs": 1200, "selftest_runs": 4},
        "thorough": {"runs": 40000, "selftest_runs": 32},
    }
    rule = ("one run = stub circuit with 1-3 callers (each a background testbench with its own script of call / "
            "call_try / CallTrigger.call+sample / CallTrigger.until_done (with and without a sampled value) / idle gaps on its own TestbenchIO), 1-2 "
            "mocked methods (def_method_mock or MethodMock; delay 0..600 ns, enable() pattern) called by hardware "
            "transactions, optionally a glitcher changing inputs between clock edges; registration order of all "
            "coroutines, scheduler and the per-cycle readiness / request / argument inputs are drawn from the seed; "
            "60-180 cycles.  distinct = distinct (which callers executed, which mocked calls executed, kind of each "
            "caller's pending operation) per cycle; non-trivial = something executed")
    expected_cov = ["call_immediate", "call_waited", "try_done", "try_none", "trig_done", "trig_none", "trigu_waited",
                    "trigu_immediate", "trigus_done", "trigus_none", "back_to_back_executions", "contended_cycle_one_winner", "contended_cycle_blocked",
                    "in_flight_at_end", "mock_exec", "mock_exec_with_delay", "mock_function_reevaluated",
                    "mock_disabled_blocked_request", "glitch_run"]
    real = ["transactron.testing.testbenchio.TestbenchIO (call, call_try)", "transactron.testing.testbenchio.CallTrigger",
            "transactron.testing.method_mock.MethodMock / def_method_mock (output_process, effect_process)",
            "transactron.testing.test_circuit.SimpleTestCircuit", "transactron.testing.simulator.tick",
            "transactron.lib.adapters.AdapterTrans / Adapter", "TransactionManager + scheduler", "amaranth pysim"]
    stubs = ["stub circuit with hardware execution counters and capture registers", "cycle driver (environment inputs)",
             "caller scripts, mock functions with python-side effect counters, glitcher"]
    search_space = ("coroutine registration orders, mock delays and enable patterns, readiness histories (also changing "
                    "between clock edges), caller scripts")
    state_measure = "(callers that executed, mocked calls that executed, pending operation kind per caller) per cycle"
    assumptions = ["mock delay stays below one clock period (a longer delay makes effect_process skip clock edges)",
                   "one caller coroutine per TestbenchIO (two coroutines driving one adapter is not a supported use)"]

    def gen_config(self, rng, tier, idx):
        cycles = rng.randint(60, 180)
        nc = rng.choice([1, 2, 2, 3])
        nm = rng.choice([1, 1, 2])
        callers = [_gen_script(rng, cycles) for _ in range(nc)]
        mocks = []
        for j in range(nm):
            style = rng.random()
            ln = rng.randint(1, 24)
            if style < 0.25:
                pat = [1] * ln
            else:
                q = rng.choice([0.2, 0.5, 0.8])
                pat = [int(rng.random() < q) for _ in range(ln)]
                if not any(pat):
                    pat[rng.randrange(ln)] = 1
            mocks.append({"delay_ns": rng.choice([0, 0, 0, 1, 100, 250, 400, 600]), "enable": pat,
                          "direct": int(rng.random() < 0.3)})
        glitch = None
        if rng.random() < 0.4:
            glitch = {"delay_ns": rng.choice([0, 1, 50, 200, 300, 500, 700]),
                      "pattern": [rng.choice([0, 0, 1, 0x40, 0x41, rng.getrandbits(8)]) for _ in range(rng.randint(2, 16))]}
        units = [f"c{k}" for k in range(nc)] + [f"m{j}" for j in range(nm)] + (["g"] if glitch else [])
        rng.shuffle(units)
        return {"callers": callers, "mocks": mocks, "glitch": glitch, "order": units, "cycles": cycles,
                "sched": rng.choice(["eager", "eager", "rr"]),
                "plan": make_plan(rng, cycles, ["random", "random", "open", "blocked", "flap", "outer"], 4, 30)}

    def make(self, cfg):
        return Scen(cfg)

    def features(self, cfg, viol):
        info = viol.get("info") or {}
        who = info.get("who") or ""
        return {"part": "mock" if who.startswith("m") else "caller" if who.startswith("c") else None}

    def cfg_signature(self, cfg):
        return [len(cfg["callers"]), [[m["delay_ns"] > 0, m["direct"]] for m in cfg["mocks"]], bool(cfg["glitch"]),
                cfg["sched"], cfg["order"]]

    def shrink_cfg(self, cfg):
        if cfg.get("glitch"):
            c = dict(cfg)
            c["glitch"] = None
            yield c
        if len(cfg["mocks"]) > 1:
            c = dict(cfg)
            c["mocks"] = cfg["mocks"][:1]
            yield c
        if len(cfg["callers"]) > 1:
            for drop in range(len(cfg["callers"])):
                c = dict(cfg)
                keep = [k for k in range(len(cfg["callers"])) if k != drop]
                if drop != len(cfg["callers"]) - 1:
                    continue  # input names are positional: only the last caller can go
                c["callers"] = [cfg["callers"][k] for k in keep]
                yield c
        for k, s in enumerate(cfg["callers"]):
            if len(s) > 1:
                for cut in (s[: len(s) // 2], s[:-1]):
                    c = dict(cfg)
                    c["callers"] = [cut if i == k else x for i, x in enumerate(cfg["callers"])]
                    yield c
        for j, m in enumerate(cfg["mocks"]):
            if m["delay_ns"]:
                c = dict(cfg)
                c["mocks"] = [dict(x, delay_ns=0) if i == j else x for i, x in enumerate(cfg["mocks"])]
                yield c


PROP = Prop()
