"""C43 — testbench helpers call methods exactly once.

System under test: the library's coroutine layer — `TestbenchIO.call` / `call_try`, `CallTrigger`
(`.call().sample()`, `.until_done()`), `MethodMock` / `def_method_mock` — wired the way the library's
own tests wire it (`SimpleTestCircuit` creates the `TestbenchIO`s; a mock = `output_process` added as a
process + `effect_process` added as a background testbench).

Design under test (a stub, below): 1-3 provided methods `calls[k]` (ready = free input `rdy<k>`) which all
call one shared inner method `core` (ready = `rdy_core ^ gl[0]`), so the callers also compete in the
Transactron scheduler.  `core` increments a hardware execution counter `gcnt` and returns
(gcnt, x ^ 0x5A ^ gcnt[7:0]); `calls[k]` increments its own hardware counter `cnt<k>`.  1-2 transactions
`T<j>` (request = `treq<j> ^ gl[6]`) call a required method `tgt<j>` (argument `targ<j> ^ gl ^ cyc[1:0]<<3`) that is
mocked; in the same cycle `T<j>` stores the returned value and the argument in registers and counts
itself in hardware (`tcnt<j>`); optionally one transaction calls both mocked methods.  0-2 chain methods
`chain[c]` (ready = `hrdy<c>`) forward their argument (x ^ 0x33 ^ gl) to a mocked method `htgt[c]` (optionally also
the complemented argument to a second one, `htgt2[c]`) and return the mock's value (xor a constant) to the
testbench caller in the same cycle, capturing argument and value in registers.  Optionally a caller's method has
no inputs (called without data) and a caller owns a second method `aux[k]` so that one CallTrigger holds two calls.

Mock variants (per mock): 0-3 `MethodMock.effect` blocks per invocation (each with its own log), built by
`def_method_mock` on a function, `MethodMock(...)` directly or the class-level form bound to an instance,
named-parameter or single-`arg` style, with or without `enable`, with or without `validate_arguments` (rejects
a & mask == pattern), a mocked method without outputs whose mock returns None.

Who does what: the kernel's cycle driver stays the environment (readiness, request and argument inputs
from the recorded stimulus, applied in pre_observe() so that an exception escaping from a mock process
during a set() is classified as the library's) and samples the *registers* at the start of every cycle — executions of
cycle t are the counter differences between t and t+1, so the truth does not depend on when inside a
cycle a coroutine or a mock acted.  The callers, the mocks and (optionally) a glitcher that changes `gl`
between clock edges are extra coroutines; their registration order, scripts, mock delays and enable
patterns are part of the configuration.  What the coroutines saw is collected in lists, folded into a
rolling hash that the driver publishes through a mailbox signal (observation `py`, hence part of the
run digest), and compared with the hardware log in check() (bounds) and finish() (exact).
"""

from __future__ import annotations

from ..comp import CompScenario
from ..kernel import Violation, h64
from ..propbase import PropBase, make_plan, phase_at

K_ECHO = 0x5A
K_AUX = 0xA7
K_CH = 0x33
K_V = 0x5A5
K_W = 0x3C3
_STUB = None


def _stub_class():
    global _STUB
    if _STUB is not None:
        return _STUB
    from amaranth import Elaboratable, Signal
    from transactron import TModule, Method, Transaction, def_method
    from transactron.core.method import Required

    class Stub(Elaboratable):
        def __init__(self, ncallers, nmocks, noarg=(), aux=(), sink=(), tpair=False, chains=(), early=(),
                     hearly=(), steady=()):
            self.nc, self.nm = ncallers, nmocks
            self.noarg = [bool(noarg[k]) if k < len(noarg) else False for k in range(ncallers)]
            self.sink = [bool(sink[j]) if j < len(sink) else False for j in range(nmocks)]
            self.tpair = bool(tpair) and nmocks == 2
            self.steady = [bool(steady[j]) if j < len(steady) else False for j in range(nmocks)]
            self.nchmocks = list(chains)  # number of mocked methods (1 or 2) each chain method calls
            self.calls = [Method(name=f"call{k}", i=[] if self.noarg[k] else [("x", 8)],
                                 o=[("cnt", 16), ("echo", 8), ("mine", 16)]) for k in range(ncallers)]
            # a second provided method of caller k (CallTrigger holding two calls); SimpleTestCircuit sees the list
            self.aux_k = tuple(k for k in range(ncallers) if k < len(aux) and aux[k])
            self.aux = [Method(name=f"aux{k}", i=[("x", 8)], o=[("mine", 16), ("echo", 8)]) for k in self.aux_k]
            self.t_aux = tuple(self.aux)  # (tuples are not scanned by SimpleTestCircuit)
            # chain c: provided method chain[c] -> mocked htgt (and htgt2) -> result back to the caller
            self.chain = [Method(name=f"chain{c}", i=[("x", 8)], o=[("v", 12), ("w", 12), ("mine", 16)])
                          for c in range(len(self.nchmocks))]
            # all mocked methods ...
            self.t_tgt = tuple(Method(name=f"tgt{j}", i=[("a", 8)], o=[] if self.sink[j] else [("v", 12)])
                               for j in range(nmocks))
            self.t_htgt = tuple(Method(name=f"htgt{c}", i=[("a", 8)], o=[("v", 12)])
                                for c in range(len(self.nchmocks)))
            self.t_htgt2 = tuple(Method(name=f"htgtb{c}", i=[("a", 8)], o=[("v", 12)]) if self.nchmocks[c] > 1 else None
                                 for c in range(len(self.nchmocks)))
            # ... those SimpleTestCircuit makes the adapters of (in its elaborate), and those the harness gives an
            # Adapter before elaboration (attributes excluded from SimpleTestCircuit)
            ea = [bool(early[j]) if j < len(early) else False for j in range(nmocks)]
            he = [list(hearly[c]) + [0, 0] if c < len(hearly) else [0, 0] for c in range(len(self.nchmocks))]
            self.tgt = [mt for j, mt in enumerate(self.t_tgt) if not ea[j]]
            self.tgt_e = [mt for j, mt in enumerate(self.t_tgt) if ea[j]]
            self.htgt = [mt for c, mt in enumerate(self.t_htgt) if not he[c][0]]
            self.htgt_e = [mt for c, mt in enumerate(self.t_htgt) if he[c][0]]
            self.htgt2 = [mt for c, mt in enumerate(self.t_htgt2) if mt is not None and not he[c][1]]
            self.htgt2_e = [mt for c, mt in enumerate(self.t_htgt2) if mt is not None and he[c][1]]
            self.rdy_core = Signal()
            self.rdy = [Signal(name=f"rdy{k}") for k in range(ncallers)]
            self.ardy = {k: Signal(name=f"ardy{k}") for k in self.aux_k}
            self.hrdy = [Signal(name=f"hrdy{c}") for c in range(len(self.nchmocks))]
            self.treq = [Signal(name=f"treq{j}") for j in range(nmocks)]
            self.targ = [Signal(8, name=f"targ{j}") for j in range(nmocks)]
            self.gl = Signal(8)  # owned by the glitcher coroutine: changes between clock edges
            self.mb = Signal(32)  # mailbox: the driver publishes the hash of the coroutines' observations
            self.cyc = Signal(16)
            self.gcnt = Signal(16)
            self.cnt = [Signal(16, name=f"cnt{k}") for k in range(ncallers)]
            self.acnt = {k: Signal(16, name=f"acnt{k}") for k in self.aux_k}
            self.hcnt = [Signal(16, name=f"hcnt{c}") for c in range(len(self.nchmocks))]
            self.hcap = [Signal(12, name=f"hcap{c}") for c in range(len(self.nchmocks))]
            self.hcapb = [Signal(12, name=f"hcapb{c}") for c in range(len(self.nchmocks))]
            self.hcapa = [Signal(8, name=f"hcapa{c}") for c in range(len(self.nchmocks))]
            self.tcnt = [Signal(16, name=f"tcnt{j}") for j in range(nmocks)]
            self.cap = [Signal(12, name=f"cap{j}") for j in range(nmocks)]
            self.capa = [Signal(8, name=f"capa{j}") for j in range(nmocks)]

        def elaborate(self, platform):
            m = TModule()
            mbq = Signal(32)
            m.d.sync += [self.cyc.eq(self.cyc + 1), mbq.eq(self.mb)]
            core = Method(name="core", i=[("x", 8)], o=[("cnt", 16), ("echo", 8)])

            @def_method(m, core, ready=self.rdy_core ^ self.gl[0])
            def _(x):
                m.d.sync += self.gcnt.eq(self.gcnt + 1)
                return {"cnt": self.gcnt, "echo": x ^ K_ECHO ^ self.gcnt[:8]}

            def outer(k):
                if self.noarg[k]:
                    @def_method(m, self.calls[k], ready=self.rdy[k])
                    def _():
                        m.d.sync += self.cnt[k].eq(self.cnt[k] + 1)
                        r = core(m, x=noarg_x(k))
                        return {"cnt": r.cnt, "echo": r.echo, "mine": self.cnt[k]}
                else:
                    @def_method(m, self.calls[k], ready=self.rdy[k])
                    def _(x):
                        m.d.sync += self.cnt[k].eq(self.cnt[k] + 1)
                        r = core(m, x=x)
                        return {"cnt": r.cnt, "echo": r.echo, "mine": self.cnt[k]}

            for k in range(self.nc):
                outer(k)

            def auxm(i, k):
                @def_method(m, self.t_aux[i], ready=self.ardy[k])
                def _(x):
                    m.d.sync += self.acnt[k].eq(self.acnt[k] + 1)
                    return {"mine": self.acnt[k], "echo": x ^ K_AUX}

            for i, k in enumerate(self.aux_k):
                auxm(i, k)

            def chainm(c):
                @def_method(m, self.chain[c], ready=self.hrdy[c])
                def _(x):
                    a = Signal(8, name=f"harg{c}")
                    m.d.av_comb += a.eq(x ^ K_CH ^ self.gl)
                    r = self.t_htgt[c](m, a=a)
                    w = 0
                    m.d.sync += [self.hcnt[c].eq(self.hcnt[c] + 1), self.hcap[c].eq(r.v), self.hcapa[c].eq(a)]
                    if self.t_htgt2[c] is not None:
                        r2 = self.t_htgt2[c](m, a=a ^ 0xFF)
                        m.d.sync += self.hcapb[c].eq(r2.v)
                        w = r2.v ^ K_W
                    return {"v": r.v ^ K_V, "w": w, "mine": self.hcnt[c]}

            for c in range(len(self.chain)):
                chainm(c)

            def targ_of(j):
                a = Signal(8, name=f"arg{j}")
                if self.steady[j]:  # the same argument in consecutive cycles as long as the environment holds it
                    m.d.av_comb += a.eq(self.targ[j] ^ self.gl)
                else:
                    m.d.av_comb += a.eq(self.targ[j] ^ self.gl ^ (self.cyc[:2] << 3))  # also changes at the clock edge
                return a

            def call_tgt(j):
                a = targ_of(j)
                r = self.t_tgt[j](m, a=a)
                m.d.sync += [self.capa[j].eq(a), self.tcnt[j].eq(self.tcnt[j] + 1)]
                if not self.sink[j]:
                    m.d.sync += self.cap[j].eq(r.v)

            if self.tpair:  # one transaction calls both mocked methods
                with Transaction(name="T0").body(m, ready=self.treq[0] ^ self.gl[6]):
                    call_tgt(0)
                    call_tgt(1)
            else:
                for j in range(self.nm):
                    with Transaction(name=f"T{j}").body(m, ready=self.treq[j] ^ self.gl[6]):
                        call_tgt(j)
            return m

    # -> SimpleTestCircuit uses Adapter for these
    Stub.__annotations__ = {"tgt": Required[list[Method]], "htgt": Required[list[Method]],
                            "htgt2": Required[list[Method]]}
    _STUB = Stub
    return Stub


def noarg_x(k):
    return (0x11 * (k + 3)) & 0xFF


def mock_value(j, a, n):
    return (a * 5 + n * 3 + j + 1) & 0xFFF


def arg_valid(va, a):
    """validate_arguments predicate of a mock: [mask, pat] rejects arguments with a & mask == pat."""
    return va is None or (a & va[0]) != va[1]


def mock_early(mc):
    """The mock (and the Adapter of its method) is made before the circuit is elaborated.  A validating mock
    always is: its constructor turns the adapter's argument validation on, which elaboration has to see."""
    return bool(mc.get("early") or mc.get("validate"))


def mock_form(mc):
    return mc.get("form", 1 if mc.get("direct") else 0)  # 0 def_method_mock, 1 MethodMock(...), 2 class-level bound


class Scen(CompScenario):
    def build(self):
        from transactron.testing import SimpleTestCircuit

        c = self.cfg
        self.nc, self.nm = len(c["callers"]), len(c["mocks"])
        self.chains = c.get("chains") or []
        self.noarg = [bool(x) for x in (c.get("noarg") or [])] + [False] * self.nc
        self.auxf = [bool(x) for x in (c.get("aux") or [])] + [False] * self.nc
        self.tpair = bool(c.get("tpair")) and self.nm == 2
        self.stub = _stub_class()(self.nc, self.nm, noarg=self.noarg, aux=self.auxf,
                                  sink=[m.get("sink") for m in c["mocks"]], tpair=self.tpair,
                                  chains=[len(ch["mocks"]) for ch in self.chains],
                                  early=[mock_early(m) for m in c["mocks"]],
                                  steady=[m.get("steady") for m in c["mocks"]],
                                  hearly=[[mock_early(m) for m in ch["mocks"]] for ch in self.chains])
        # the mocked methods of "early" mocks get their Adapter from the harness, before elaboration
        self.stc = SimpleTestCircuit(self.stub, exclude=["tgt_e", "htgt_e", "htgt2_e"])
        self.top.add("stc", self.stc)
        s = self.stub
        # The environment inputs are applied by pre_observe() (called by the cycle driver right where it would
        # apply them itself): a ctx.set() runs the library's mock processes, and an exception escaping from
        # them has to be classified (lib_error) instead of surfacing as an error of the driver.
        self.drive = {"rdy_core": s.rdy_core}
        for k in range(self.nc):
            self.drive[f"rdy{k}"] = s.rdy[k]
        for k in s.aux_k:
            self.drive[f"ardy{k}"] = s.ardy[k]
        for ci in range(len(self.chains)):
            self.drive[f"hrdy{ci}"] = s.hrdy[ci]
        for j in range(self.nm):
            self.drive[f"treq{j}"] = s.treq[j]
            self.drive[f"targ{j}"] = s.targ[j]
        self.driven: dict = {}
        self.add_obs("cyc", s.cyc)
        self.add_obs("gcnt", s.gcnt)
        # ports: provided methods driven through a TestbenchIO; counter = hardware executions of the method body
        self.ports: list = []  # (port name, counter observation)
        for k in range(self.nc):
            self.add_obs(f"cnt{k}", s.cnt[k])
            self.ports.append((f"c{k}", f"cnt{k}"))
        for k in s.aux_k:
            self.add_obs(f"acnt{k}", s.acnt[k])
            self.ports.append((f"a{k}", f"acnt{k}"))
        for ci in range(len(self.chains)):
            self.add_obs(f"hcnt{ci}", s.hcnt[ci])
            self.add_obs(f"hcap{ci}", s.hcap[ci])
            self.add_obs(f"hcapb{ci}", s.hcapb[ci])
            self.add_obs(f"hcapa{ci}", s.hcapa[ci])
            self.ports.append((f"h{ci}", f"hcnt{ci}"))
        for j in range(self.nm):
            self.add_obs(f"tcnt{j}", s.tcnt[j])
            self.add_obs(f"cap{j}", s.cap[j])
            self.add_obs(f"capa{j}", s.capa[j])
        self.add_obs("py", s.mb)
        self.regs = [n for n in self.obs if n != "py"]
        self.sigs = dict(self.obs)
        # mocks: name, id in mock_value, configuration, hardware counter / captured value / captured argument (the
        # second mock of a chain receives the complemented argument), request input (transactions only)
        self.mocks: list = []
        for j in range(self.nm):
            self.mocks.append({"name": f"m{j}", "id": j, "cfg": c["mocks"][j], "cnt": f"tcnt{j}", "cap": f"cap{j}",
                               "capa": f"capa{j}", "flip": 0, "req": f"treq{0 if self.tpair else j}",
                               "method": s.t_tgt[j], "late": "tgt", "sink": bool(c["mocks"][j].get("sink"))})
        for ci, ch in enumerate(self.chains):
            for b, mc in enumerate(ch["mocks"][:2]):
                self.mocks.append({"name": ("n", "o")[b] + str(ci), "id": 10 + 2 * ci + b, "cfg": mc, "cnt": f"hcnt{ci}",
                                   "cap": ("hcap", "hcapb")[b] + str(ci), "capa": f"hcapa{ci}", "flip": 0xFF * b,
                                   "req": None, "method": (s.t_htgt, s.t_htgt2)[b][ci], "late": ("htgt", "htgt2")[b],
                                   "sink": False})
        # python-side observations
        self.pyhash = 0
        self.errors: list = []
        self.rets = {p: [] for p, _ in self.ports}  # (idx, kind, x, c0, c1, result or None, sampled)
        self.inflight = {p: None for p, _ in self.ports}
        self.nret = {p: 0 for p, _ in self.ports}  # successful returns
        self.loose = {p: False for p, _ in self.ports}  # until_all_done may repeat a call: no running bound
        for k in range(self.nc):
            if any(op[0] == "paira" for op in c["callers"][k]) and k in s.aux_k:
                self.loose[f"c{k}"] = self.loose[f"a{k}"] = True
        self.mst = [{"n": 0, "inv": 0, "vinv": 0, "encalls": 0, "elog": [[] for _ in range(max(1, mk["cfg"].get("neff", 1)))]}
                    for mk in self.mocks]
        self.hw: list = []
        self.stimlog: list = []
        self._ctx = None
        self.held = [0] * self.nm
        # early mocks: Adapter and MethodMock exist before the circuit is elaborated (the mock's constructor is what
        # turns the adapter's argument validation on)
        from transactron.lib import Adapter
        from transactron.testing import TestbenchIO
        from transactron.testing.method_mock import MethodMock, def_method_mock

        self.mms: dict = {}
        for mi, mk in enumerate(self.mocks):
            if mock_early(mk["cfg"]):
                tb = TestbenchIO(Adapter.create(mk["method"]))
                self.top.add("tb_" + mk["name"], tb)
                self.mms[mi] = self.make_mock(mi, tb, MethodMock, def_method_mock)
        return self.top

    def pynote(self, rec):
        self.pyhash = h64(self.pyhash, rec)

    # ---- the coroutines ---------------------------------------------------------------------
    def post_elab(self, tm):
        super().post_elab(tm)
        from transactron.testing.method_mock import MethodMock, def_method_mock

        c = self.cfg
        units = {}
        for k in range(self.nc):
            tb2 = self.stc.aux[self.stub.aux_k.index(k)] if k in self.stub.aux_k else None
            units[f"c{k}"] = [("background", self.make_caller(f"c{k}", self.stc.calls[k], c["callers"][k],
                                                              tb2=tb2, port2=f"a{k}", noarg=self.noarg[k]))]
        for ci, ch in enumerate(self.chains):
            units[f"h{ci}"] = [("background", self.make_caller(f"h{ci}", self.stc.chain[ci], ch["script"]))]
        for mi, mk in enumerate(self.mocks):
            if mi in self.mms:
                mm = self.mms[mi]
            else:  # the adapter made by SimpleTestCircuit for this method
                late = getattr(self.stub, mk["late"])
                tb = getattr(self.stc, mk["late"])[[id(x) for x in late].index(id(mk["method"]))]
                mm = self.make_mock(mi, tb, MethodMock, def_method_mock)
            procs, bg = [], []
            for one in (mm if isinstance(mm, list) else [mm]):
                procs.append(("process", one.output_process))
                if one.validate_arguments is not None:  # as PysimSimulator.add_mock does
                    procs.append(("process", one.validate_arguments_process))
                bg.append(("background", one.effect_process))
            units[mk["name"]] = procs + bg
        if c.get("glitch"):
            units["g"] = [("background", self.make_glitcher(c["glitch"]))]
        order = [u for u in c["order"] if u in units] + sorted(u for u in units if u not in c["order"])
        self.extra_processes = [p for u in order for p in units[u]]

    def make_mock(self, mi, tb, MethodMock, def_method_mock):
        mk = self.mocks[mi]
        mc, mid, st = mk["cfg"], mk["id"], self.mst[mi]
        pattern = mc["enable"]  # None: the mock is built without `enable` (default: always enabled)
        neff = mc.get("neff", 1)
        va = mc.get("validate")
        sink = mk["sink"]
        argstyle = bool(mc.get("argstyle"))

        def enable():
            i = st["encalls"]
            st["encalls"] += 1
            return bool(pattern[i % len(pattern)])

        def body(a):
            st["inv"] += 1
            n = st["n"]
            v = 0 if sink else mock_value(mid, a, n)

            def add_effect(e):
                @MethodMock.effect
                def _():
                    if e == 0:
                        st["n"] += 1
                        self.pynote(("eff", mid, a, v, n))
                    st["elog"][e].append((a, v, n))

            for e in range(neff):  # 0, 1, 2 or 3 effect blocks registered by one invocation
                add_effect(e)
            return None if sink else {"v": v}

        def valid(a):
            st["vinv"] += 1
            return arg_valid(va, a)

        if argstyle:  # single `arg` parameter receiving all arguments
            def fn(arg):
                return body(arg["a"])

            def vfn(arg):
                return valid(arg["a"])
        else:  # named parameters
            def fn(a):
                return body(a)

            def vfn(a):
                return valid(a)

        kw: dict = {"delay": mc["delay_ns"] * 1e-9}
        form = mock_form(mc)
        if form in (2, 3):
            # class-level form, as the library's own tests write it: everything takes `self`
            if pattern is not None:
                kw["enable"] = lambda self_: enable()
            if va is not None:
                kw["validate_arguments"] = (lambda self_, arg: vfn(arg)) if argstyle else (lambda self_, a: vfn(a))
            if argstyle:
                def method(self_, arg):
                    assert self_ is holder
                    return fn(arg)
            else:
                def method(self_, a):
                    assert self_ is holder
                    return fn(a)

            Holder = type("Holder", (), {"tb": tb, "mock": def_method_mock(lambda self_: self_.tb, **kw)(method)})
            if form == 3:
                # the definition overrides one of a base class, and the mocks are discovered the way the library's test
                # case does it (TestCaseWithSimulatorBase._add_class_mocks): the overridden definition must stay unused
                from transactron.testing.test_case import TestCaseWithSimulatorBase

                used = self.overridden_used = getattr(self, "overridden_used", [])

                def overridden(self_, *args, **kwargs):
                    used.append(mi)
                    return {}

                Base = type("Base", (), {"tb": tb, "mock": def_method_mock(lambda self_: self_.tb, delay=kw["delay"])(overridden)})
                Derived = type("Derived", (Base,), {"mock": Holder.__dict__["mock"]})
                holder = Derived()
                found: list = []
                collector = type("Collector", (), {"add_mock": lambda self_, mm: found.append(mm),
                                                   "add_process": lambda self_, p: None})()
                TestCaseWithSimulatorBase._add_class_mocks(holder, collector)
                self.expect(found, "class-mock-not-found", "the class-level mock definition was not discovered")
                return found
            holder = Holder()
            return holder.mock()
        if pattern is not None:
            kw["enable"] = enable
        if va is not None:
            kw["validate_arguments"] = vfn
        if form == 1:
            return MethodMock(tb.adapter, fn, **kw)
        return def_method_mock(lambda: tb, **kw)(fn)()

    def make_caller(self, port, tb, script, tb2=None, port2=None, noarg=False):
        from transactron.testing import CallTrigger
        from transactron.testing.simulator import tick

        s = self.stub
        kindp = port[0]

        def unpack(r, kp=kindp):
            if r is None:
                return None
            if kp == "c":
                return (r.cnt, r.echo, r.mine)
            if kp == "a":
                return (r.mine, r.echo)
            return (r.v, r.w, r.mine)

        def trig_call(t, x):
            if noarg:
                return t.call(tb)  # a method without inputs: no data at all
            return t.call(tb, x=x)

        async def caller(ctx):
            try:
                for idx, op in enumerate(script):
                    kind, x = op[0], op[1]
                    if kind == "gap":
                        await tick(ctx, x)
                        continue
                    pair = kind in ("pair", "pairu", "paira")
                    if pair and tb2 is None:
                        kind, pair = {"pair": "try", "pairu": "call", "paira": "call"}[kind], False
                    c0 = ctx.get(s.cyc)
                    self.inflight[port] = (idx, kind, x, c0)
                    sampled = None
                    r2 = None
                    if pair:
                        x2 = op[2]
                        self.inflight[port2] = (idx, kind, x2, c0)
                        t = trig_call(CallTrigger(ctx), x).call(tb2, {"x": x2})
                        if kind == "pair":
                            r, r2 = await t
                        elif kind == "pairu":
                            r, r2 = await t.until_done()
                        else:
                            r, r2 = await t.until_all_done()
                        r, r2 = unpack(r), unpack(r2, "a")
                    elif kind == "call":
                        r = unpack(await (tb.call(ctx) if noarg else tb.call(ctx, x=x)))
                    elif kind == "try":
                        r = unpack(await (tb.call_try(ctx) if noarg else tb.call_try(ctx, {"x": x})))
                    elif kind == "trig":
                        if op[2]:
                            scyc, r, sg = await trig_call(CallTrigger(ctx).sample(s.cyc), x).sample(s.gcnt)
                        elif noarg:
                            r, scyc, sg = await CallTrigger(ctx).call(tb).sample(s.cyc, s.gcnt)
                        else:
                            r, scyc, sg = await CallTrigger(ctx).call(tb, {"x": x}).sample(s.cyc, s.gcnt)
                        r, sampled = unpack(r), (scyc, sg)
                    elif kind == "trigu":
                        (r,) = await trig_call(CallTrigger(ctx), x).until_done()
                        r = unpack(r)
                    else:  # trigus: until_done() on a trigger that also samples a plain value
                        r, scyc = await trig_call(CallTrigger(ctx), x).sample(s.cyc).until_done()
                        r, sampled = unpack(r), (scyc, None)
                    c1 = ctx.get(s.cyc)
                    self.inflight[port] = None
                    if r is not None:
                        self.nret[port] += 1
                    rec = (idx, kind, x, c0, c1, r, sampled)
                    self.rets[port].append(rec)
                    self.pynote(("ret", port) + rec)
                    if pair:
                        self.inflight[port2] = None
                        if r2 is not None:
                            self.nret[port2] += 1
                        rec = (idx, kind, op[2], c0, c1, r2, None)
                        self.rets[port2].append(rec)
                        self.pynote(("ret", port2) + rec)
            except BaseException as e:  # re-raised by the driver (check / finish)
                self.errors.append(e)

        return caller

    def make_glitcher(self, g):
        s = self.stub
        pat, d = g["pattern"], g["delay_ns"] * 1e-9

        async def glitcher(ctx):
            try:
                i = 0
                while True:
                    await ctx.delay(d)
                    ctx.set(s.gl, pat[i % len(pat)])
                    i += 1
                    await ctx.tick()
            except BaseException as e:
                self.errors.append(e)

        return glitcher

    # ---- stimulus (the environment) ---------------------------------------------------------
    def stimulus(self, rng, cyc):
        kind, p = phase_at(self.cfg["plan"], cyc)
        stim = {}
        if kind == "open":
            pc = po = pt = 1.0
        elif kind == "blocked":
            pc, po, pt = 0.0, 0.8, p
        elif kind == "flap":
            pc, po, pt = float(cyc & 1), 1.0, float((cyc >> 1) & 1)
        elif kind == "outer":
            pc, po, pt = 1.0, p, 0.5
        else:
            pc = po = pt = p
        stim["rdy_core"] = int(rng.random() < pc)
        for k in range(self.nc):
            stim[f"rdy{k}"] = int(rng.random() < po)
        for j in range(self.nm):
            stim[f"treq{j}"] = int(rng.random() < pt)
            if rng.random() < 0.7:
                self.held[j] = rng.getrandbits(8)
            stim[f"targ{j}"] = self.held[j]
        # drawn after everything older configurations draw
        for k in self.stub.aux_k:
            stim[f"ardy{k}"] = int(rng.random() < max(po, 0.3))
        for ci in range(len(self.chains)):
            stim[f"hrdy{ci}"] = int(rng.random() < po)
        return stim

    # ---- oracle -----------------------------------------------------------------------------
    def raise_errors(self):
        if self.errors:
            lib_error(self.errors[0])

    def pre_observe(self, ctx, cyc, stim):
        self._ctx = ctx
        try:
            for name, sig in self.drive.items():
                v = stim.get(name, 0)
                if self.driven.get(name) != v:
                    ctx.set(sig, v)
                    self.driven[name] = v
            ctx.set(self.stub.mb, self.pyhash & 0xFFFFFFFF)
        except Exception as e:
            lib_error(e)

    def check(self, cyc, stim, obs):
        self.raise_errors()
        if obs["cyc"] != cyc & 0xFFFF:
            raise RuntimeError(f"cycle counter {obs['cyc']} != driver cycle {cyc}")
        self.hw.append(obs)
        self.stimlog.append(stim)
        # bounds that hold whatever the order inside a cycle is; the exact comparison is in finish()
        for p, cn in self.ports:
            got, ex = self.nret[p], obs[cn]
            if self.loose[p]:
                continue
            self.expect(got <= ex <= got + 1, "returns-vs-executions",
                        f"port {p}: {got} successful returns but the method body ran {ex} times "
                        f"(at most one call can be in flight)", who=p)
        for mi, mk in enumerate(self.mocks):
            if mk["cfg"].get("neff", 1) == 0:
                continue  # no effect block: nothing to count
            n, ex = self.mst[mi]["n"], obs[mk["cnt"]]
            prev = self.hw[-2][mk["cnt"]] if cyc else 0
            self.expect(n <= ex, "mock-effects-ahead",
                        f"mock {mk['name']}: effects applied {n} times, the calling body ran {ex} times", who=mk["name"])
            self.expect(n >= prev, "mock-effects-behind",
                        f"mock {mk['name']}: effects applied {n} times, the calling body had run {prev} times "
                        f"a cycle ago", who=mk["name"])
        if cyc:
            pv = self.hw[-2]
            ex = tuple(obs[cn] - pv[cn] for _, cn in self.ports)
            tx = tuple(obs[f"tcnt{j}"] - pv[f"tcnt{j}"] for j in range(self.nm))
            fl = tuple(None if self.inflight[p] is None else self.inflight[p][1] for p, _ in self.ports)
            self.visit((ex, tx, fl), nontrivial=any(ex) or any(tx))

    def want_result(self, port, x, te, hw):
        """What the hardware produced for a call of `port` with argument x executing in cycle te."""
        kp, ix = port[0], int(port[1:])
        if kp == "c":
            g = hw[te]["gcnt"]
            if self.noarg[ix]:
                x = noarg_x(ix)
            return (g, (x ^ K_ECHO ^ g) & 0xFF, hw[te][f"cnt{ix}"])
        if kp == "a":
            return (hw[te][f"acnt{ix}"], (x ^ K_AUX) & 0xFF)
        w = (hw[te + 1][f"hcapb{ix}"] ^ K_W) if len(self.chains[ix]["mocks"]) > 1 else 0
        return (hw[te + 1][f"hcap{ix}"] ^ K_V, w, hw[te][f"hcnt{ix}"])

    def finish(self):
        self.raise_errors()
        if getattr(self, "overridden_used", None):
            raise Violation("overridden-class-mock-used", f"the overridden base-class definition of mock(s) "
                            f"{sorted(set(self.overridden_used))} was invoked although the derived class redefines it")
        if self._ctx is None:
            return
        ctx = self._ctx
        last = {name: ctx.get(self.sigs[name]) for name in self.regs}
        hw = self.hw + [last]
        T = len(self.hw)
        stimlog = self.stimlog
        glitch = bool(self.cfg.get("glitch"))
        intervals = {p: [None] * T for p, _ in self.ports}

        for p, cn in self.ports:
            who = p
            ex = [hw[t + 1][cn] - hw[t][cn] for t in range(T)]
            recs = list(self.rets[p])
            prev = None
            discarded = 0
            for (idx, kind, x, c0, c1, r, sampled) in recs:
                what = f"port {p} op {idx} {kind}(x={x}) issued in cycle {c0}, returned in cycle {c1}"
                if not 0 <= c0 <= c1 <= T:
                    raise RuntimeError(f"{what}: malformed interval (T={T})")
                for t in range(c0, c1):
                    intervals[p][t] = idx
                # the executing cycle of the call is the cycle of [c0, c1) in which the method body ran: exactly one
                # for a result, none for None (when within the interval it runs is not stated)
                execs = [t for t in range(c0, c1) if ex[t]]
                if c1 == c0:
                    self.hit("helper_returned_in_the_cycle_it_was_issued")
                if kind == "paira":
                    # until_all_done() repeats the calls until all succeed in one cycle: earlier successes are executed
                    # and dropped by design; only "the result belongs to an executing cycle" is judged
                    self.hit("until_all_done")
                    if len(execs) > 1:
                        self.hit("until_all_done_repeated_a_call", len(execs) - 1)
                        discarded += len(execs) - 1
                    if r is None:
                        self.hit("until_all_done_returned_none")
                        discarded += len(execs)
                    else:
                        self.expect(len(execs) >= 1, "returned-without-execution",
                                    f"{what}: result {r} but the method body did not run in any cycle of [{c0}, {c1})",
                                    who=who, op=kind)
                        want = self.want_result(p, x, execs[-1], hw)
                        self.expect(r == want, "result-data-mismatch",
                                    f"{what}: result {r}, the executing cycle {execs[-1]} produced {want}", who=who,
                                    op=kind)
                elif r is None:
                    self.expect(kind in ("try", "trig", "trigus", "pair", "pairu"), "blocking-call-returned-none", what,
                                who=who, op=kind)
                    self.expect(not execs, "none-but-executed",
                                f"{what}: result None although the method body ran in cycle(s) {execs}", who=who, op=kind)
                    self.hit(f"{kind}_none")
                    if p[0] == "h" and not glitch:
                        a = (x ^ K_CH) & 0xFF
                        if any(not arg_valid(mk["cfg"].get("validate"), a ^ mk["flip"]) for mk in self.mocks
                               if mk["name"] in (f"n{p[1:]}", f"o{p[1:]}")):
                            self.hit("chain_call_rejected_argument_none")
                else:
                    self.expect(len(execs) >= 1, "returned-without-execution",
                                f"{what}: result {r} but the method body did not run in any cycle of [{c0}, {c1})",
                                who=who, op=kind)
                    self.expect(len(execs) == 1, "call-extra-execution",
                                f"{what}: the method body ran in cycles {execs}: more than one call", who=who, op=kind)
                    te = execs[0]
                    if te != c1 - 1:
                        self.hit("executed_before_last_cycle_of_the_call")
                    want = self.want_result(p, x, te, hw)
                    self.expect(r == want, "result-data-mismatch",
                                f"{what}: result {r}, the executing cycle {te} produced {want}", who=who, op=kind)
                    if p[0] == "h":
                        self.check_chain_result(p, what, kind, x, te, r, hw, glitch)
                    if p[0] == "c" and self.noarg[int(p[1:])]:
                        self.hit("call_without_data_done")
                    if kind in ("call", "trigu"):
                        self.hit(f"{kind}_immediate" if c1 == c0 + 1 else f"{kind}_waited")
                    else:
                        self.hit(f"{kind}_done")
                    if prev is not None and prev[4] == c0 and prev[5] is not None and c1 == c0 + 1:
                        self.hit("back_to_back_executions")
                if sampled is not None:
                    scyc, sg = sampled
                    # which cycle CallTrigger.sample() samples is not part of the statement: only counted
                    if c1 == 0 or not (scyc == (c1 - 1) & 0xFFFF and (sg is None or sg == hw[c1 - 1]["gcnt"])):
                        self.hit("trigger_sample_not_from_last_cycle_of_the_call")
                prev = (idx, kind, x, c0, c1, r)
            fl = self.inflight[p]
            unreported = 0
            if fl is not None:
                idx, kind, x, c0 = fl
                self.hit("in_flight_at_end")
                for t in range(c0, T):
                    intervals[p][t] = idx
                # an execution in the last simulated cycle may simply not have been reported yet
                ran = [t for t in range(c0, T - 1) if ex[t]]
                if kind == "paira":
                    discarded += len(ran)
                else:
                    self.expect(not ran, "executed-but-never-returned",
                                f"port {p} op {idx} {kind}(x={x}) issued in cycle {c0} has not returned by cycle {T}, "
                                f"yet the method body ran in cycle(s) {ran}", who=who, op=kind)
                if T and T - 1 >= c0 and ex[T - 1]:
                    self.hit("executed_in_last_cycle_not_yet_returned")
                    unreported = 1
            stray = [t for t in range(T) if ex[t] and intervals[p][t] is None]
            self.expect(not stray, "execution-outside-any-call",
                        f"port {p}: the method body ran in cycle(s) {stray[:6]} while no call of this caller was "
                        f"pending (enable left asserted)", who=who)
            self.expect(self.nret[p] == hw[T][cn] - unreported - discarded, "returns-differ-from-executions",
                        f"port {p}: {self.nret[p]} successful returns, {hw[T][cn]} executions"
                        + (" (one of them in the last cycle, call still pending)" if unreported else "")
                        + (f" ({discarded} repeated by until_all_done)" if discarded else ""), who=who)
        cports = [(p, cn) for p, cn in self.ports if p[0] == "c"]
        for t in range(T):
            pend = [(p, cn) for p, cn in cports if intervals[p][t] is not None]
            if len(pend) >= 2:
                nex = sum(hw[t + 1][cn] - hw[t][cn] for _, cn in pend)
                if nex == 1:
                    self.hit("contended_cycle_one_winner")
                elif nex == 0:
                    self.hit("contended_cycle_blocked")
        for k in self.stub.aux_k:
            both = sum(1 for t in range(T) if hw[t + 1][f"cnt{k}"] != hw[t][f"cnt{k}"]
                       and hw[t + 1][f"acnt{k}"] != hw[t][f"acnt{k}"])
            if both:
                self.hit("two_calls_of_one_trigger_in_one_cycle", both)

        for mi, mk in enumerate(self.mocks):
            who = mk["name"]
            st, mc = self.mst[mi], mk["cfg"]
            neff = mc.get("neff", 1)
            va = mc.get("validate")
            cn = mk["cnt"]
            tx = [hw[t + 1][cn] - hw[t][cn] for t in range(T)]
            runs = [t for t in range(T) if tx[t]]
            nexec = hw[T][cn]
            pending_last = 1 if (T and tx[T - 1]) else 0
            # every effect block: exactly once per executed call, none for a call that did not execute
            for e in range(neff):
                ne = len(st["elog"][e])
                self.expect(nexec - pending_last <= ne <= nexec, "mock-effects-count",
                            f"mock {who}: effect block {e} of {neff} applied {ne} times, the calling body ran "
                            f"{nexec} times", who=who, neff=neff)
                self.expect(st["elog"][e] == st["elog"][0], "mock-effects-differ",
                            f"mock {who}: effect block {e} was applied for other invocations than block 0: "
                            f"{st['elog'][e][-3:]} / {st['elog'][0][-3:]}", who=who, neff=neff)
            self.hit(f"mock_with_{neff}_effects", len(runs))
            log = st["elog"][0]
            for i, t in enumerate(runs):
                cap, capa = hw[t + 1][mk["cap"]], hw[t + 1][mk["capa"]] ^ mk["flip"]
                # a call whose argument the mock's validate_arguments rejects does not execute
                self.expect(arg_valid(va, capa), "executed-with-rejected-argument",
                            f"mock {who}: execution #{i} in cycle {t} with argument {capa}, which validate_arguments "
                            f"(reject a & mask == pattern, [mask, pattern] = {va}) rejects", who=who)
                if neff == 0:
                    # no effects, no state: the value is a function of the argument alone
                    v = 0 if mk["sink"] else mock_value(mk["id"], capa, 0)
                    self.expect(cap == v, "mock-value-not-captured",
                                f"mock {who}: execution #{i} in cycle {t}: the caller captured value {cap} for argument "
                                f"{capa}; the mock function returns {v} for it", who=who)
                    continue
                if i >= len(log):
                    continue
                a, v, n = log[i]
                self.expect((cap, capa) == (v, a), "mock-value-not-captured",
                            f"mock {who}: execution #{i} in cycle {t}: the effect belongs to the invocation with "
                            f"argument {a} returning {v}; the caller captured argument {capa}, value {cap}",
                            who=who)
                if n != i:
                    self.hit("mock_function_saw_unapplied_effects")
            self.hit("mock_exec", len(runs))
            same = sum(1 for i in range(1, len(runs)) if runs[i] == runs[i - 1] + 1
                       and hw[runs[i] + 1][mk["capa"]] == hw[runs[i]][mk["capa"]])
            if same:
                self.hit("mock_consecutive_calls_same_argument", same)
            form = mock_form(mc)
            self.hit(("mock_def_method_mock", "mock_direct", "mock_class_level_bound", "mock_class_level_discovered_overriding")[form], len(runs))
            if mc.get("argstyle"):
                self.hit("mock_single_arg_style", len(runs))
            if mc["enable"] is None:
                self.hit("mock_default_enable", len(runs))
            if mk["sink"]:
                self.hit("mock_returning_none_exec", len(runs))
            if mock_early(mc):
                self.hit("mock_made_before_elaboration", len(runs))
            if va is not None:
                self.hit("mock_validating_exec", len(runs))
                if st["vinv"]:
                    self.hit("validate_arguments_evaluated", st["vinv"])
            if mk["name"][0] in "no":
                self.hit("chain_mock_exec", len(runs))
            if mk["name"][0] == "o" or (self.tpair and mk["name"][0] == "m"):
                self.hit("two_mocks_in_one_body_exec", len(runs))
            if neff and st["inv"] > len(log):
                self.hit("mock_function_reevaluated", st["inv"] - len(log))
            if mc["delay_ns"]:
                self.hit("mock_exec_with_delay", len(runs))
            if mk["req"] is not None and not glitch:
                j = mk["id"]
                for t in range(T):
                    if not stimlog[t].get(mk["req"]):
                        continue
                    if not tx[t]:
                        self.hit("mock_disabled_blocked_request")
                    a = (stimlog[t].get(f"targ{j}", 0) ^ (0 if mc.get("steady") else (t & 3) << 3)) & 0xFF
                    if not arg_valid(va, a):
                        self.hit("request_with_rejected_argument")
        if glitch:
            self.hit("glitch_run")
        self.notes["returns"] = [self.nret[p] for p, _ in self.ports]
        self.notes["effects"] = [st["n"] for st in self.mst]

    def check_chain_result(self, p, what, kind, x, te, r, hw, glitch):
        """TestbenchIO -> chain method -> mocked method(s) -> back, all in cycle te: the caller's result is the value
        the mock function returned for the invocation whose effects were applied for this very execution."""
        ci = int(p[1:])
        i = hw[te][f"hcnt{ci}"]  # executions before this one = index of this execution
        capa = hw[te + 1][f"hcapa{ci}"]
        if not glitch:
            self.expect(capa == (x ^ K_CH) & 0xFF, "chain-argument-mismatch",
                        f"{what}: the mocked method received {capa}, the chain method passes {(x ^ K_CH) & 0xFF}",
                        who=p, op=kind)
        for b, mk in enumerate(m for m in self.mocks if m["name"] in (f"n{ci}", f"o{ci}")):
            mi = self.mocks.index(mk)
            st, mc = self.mst[mi], mk["cfg"]
            a = capa ^ mk["flip"]
            got = r[b] ^ (K_V, K_W)[b]
            if mc.get("neff", 1) == 0:
                v = mock_value(mk["id"], a, 0)
            elif i < len(st["elog"][0]):
                la, v, _n = st["elog"][0][i]
                self.expect(la == a, "mock-value-not-captured",
                            f"{what}: execution #{i} of mock {mk['name']}: effects were applied for the invocation "
                            f"with argument {la}, the call carried {a}", who=mk["name"], op=kind)
            else:
                continue  # executed in the last cycle: effects not applied yet
            self.expect(got == v, "result-not-the-mock-value",
                        f"{what}: the caller received {got} from mock {mk['name']} (execution #{i}, argument {a}); "
                        f"the mock function returned {v} for that call", who=mk["name"], op=kind)
            self.hit("chain_result_matches_mock")

    def on_sim_error(self, e):
        lib_error(e)


def lib_error(e):
    """An exception that escaped from library code (helpers / mock processes) is a verdict about the
    library; anything raised by harness code stays a harness error."""
    if isinstance(e, Violation):
        raise e
    tb = e.__traceback__
    inner = None
    while tb is not None:
        inner = tb.tb_frame.f_code.co_filename
        tb = tb.tb_next
    if inner and "/transactron/" in inner.replace("\\", "/"):
        raise Violation("helper-raised", f"{type(e).__name__} in {inner.rsplit('/', 1)[-1]}: {str(e)[:200]}",
                        exc=type(e).__name__)
    raise e


def _gen_script(rng, cycles):
    n = rng.choice([2, 5, 10, 20, 40, 80])
    s = []
    if rng.random() < 0.5:
        s.append(["gap", rng.randint(1, 3)])
    w = [rng.random() + 0.2, rng.random(), rng.random() * 0.6, rng.random() * 0.4, rng.random() * 0.2,
         rng.random() * 0.8]
    sticky = rng.choice([0.0, 0.0, 0.5, 0.9])  # how often an operation repeats the argument of the one before
    x = rng.getrandbits(8)
    for _ in range(n):
        kind = rng.choices(["call", "try", "trig", "trigu", "trigus", "gap"], weights=w)[0]
        if kind == "gap":
            s.append(["gap", rng.randint(1, 4)])
            continue
        if rng.random() >= sticky:
            x = rng.getrandbits(8)
        if kind == "trig":
            s.append(["trig", x, rng.randrange(2)])
        else:
            s.append([kind, x])
    return s


def _gen_mock(rng, sink=False, tx=False):
    style = rng.random()
    ln = rng.randint(1, 24)
    if style < 0.12:
        pat = None  # built without `enable`: the default
    elif style < 0.3:
        pat = [1] * ln
    else:
        q = rng.choice([0.2, 0.5, 0.8])
        pat = [int(rng.random() < q) for _ in range(ln)]
        if not any(pat):
            pat[rng.randrange(ln)] = 1
    form = rng.choice([0, 0, 1, 2, 2, 3])
    validate = None
    if rng.random() < 0.3:
        mask = rng.choice([0x03, 0x81, 0x10, 0x0C, 0x01, 0x60])
        validate = [mask, rng.getrandbits(8) & mask]
    return {"delay_ns": rng.choice([0, 0, 0, 1, 100, 250, 400, 600]), "enable": pat, "direct": int(form == 1),
            "form": form, "neff": rng.choice([1, 1, 1, 0, 2, 2, 3]), "argstyle": int(rng.random() < 0.3),
            "validate": validate, "sink": int(bool(sink)), "early": int(validate is not None or rng.random() < 0.25),
            "steady": int(tx and rng.random() < 0.3)}


class Prop(PropBase):
    ID = "C43"
    tiers = {
        "quick": {"runs": 1200, "selftest_runs": 4},
        "thorough": {"runs": 40000, "selftest_runs": 32},
    }
    rule = ("one run = stub circuit with 1-3 callers (each a background testbench with its own script of call / "
            "call_try / CallTrigger.call+sample / CallTrigger.until_done (with and without a sampled value) / idle gaps on its own TestbenchIO; "
            "20% of the methods without inputs, called without data; 12-25% of the callers own a second method and hold "
            "two calls in one CallTrigger: plain, until_done, until_all_done), 1-2 "
            "mocked methods called by hardware transactions (30% of the pairs by one transaction), in 40% of the runs "
            "1-2 chain methods (testbench caller -> chain method -> 1-2 mocked methods -> result back in the same "
            "cycle); every mock: def_method_mock on a function / MethodMock / class-level bound form, named or single-arg "
            "style, 0-3 effect blocks, delay 0..600 ns, enable() pattern or default, validate_arguments or not, made "
            "before or after elaboration, 15% of the transaction-called ones without outputs (mock returns None); "
            "optionally a glitcher changing inputs between clock edges; registration order of all "
            "coroutines, scheduler and the per-cycle readiness / request / argument inputs are drawn from the seed; "
            "60-180 cycles.  distinct = distinct (which callers executed, which mocked calls executed, kind of each "
            "caller's pending operation) per cycle; non-trivial = something executed")
    expected_cov = ["call_immediate", "call_waited", "try_done", "try_none", "trig_done", "trig_none", "trigu_waited",
                    "trigu_immediate", "trigus_done", "trigus_none", "back_to_back_executions", "contended_cycle_one_winner", "contended_cycle_blocked",
                    "in_flight_at_end", "mock_exec", "mock_exec_with_delay", "mock_function_reevaluated",
                    "mock_disabled_blocked_request", "glitch_run",
                    "chain_mock_exec", "chain_result_matches_mock", "chain_call_rejected_argument_none",
                    "two_mocks_in_one_body_exec", "mock_with_0_effects", "mock_with_1_effects", "mock_with_2_effects",
                    "mock_with_3_effects", "mock_def_method_mock", "mock_direct", "mock_class_level_bound", "mock_class_level_discovered_overriding",
                    "mock_default_enable", "mock_single_arg_style", "mock_returning_none_exec", "mock_validating_exec",
                    "mock_made_before_elaboration", "request_with_rejected_argument", "call_without_data_done",
                    "pair_done", "pair_none", "pairu_done", "until_all_done", "two_calls_of_one_trigger_in_one_cycle",
                    "mock_consecutive_calls_same_argument"]
    real = ["transactron.testing.testbenchio.TestbenchIO (call, call_try)", "transactron.testing.testbenchio.CallTrigger",
            "transactron.testing.method_mock.MethodMock / def_method_mock (output_process, effect_process)",
            "MethodMock.validate_arguments_process, MethodMock.effect (0-3 per invocation)",
            "transactron.testing.test_circuit.SimpleTestCircuit (with exclude=)", "transactron.testing.simulator.tick",
            "transactron.lib.adapters.AdapterTrans / Adapter", "TransactionManager + scheduler", "amaranth pysim"]
    stubs = ["stub circuit with hardware execution counters and capture registers (callers via a shared core method, "
             "second methods, chain methods forwarding to mocked methods, transactions calling mocked methods)",
             "cycle driver (environment inputs)",
             "caller scripts, mock functions with python-side effect counters, glitcher"]
    search_space = ("coroutine registration orders, mock delays and enable patterns, readiness histories (also changing "
                    "between clock edges), caller scripts")
    state_measure = "(callers that executed, mocked calls that executed, pending operation kind per caller) per cycle"
    assumptions = ["a validating mock is constructed before the circuit is elaborated (its constructor switches the "
                   "adapter's with_validate_arguments on, which only elaboration reads; SimpleTestCircuit creates its "
                   "adapters inside elaborate, so such methods get their Adapter from the harness)",
                   "CallTrigger.until_all_done repeats calls that succeeded alone (by design): for it only 'a result "
                   "belongs to an executing cycle' is judged, repetitions are counted",
                   "method collections handed to SimpleTestCircuit are lists (dict-shaped collections fail in "
                   "SimpleTestCircuit.elaborate: ModuleConnector(*mc_dict) receives the keys)",
                   "mock delay stays below one clock period (a longer delay makes effect_process skip clock edges)",
                   "one caller coroutine per TestbenchIO (two coroutines driving one adapter is not a supported use)"]

    def gen_config(self, rng, tier, idx):
        cycles = rng.randint(60, 180)
        nc = rng.choice([1, 2, 2, 3])
        nm = rng.choice([1, 1, 2])
        # chains: testbench caller -> chain method -> mocked method(s) -> back (a share of the runs)
        r = rng.random()
        nch = 0 if r < 0.6 else 1 if r < 0.95 else 2
        if nch:  # keep the size of the circuit (and the run time) about where it was
            nc = min(nc, 2)
            cycles = min(cycles, 150)
            if rng.random() < 0.6:
                nm = 1
        callers = [_gen_script(rng, cycles) for _ in range(nc)]
        mocks = [_gen_mock(rng, sink=rng.random() < 0.15, tx=True) for j in range(nm)]
        glitch = None
        if rng.random() < 0.4:
            glitch = {"delay_ns": rng.choice([0, 1, 50, 200, 300, 500, 700]),
                      "pattern": [rng.choice([0, 0, 1, 0x40, 0x41, rng.getrandbits(8)]) for _ in range(rng.randint(2, 16))]}
        chains = []
        for _ in range(nch):
            ms = [_gen_mock(rng) for _ in range(2 if rng.random() < 0.35 else 1)]
            script = _gen_script(rng, cycles)
            if not glitch:  # a blocking call whose argument a mock rejects would only wait for the end of the run
                for op in script:
                    if op[0] in ("call", "trigu"):
                        for _try in range(8):
                            a = (op[1] ^ K_CH) & 0xFF
                            if arg_valid(ms[0].get("validate"), a) and arg_valid(ms[-1].get("validate"),
                                                                                 a ^ (0xFF if len(ms) > 1 else 0)):
                                break
                            op[1] = rng.getrandbits(8)
            chains.append({"script": script, "mocks": ms})
        noarg = [int(rng.random() < 0.2) for _ in range(nc)]
        aux = [int(rng.random() < (0.12 if nch else 0.25)) for _ in range(nc)]
        for k in range(nc):
            if aux[k]:  # some of this caller's operations become two calls held by one CallTrigger
                for op in callers[k]:
                    if op[0] != "gap" and rng.random() < 0.45:
                        op[:] = [rng.choice(["pair", "pair", "pairu", "pairu", "paira"]), op[1], rng.getrandbits(8)]
        tpair = int(nm == 2 and rng.random() < 0.3)
        units = ([f"c{k}" for k in range(nc)] + [f"m{j}" for j in range(nm)] + (["g"] if glitch else [])
                 + [f"h{c}" for c in range(len(chains))]
                 + [("n", "o")[b] + str(c) for c in range(len(chains)) for b in range(len(chains[c]["mocks"]))])
        rng.shuffle(units)
        return {"callers": callers, "mocks": mocks, "glitch": glitch, "order": units, "cycles": cycles,
                "chains": chains, "noarg": noarg, "aux": aux, "tpair": tpair,
                "sched": rng.choice(["eager", "eager", "rr"]),
                "plan": make_plan(rng, cycles, ["random", "random", "open", "blocked", "flap", "outer"], 4, 30)}

    def make(self, cfg):
        return Scen(cfg)

    def features(self, cfg, viol):
        info = viol.get("info") or {}
        who = info.get("who") or ""
        return {"part": "mock" if who[:1] in ("m", "n", "o") else "caller" if who[:1] in ("c", "a", "h") else None}

    def cfg_signature(self, cfg):
        def msig(m):
            return [m["delay_ns"] > 0, mock_form(m), m.get("neff", 1), bool(m.get("validate")), m["enable"] is None,
                    bool(m.get("argstyle")), bool(m.get("sink")), mock_early(m), bool(m.get("steady"))]

        return [len(cfg["callers"]), [msig(m) for m in cfg["mocks"]], bool(cfg["glitch"]),
                cfg["sched"], cfg["order"], [[msig(m) for m in ch["mocks"]] for ch in cfg.get("chains") or []],
                cfg.get("noarg"), cfg.get("aux"), bool(cfg.get("tpair"))]

    def shrink_cfg(self, cfg):
        if cfg.get("glitch"):
            c = dict(cfg)
            c["glitch"] = None
            yield c
        chains = cfg.get("chains") or []
        if chains:  # input names are positional: only the last chain can go
            c = dict(cfg)
            c["chains"] = chains[:-1]
            yield c
            for ci, ch in enumerate(chains):
                if len(ch["mocks"]) > 1:
                    c = dict(cfg)
                    c["chains"] = [dict(x, mocks=x["mocks"][:1]) if i == ci else x for i, x in enumerate(chains)]
                    yield c
                if len(ch["script"]) > 1:
                    for cut in (ch["script"][: len(ch["script"]) // 2], ch["script"][:-1]):
                        c = dict(cfg)
                        c["chains"] = [dict(x, script=cut) if i == ci else x for i, x in enumerate(chains)]
                        yield c
        if cfg.get("tpair"):
            c = dict(cfg)
            c["tpair"] = 0
            yield c
        for key in ("noarg", "aux"):
            if any(cfg.get(key) or []):
                c = dict(cfg)
                c[key] = [0] * len(cfg[key])
                yield c

        def plainer(m):
            if m.get("validate"):
                yield dict(m, validate=None)
            elif m.get("early"):
                yield dict(m, early=0)
            if m.get("neff", 1) != 1:
                yield dict(m, neff=1)
            if mock_form(m) != 0:
                yield dict(m, form=0, direct=0)
            if m.get("argstyle"):
                yield dict(m, argstyle=0)
            if m.get("steady"):
                yield dict(m, steady=0)
            if m["enable"] is not None and not all(m["enable"]):
                yield dict(m, enable=[1])

        for j, m in enumerate(cfg["mocks"]):
            for nm_ in plainer(m):
                c = dict(cfg)
                c["mocks"] = [nm_ if i == j else x for i, x in enumerate(cfg["mocks"])]
                yield c
        for ci, ch in enumerate(chains):
            for b, m in enumerate(ch["mocks"]):
                for nm_ in plainer(m):
                    c = dict(cfg)
                    c["chains"] = [dict(x, mocks=[nm_ if bb == b else y for bb, y in enumerate(x["mocks"])])
                                   if i == ci else x for i, x in enumerate(chains)]
                    yield c
        if len(cfg["mocks"]) > 1:
            c = dict(cfg)
            c["mocks"] = cfg["mocks"][:1]
            yield c
        if len(cfg["callers"]) > 1:
            for drop in range(len(cfg["callers"])):
                c = dict(cfg)
                keep = [k for k in range(len(cfg["callers"])) if k != drop]
                if drop != len(cfg["callers"]) - 1:
                    continue  # input names are positional: only the last caller can go
                c["callers"] = [cfg["callers"][k] for k in keep]
                yield c
        for k, s in enumerate(cfg["callers"]):
            if len(s) > 1:
                for cut in (s[: len(s) // 2], s[:-1]):
                    c = dict(cfg)
                    c["callers"] = [cut if i == k else x for i, x in enumerate(cfg["callers"])]
                    yield c
        for j, m in enumerate(cfg["mocks"]):
            if m["delay_ns"]:
                c = dict(cfg)
                c["mocks"] = [dict(x, delay_ns=0) if i == j else x for i, x in enumerate(cfg["mocks"])]
                yield c


PROP = Prop()
