"""C21 — MemoryBank returns what an ideal memory holds.

Model: an ideal array plus, per read port, a queue of at most two pending responses.  read_req is
ready iff fewer than two responses are pending (at the beginning of the cycle: a response taken in
the same cycle does not free a slot for the request — transactron/lib/storage.py: ready =
~overflow_valid).  A response returns the row content at request time (or at response time with
read_on_resp), counting the writes of that same cycle exactly when the bank is transparent.
"""

from __future__ import annotations

from collections import deque

from ..comp import CompScenario
from ..propbase import PropBase, make_plan

MEMTYPES = {
    "Memory": None,
    "MultiRead": "MultiReadMemory",
    "XOR": "MultiportXORMemory",
    "XORILVT": "MultiportXORILVTMemory",
    "OneHotILVT": "MultiportOneHotILVTMemory",
}
ILVT = ("XORILVT", "OneHotILVT")


def addr_bits(depth: int) -> int:
    return max(1, (depth - 1).bit_length())


def total_width(cfg) -> int:
    return cfg["width"] * (cfg["elems"] or 1)


def leaf_widths(cfg) -> list:
    """Widths of the scalar leaves of a row, least significant first."""
    if cfg.get("struct"):
        return [f[0] for f in cfg["struct"]]
    return [cfg["width"]] * (cfg["elems"] or 1)


def en_width(cfg) -> int:
    if cfg["gran"] is None:
        return 1
    return (cfg["elems"] or cfg["width"]) // cfg["gran"]


def cfg_facts(cfg) -> dict:
    return {
        "memtype": cfg["memtype"],
        "nw_gt1": cfg["nw"] > 1,
        "nr_gt1": cfg["nr"] > 1,
        "gran_set": cfg["gran"] is not None,
        "gran_multi": en_width(cfg) > 1,  # more than one enable bit
        "addr_trunc": addr_bits(cfg["depth"]) > total_width(cfg),
        "transparent": bool(cfg["transparent"]),
        "read_on_resp": bool(cfg["read_on_resp"]),
        # the bank asks for transparent read ports in both of these modes
        "port_transparent": bool(cfg["transparent"] or cfg["read_on_resp"]),
        "array_shape": bool(cfg["elems"]),
        "array_elem_gt1": bool(cfg["elems"]) and cfg["width"] > 1,
        "multiport_memory": cfg["memtype"] != "Memory",
        "struct_shape": bool(cfg.get("struct")),
        "signed": bool(cfg.get("signed")),
    }


def zones_of(cfg) -> list:
    """Which configuration predicates of the defects known on the unchanged tree hold (DESIGN.md 7)."""
    f = cfg_facts(cfg)
    ilvt = f["memtype"] in ILVT
    z = []
    if ilvt and f["port_transparent"] and f["addr_trunc"]:
        z.append("F3")
    if ilvt and f["gran_multi"] and f["port_transparent"]:
        z.append("F5")
    if ilvt and f["gran_multi"] and f["nw_gt1"]:
        z.append("F6")
    if f["read_on_resp"] and f["gran_multi"]:
        z.append("F7")
    # granularity of array rows: the bank's mask counts elements, the multiport memories count bits
    if f["array_elem_gt1"] and f["gran_set"] and f["multiport_memory"]:
        z.append("N1")
    return z


# zones whose defect is still present on the unchanged tree (known_findings.json); the other zones have been
# repaired and are ordinary configurations
LIVE_ZONES = ("F6",)


class Scen(CompScenario):
    def build(self):
        from amaranth import signed, unsigned
        from amaranth.lib import data
        from amaranth.lib.memory import Memory
        from transactron.lib.storage import MemoryBank
        from transactron.utils.amaranth_ext import memory as tmem

        c = self.cfg
        self.depth, self.nr, self.nw = c["depth"], c["nr"], c["nw"]
        self.tw = total_width(c)
        self.en_w = en_width(c)
        self.gbits = self.tw // self.en_w  # data bits per enable bit
        self.full_mask = (1 << self.en_w) - 1
        self.transparent, self.ror = bool(c["transparent"]), bool(c["read_on_resp"])
        if c.get("struct"):
            shape = data.StructLayout({f"f{k}": (signed(w) if sg else unsigned(w)) for k, (w, sg) in enumerate(c["struct"])})
        elif c["elems"]:
            shape = data.ArrayLayout(c["width"], c["elems"])
        else:
            shape = signed(c["width"]) if c.get("signed") else c["width"]
        mt = Memory if c["memtype"] == "Memory" else getattr(tmem, MEMTYPES[c["memtype"]])
        self.dut = MemoryBank(shape=shape, depth=self.depth, granularity=c["gran"], transparent=self.transparent,
                              read_on_resp=self.ror, read_ports=self.nr, write_ports=self.nw, memory_type=mt)
        self.top.add("dut", self.dut)
        for i in range(self.nr):
            self.caller(f"req{i}", self.dut.read_req[i])
            self.caller(f"resp{i}", self.dut.read_resp[i])
        for j in range(self.nw):
            self.caller(f"wr{j}", self.dut.write[j])
        # data leaves, least significant first (flat: one leaf; ArrayLayout: one per element)
        self.wleaves = [[n for n in self.inp if n.startswith(f"wr{j}.i.data")] for j in range(self.nw)]
        self.rleaves = [[n for n in self.obs if n.startswith(f"resp{i}.o.data")] for i in range(self.nr)]
        self.leaf_ws = leaf_widths(c)

        # reference model
        self.mem = [0] * self.depth
        self.q = [deque() for _ in range(self.nr)]  # entries: {"addr", "val" (request-time modes), "age"}
        # stimulus state
        self.phase_idx = -1
        self.pool = list(range(self.depth))
        self.unready = 0
        self.stall_port = 0
        return self.top

    # ---- helpers ----------------------------------------------------------------------------
    def pack(self, stim, names):
        v, off = 0, 0
        for n, w in zip(names, self.leaf_ws):
            v |= (stim.get(n, 0) & ((1 << w) - 1)) << off
            off += w
        return v

    def bitmask(self, mask):
        bm = 0
        g = (1 << self.gbits) - 1
        for b in range(self.en_w):
            if (mask >> b) & 1:
                bm |= g << (b * self.gbits)
        return bm

    # ---- stimulus -------------------------------------------------------------------------
    def _phase(self, cyc):
        plan = self.cfg["plan"]
        k = 0
        for n, ent in enumerate(plan):
            if ent[0] <= cyc:
                k = n
            else:
                break
        return k, plan[k][1], plan[k][2]

    def _mask(self, rng):
        if self.en_w == 1:  # a single lane: an executed write with an empty mask must write nothing
            return int(rng.random() < 0.7) if self.cfg["gran"] is not None else 1
        r = rng.random()
        if r < 0.2:
            return self.full_mask
        if r < 0.5:
            return 1 << rng.randrange(self.en_w)
        if r < 0.55:
            return 0
        return rng.randint(1, self.full_mask)

    def stimulus(self, rng, cyc):
        k, kind, p = self._phase(cyc)
        if k != self.phase_idx:
            self.phase_idx = k
            if rng.random() < 0.7:
                n = min(self.depth, rng.choice([1, 2, 2, 3, 4]))
                self.pool = sorted(rng.sample(range(self.depth), n))
            else:
                self.pool = list(range(self.depth))
            self.pw = rng.choice([0.2, 0.5, 0.8, 1.0])
            self.stall_port = rng.randrange(self.nr)
        pool = self.pool
        # (request rate, response rate, write rate, probability that a write aims at a pending row)
        preq, presp, pw, aim = {
            "random": (p, 1 - p if p not in (0.0, 1.0) else p, self.pw, 0.3),
            "stall": (0.9, 0.0, self.pw, 0.7),  # responses withheld: the overflow buffer fills
            "release": (0.3, 1.0, self.pw, 0.7),
            "stream": (1.0, 1.0, self.pw, 0.6),  # request + response every cycle
            "fullpush": (1.0, p, self.pw, 0.8),  # keeps two pending, requests pushed against the full port
            "hitpending": (0.6, 0.35, 1.0, 0.95),
            "idle": (0.1, 0.1, 0.1, 0.3),
            # one port's responses are withheld for the whole phase while its rows are written over and over and
            # the other ports keep requesting and responding
            "stallone": (0.9, 0.85, max(self.pw, 0.5), 0.85),
        }[kind]
        stim = {}
        pending_rows = []
        stalled_rows = []
        for i in range(self.nr):
            n = len(self.q[i])
            pr_i = presp
            if kind == "fullpush" and n == 2:
                pr_i = max(presp, 0.5)  # request and response together while the overflow buffer is occupied
            if kind == "stallone" and i == self.stall_port:
                pr_i = 0.0
            stim[f"req{i}.en"] = int(rng.random() < preq)
            stim[f"req{i}.i.addr"] = rng.choice(pool)
            stim[f"resp{i}.en"] = int(rng.random() < pr_i)
            for e in self.q[i]:
                pending_rows.append(e["addr"])
                if kind == "stallone" and i == self.stall_port:
                    stalled_rows.append(e["addr"])
            if stim[f"req{i}.en"]:
                pending_rows.append(stim[f"req{i}.i.addr"])
        if stalled_rows:
            pending_rows = stalled_rows
        used = set()
        for j in range(self.nw):
            en = int(rng.random() < pw)
            a = rng.choice(pending_rows) if pending_rows and rng.random() < aim else rng.choice(pool)
            if en and a in used:  # premise: no two write ports address one row in one cycle
                rest = [x for x in range(self.depth) if x not in used]
                if rest:
                    a = rng.choice(rest)
                else:
                    en = 0
            if en:
                used.add(a)
            stim[f"wr{j}.en"] = en
            stim[f"wr{j}.i.addr"] = a
            # new data differ from the row's present content wherever possible (a stale answer shows)
            cur = self.mem[a]
            for n, lw in zip(self.wleaves[j], self.leaf_ws):
                old = cur & ((1 << lw) - 1)
                cur >>= lw
                r = rng.random()
                v = (old ^ ((1 << lw) - 1)) if r < 0.3 else rng.getrandbits(lw)
                if v == old and rng.random() < 0.8:
                    v = (old + 1) & ((1 << lw) - 1)
                stim[n] = v
            if self.cfg["gran"] is not None:
                stim[f"wr{j}.i.mask"] = self._mask(rng)
        return stim

    # ---- oracle -----------------------------------------------------------------------------
    def check(self, cyc, stim, obs):
        nr, nw = self.nr, self.nw
        mem = self.mem
        # writes executed this cycle
        writes = {}
        for j in range(nw):
            en, done = stim.get(f"wr{j}.en", 0), obs[f"wr{j}.done"]
            self.expect(not done or en, "ran-when-not-callable", f"write {j} ran without a request", port=f"wr{j}")
            if en and not done:
                self.hit("blocked_though_ready")
            if done:
                a = stim.get(f"wr{j}.i.addr", 0)
                self.premise(a < self.depth, f"write {j}: address {a} outside depth {self.depth}")
                self.premise(a not in writes, f"two write ports address row {a} in one cycle")
                mask = stim.get(f"wr{j}.i.mask", 0) & self.full_mask if self.cfg["gran"] is not None else 1
                writes[a] = (j, self.pack(stim, self.wleaves[j]), mask)
        after = list(mem)
        for a, (j, d, mask) in writes.items():
            bm = self.bitmask(mask)
            after[a] = (mem[a] & ~bm) | (d & bm)
        seen_now = after if self.transparent else mem  # what a read "in this cycle" sees

        if cyc == 0:
            if self.depth == 1:
                self.hit("depth_one")
            if self.cfg.get("struct"):
                self.hit("struct_shape")
            if self.cfg.get("signed"):
                self.hit("signed_shape")
            self.hit("memory_type_" + self.cfg["memtype"])
        calls = []
        withheld = [False] * nr  # a response is pending since >= 3 cycles and is not asked for
        for i in range(nr):
            q = self.q[i]
            n = len(q)
            req_en, resp_en = stim.get(f"req{i}.en", 0), stim.get(f"resp{i}.en", 0)
            req_done, resp_done = obs[f"req{i}.done"], obs[f"resp{i}.done"]
            req_ready = n < 2
            if req_en:  # readiness as a requesting caller experiences it
                self.expect(obs[f"req{i}.runnable"] == int(req_ready), "ready-mismatch",
                            f"read_req[{i}] callable={obs[f'req{i}.runnable']} with {n} response(s) pending "
                            f"(resp requested={resp_en})", port=f"req{i}", pending=n)
            self.expect(not req_done or (req_en and req_ready), "ran-when-not-callable",
                        f"read_req[{i}] ran: en={req_en}, pending={n}", port=f"req{i}", pending=n)
            self.expect(not resp_done or (resp_en and n > 0), "ran-when-not-callable",
                        f"read_resp[{i}] ran: en={resp_en}, pending={n}", port=f"resp{i}", pending=n)
            if req_en and req_ready and not req_done:
                self.hit("blocked_though_ready")
            if resp_en and n > 0 and not resp_done:
                self.unready += 1  # no clause of the statement says when a response must be offered
                self.notes["resp_requested_pending_not_done"] = self.unready
            a_req = stim.get(f"req{i}.i.addr", 0)
            if req_done:
                self.premise(a_req < self.depth, f"read_req[{i}]: address {a_req} outside depth {self.depth}")

            if resp_done:
                e = q[0]
                want = seen_now[e["addr"]] if self.ror else e["val"]
                got = self.pack(obs, self.rleaves[i])
                if got != want:
                    self.expect(False, "resp-data-mismatch",
                                f"read_resp[{i}] returned {got}, ideal memory held {want} for row {e['addr']} "
                                f"({'at response time' if self.ror else 'at request time'}, requested {e['age']} cycle(s) ago, "
                                f"{n} pending)", port=f"resp{i}", pending=n, age=e["age"], got=got, want=want,
                                written_now=e["addr"] in writes,
                                partial_now=e["addr"] in writes and writes[e["addr"]][2] != self.full_mask)

            # ---- what fired -------------------------------------------------------------------
            if n == 2:
                self.hit("two_pending")
                if req_en:
                    self.hit("req_refused_at_two_pending")
                    if resp_done:
                        self.hit("req_with_resp_while_overflow_occupied")
            if req_done and resp_done:
                self.hit("req_and_resp_same_cycle")
            if req_done and n == 1 and not resp_done:
                self.hit("overflow_buffer_filled")
            if resp_done and n == 2:
                self.hit("resp_from_overflow")
            if resp_done and q[0]["age"] >= 3:
                self.hit("resp_after_stall")
                if i >= 1:
                    self.hit("resp_after_stall_port_ge1")
                if q[0]["age"] >= 8:
                    self.hit("resp_after_long_stall")
                if q[0]["hits"] >= 2:
                    self.hit("resp_of_row_rewritten_while_stalled")
                if n == 2 and q[1]["hits"] >= 1:
                    self.hit("resp_after_stall_younger_pending_row_written")
            if n > 0 and not resp_en and q[0]["age"] >= 3:
                withheld[i] = True
            for pos, e in enumerate(q):
                if e["addr"] in writes:
                    partial = writes[e["addr"]][2] != self.full_mask
                    served = resp_done and pos == 0
                    if served:
                        self.hit("write_to_pending_row_in_response_cycle")
                    else:
                        self.hit("write_to_pending_row_between_req_and_resp")
                        if e["age"] >= 4:
                            self.hit("write_to_row_pending_since_ge4")
                        e["hits"] += 1
                    self.hit("write_to_older_pending" if (pos == 0 and n == 2) else
                             "write_to_younger_pending" if pos == 1 else "write_to_only_pending")
                    if partial:
                        self.hit("partial_write_to_pending_row")
            if req_done and a_req in writes:
                self.hit("write_to_row_in_request_cycle")
                if writes[a_req][2] != self.full_mask:
                    self.hit("partial_write_to_pending_row")
            calls.append((n, int(req_done), int(resp_done),
                          any(e["addr"] in writes for e in q) or (req_done and a_req in writes)))

            # ---- step the model: response leaves first, then the request joins ----------------
            if resp_done:
                q.popleft()
            for e in q:
                e["age"] += 1
            if req_done:
                q.append({"addr": a_req, "val": seen_now[a_req], "age": 1, "hits": 0})
        for i in range(nr):
            if withheld[i]:
                if any(c[2] for k, c in enumerate(calls) if k != i):
                    self.hit("port_stalled_while_other_port_responds")
                if any(c[1] for k, c in enumerate(calls) if k != i):
                    self.hit("port_stalled_while_other_port_requests")
                if calls[i][0] == 2 and stim.get(f"req{i}.en", 0):
                    self.hit("req_refused_on_long_stalled_port")
        if len(writes) > 1:
            self.hit("simultaneous_writes")
        if any(w[2] != self.full_mask for w in writes.values()):
            self.hit("partial_write")
        self.visit((tuple(calls), len(writes)), nontrivial=any(c[0] == 2 or c[3] for c in calls))
        self.mem = after


class Prop(PropBase):
    ID = "C21"
    tiers = {
        "quick": {"runs": 1000, "selftest_runs": 4, "shrink_budget_s": 5},
        "thorough": {"runs": 20000, "selftest_runs": 32, "shrink_budget_s": 30},
    }
    rule = ("one run = one (transparent, read_on_resp, read ports, write ports, granularity, shape (plain up to 32 bits, "
            "signed, array, struct), memory_type (all five, balanced), depth 1-16) "
            "configuration driven for 60-200 cycles by a seeded phase plan (random / response stall / release / "
            "stream / push against two pending / writes aimed at pending rows / one port stalled for the whole phase "
            "while its rows are rewritten and the other ports stream / idle) over a small per-phase row "
            "pool; distinct = distinct (configuration, per read port (pending count, request ran, response ran, a "
            "pending row written), number of writes); non-trivial = two responses pending or a pending row written")
    expected_cov = ["two_pending", "req_refused_at_two_pending", "req_with_resp_while_overflow_occupied",
                    "req_and_resp_same_cycle", "overflow_buffer_filled", "resp_from_overflow", "resp_after_stall",
                    "write_to_row_in_request_cycle", "write_to_pending_row_between_req_and_resp",
                    "write_to_pending_row_in_response_cycle", "write_to_older_pending", "write_to_younger_pending",
                    "write_to_only_pending", "partial_write", "partial_write_to_pending_row", "simultaneous_writes",
                    "depth_one", "struct_shape", "signed_shape", "memory_type_Memory", "memory_type_MultiRead",
                    "memory_type_XOR", "memory_type_XORILVT", "memory_type_OneHotILVT",
                    "port_stalled_while_other_port_responds", "port_stalled_while_other_port_requests",
                    "req_refused_on_long_stalled_port", "resp_after_long_stall", "resp_after_stall_port_ge1",
                    "resp_after_stall_younger_pending_row_written", "resp_of_row_rewritten_while_stalled",
                    "write_to_row_pending_since_ge4"]
    real = ["transactron.lib.storage.MemoryBank", "amaranth.lib.memory.Memory", "transactron multiport memories (as memory_type)",
            "transactron.lib.adapters.AdapterTrans", "TransactionManager + scheduler", "amaranth pysim"]
    stubs = ["cycle driver (stimulus)", "array + per-port response queue reference model"]
    assumptions = ["addresses stay below depth", "no two write calls address the same row in one cycle (premise)",
                   "rows that were never written read as the memory's initial content (zero)"]
    search_space = "MemoryBank configurations x read_req/read_resp/write call histories with response stalls"

    ZONE_RATE = 0.13
    MIXED_RATE = 0.02

    def _draw(self, rng, big, want):
        memtype = rng.choice(["Memory", "Memory", "MultiRead", "XOR", "XORILVT", "OneHotILVT"])
        if want in ("F3", "F5", "F6"):
            memtype = rng.choice(ILVT)
        elif want == "N1":
            memtype = rng.choice(["MultiRead", "XORILVT", "OneHotILVT"])
        elif want == "F7" and rng.random() < 0.8:
            memtype = "Memory"
        depth = rng.choice([1, 2, 3, 4, 5, 6, 7, 8, 9, 12, 16] + ([17, 24, 32, 33, 40] if big else []))
        width = rng.choice([1, 2, 3, 4, 5, 6, 8, 8, 12, 16, 32] + ([33, 64] if big else []))
        elems, struct, signed = 0, None, False
        r = rng.random()
        if want != "F3" and r < (0.9 if want == "N1" else 0.15):  # ArrayLayout rows: granularity counts elements
            width, elems = rng.choice([(1, 4), (2, 2), (2, 3), (2, 4), (3, 2), (4, 2), (8, 2), (5, 3)])
        elif want is None and r < 0.23:  # StructLayout rows: [[field width, field signed], ...]; no granularity
            struct = [[rng.choice([1, 2, 3, 5, 8]), rng.random() < 0.4] for _ in range(rng.choice([2, 3, 4]))]
            width = sum(f[0] for f in struct)
        elif want is None and r < 0.31 and width >= 2:  # signed rows: no granularity either
            signed = True
        if want == "F3":
            depth, width = rng.choice([5, 6, 8, 9, 12]), 2
        ports = [1, 2, 2, 3] + ([4] if big else [])
        nr = rng.choice(ports)
        nw = 1 if memtype == "MultiRead" else rng.choice(ports)
        gran = None
        if memtype != "XOR" and not struct and not signed and \
                rng.random() < (0.9 if want in ("F5", "F6", "F7", "N1") else 0.45):
            n = elems or width
            divs = [g for g in range(1, n + 1) if n % g == 0]
            gran = rng.choice([1, n // 2 if n % 2 == 0 else 1, rng.choice(divs)])
        return {"memtype": memtype, "depth": depth, "width": width, "elems": elems, "struct": struct, "signed": signed,
                "nr": nr, "nw": nw, "gran": gran, "transparent": rng.random() < 0.5, "read_on_resp": rng.random() < 0.5}

    def gen_config(self, rng, tier, idx):
        big = tier == "thorough"
        r = rng.random()
        if r < self.MIXED_RATE:
            target = "any"
        elif r < self.MIXED_RATE + self.ZONE_RATE:
            target = rng.choice(["F3", "F5", "F6", "F7", "F7", "N1"])
        else:
            target = None
        for _ in range(400):
            cfg = self._draw(rng, big, target if target != "any" else None)
            z = zones_of(cfg)
            live = [x for x in z if x in LIVE_ZONES and x != target]
            if target == "any" or (not live and (target is None or target in z)):
                break
        cycles = rng.randint(60, 260 if big else 180)
        if cfg["memtype"] not in ("Memory", "MultiRead") and cfg["nr"] + cfg["nw"] >= 4:
            cycles = min(cycles, 120)  # many memory blocks to simulate: shorter runs keep the batch time
        cfg["cycles"] = cycles
        cfg["sched"] = rng.choice(["eager", "eager", "rr"])
        cfg["plan"] = make_plan(rng, cycles, ["random", "random", "stall", "release", "stream", "fullpush", "hitpending",
                                              "hitpending", "idle", "stallone", "stallone"], min_len=5, max_len=30)
        return cfg

    def make(self, cfg):
        return Scen(cfg)

    def features(self, cfg, viol):
        f = cfg_facts(cfg)
        f["zone"] = "+".join(z for z in zones_of(cfg) if z in LIVE_ZONES) or "none"  # repaired zones are ordinary
        return f

    def violation_class(self, feats):
        if feats.get("zone", "none") != "none":
            return {"kind": feats["kind"], "zone": feats["zone"]}
        return {"kind": feats["kind"], "zone": "none", "multiport_memory": feats.get("multiport_memory"),
                "read_on_resp": feats.get("read_on_resp"), "gran_multi": feats.get("gran_multi")}

    def cfg_signature(self, cfg):
        return [cfg[k] for k in ("memtype", "depth", "width", "elems", "nr", "nw", "gran", "transparent", "read_on_resp",
                                 "sched")] + [cfg.get("struct"), bool(cfg.get("signed"))]

    def shrink_cfg(self, cfg):
        z0 = [z for z in zones_of(cfg) if z in LIVE_ZONES]
        cands = []
        if cfg["nr"] > 1:
            c = dict(cfg)
            c["nr"] = cfg["nr"] - 1
            cands.append(c)
        if cfg["nw"] > 1:
            c = dict(cfg)
            c["nw"] = cfg["nw"] - 1
            cands.append(c)
        for d in (1, 2, 3, 4, cfg["depth"] - 1):
            if 1 <= d < cfg["depth"]:
                c = dict(cfg)
                c["depth"] = d
                cands.append(c)
        if cfg["gran"] is not None:
            c = dict(cfg)
            c["gran"] = None
            cands.append(c)
        if cfg["memtype"] != "Memory":
            c = dict(cfg)
            c["memtype"] = "Memory"
            cands.append(c)
        if cfg["sched"] != "eager":
            c = dict(cfg)
            c["sched"] = "eager"
            cands.append(c)
        if cfg.get("struct"):
            c = dict(cfg)
            c["struct"] = None
            cands.append(c)
        if cfg.get("signed"):
            c = dict(cfg)
            c["signed"] = False
            cands.append(c)
        for c in cands:
            if [z for z in zones_of(c) if z in LIVE_ZONES] == z0:
                yield c


PROP = Prop()
