"""C03 — a transaction runs only when it is fully enabled."""
import random

from ..coregen.gen import generate_cond
from ..coregen.prop import CoreProp
from ..kernel import h64


class Prop(CoreProp):
    ID = "C03"
    checks = ['C03']
    tiers = {"quick": {"runs": 400, "selftest_runs": 4}, "thorough": {"runs": 8000, "selftest_runs": 32}}
    feat = {'p_val': 0.5, 'p_en': 0.5, 'p_nested': 0.25, 'n_before': (0, 2), 'rdep': True, 'n_conflicts': (0, 1)}
    rule = 'one run = one generated program (1-3 modules, 1-5 transactions, 0-6 methods, call depth <= 3, nested bodies, If/Switch/FSM around bodies and calls, enable_call, validate_arguments, aliases, nonexclusive methods, schedule_before(ready_dependent=True)) under one arbiter and one internal set order, driven for 60-160 cycles by a seeded phase plan (random / all-on contention / single-method stall / flapping / exhaustive valuation sweep when <= 10 one-bit inputs); distinct = distinct (program, arbiter, set of transactions running in a cycle); non-trivial = at least one transaction ran'
    expected_cov = ['transaction_ran', 'ready_but_not_run', 'validated_call_active', 'call_refused_by_validate_arguments', 'concurrent_transactions']

    def gen_config(self, rng, tier, idx):
        cfg = super().gen_config(rng, tier, idx)
        if idx % 5 == 4:  # nested transactions created by condition(): ready dependent on the enclosing body
            prng = random.Random(h64(self.master_seed, self.ID, "cond-program", idx))
            cfg["prog"] = generate_cond(prng)
            cfg["sched"] = "eager"
        return cfg


PROP = Prop()
