"""C07 — eager scheduler wastes no cycle."""
import random

from ..coregen.gen import generate_cond
from ..coregen.prop import CoreProp
from ..kernel import h64


class Prop(CoreProp):
    ID = "C07"
    checks = ['C07']
    scheds = ['eager']
    tiers = {"quick": {"runs": 400, "selftest_runs": 4}, "thorough": {"runs": 8000, "selftest_runs": 32}}
    feat = {'n_conflicts': (0, 2), 'prio': True, 'n_before': (0, 2), 'no_amb': True, 'p_nonex': 0.3, 'p_wrap': 0.4, 'p_self_conflict_excl': 0.3}
    rule = 'one run = one generated program (1-3 modules, 1-5 transactions, 0-6 methods, call depth <= 3, nested bodies, If/Switch/FSM around bodies and calls, enable_call, validate_arguments, aliases, nonexclusive methods, add_conflict and schedule_before relations; no AMBIGUOUS pairs) under one arbiter and one internal set order, driven for 60-160 cycles by a seeded phase plan (random / all-on contention / single-method stall / flapping / exhaustive valuation sweep when <= 10 one-bit inputs); distinct = distinct (program, arbiter, set of transactions running in a cycle); non-trivial = at least one transaction ran'
    expected_cov = ['blocked_by_conflict', 'sharing_transactions_run_together', 'concurrent_transactions', 'cond_design_transaction_ran',
                    'cond_design_enabled_transaction_blocked_by_condition']

    def gen_config(self, rng, tier, idx):
        cfg = super().gen_config(rng, tier, idx)
        if idx % 6 == 5:  # designs with condition(): callers of the enclosing body must not be starved (narrower premise, see scen)
            prng = random.Random(h64(self.master_seed, self.ID, "cond-program", idx))
            cfg["prog"] = generate_cond(prng)
            cfg["sched"] = "eager"
        return cfg


PROP = Prop()
