"""C09 — round-robin scheduler: one grant per component, no starvation."""
from ..coregen.prop import CoreProp


class Prop(CoreProp):
    ID = "C09"
    checks = ['C09']
    scheds = ['rr']
    tiers = {"quick": {"runs": 400, "selftest_runs": 4}, "thorough": {"runs": 8000, "selftest_runs": 32}}
    feat = {'n_conflicts': (0, 3), 'no_amb': True, 'p_nested': 0.0, 'max_trans': 6}
    rule = 'one run = one generated program (1-3 modules, 1-5 transactions, 0-6 methods, call depth <= 3, nested bodies, If/Switch/FSM around bodies and calls, enable_call, validate_arguments, aliases, nonexclusive methods) under one arbiter and one internal set order, driven for 60-160 cycles by a seeded phase plan (random / all-on contention / single-method stall / flapping / exhaustive valuation sweep when <= 10 one-bit inputs); distinct = distinct (program, arbiter, set of transactions running in a cycle); non-trivial = at least one transaction ran'
    expected_cov = ['rr_grant_in_multi_member_component', 'rr_contention', 'rr_waited_full_round']


PROP = Prop()
