"""C20 — Semaphore counts acquisitions."""

from __future__ import annotations

from ..comp import CompScenario
from ..propbase import PropBase, make_plan, phase_at

PORTS = ("acquire", "release", "clear")


class Scen(CompScenario):
    def build(self):
        from transactron.lib.fifo import Semaphore

        self.max = self.cfg["max_count"]
        self.dut = Semaphore(self.max)
        self.top.add("dut", self.dut)
        self.caller("acquire", self.dut.acquire)
        if self.cfg.get("twin"):
            self.twin("acquire", self.dut.acquire)  # two units taking permits through one acquire method
        self.caller("release", self.dut.release)
        self.caller("clear", self.dut.clear)
        self.add_obs("count", self.dut.count)
        self.count = 0  # reference model: acquisitions - releases since the last clear
        self.prev_boundary = False
        return self.top

    # ---- stimulus -------------------------------------------------------------------------
    def stimulus(self, rng, cyc):
        kind, p = phase_at(self.cfg["plan"], cyc)
        pa, pr, pc = {
            "random": (p, 1 - p if p not in (0.0, 1.0) else p, 0.03),
            "fill": (1.0, 0.1, 0.0),
            "drain": (0.1, 1.0, 0.0),
            "pingpong": (1.0, 1.0, 0.0),
            "flush": (0.8, 0.6, 0.3),
            "idle": (0.05, 0.05, 0.01),
        }[kind]
        if kind == "fill" and self.count == self.max:
            pr = 0.5  # ping-pong at the upper boundary once it is reached
        if kind == "drain" and self.count == 0:
            pa = 0.5  # ... and at the lower one
        if pc > 0 and self.count in (0, self.max):
            pc = min(1.0, pc * 2)  # flush placement bias: right after the boundary was reached
        return self.twin_stim(rng, {
            "acquire.en": int(rng.random() < pa),
            "release.en": int(rng.random() < pr),
            "clear.en": int(rng.random() < pc),
        })

    # ---- oracle -----------------------------------------------------------------------------
    def check(self, cyc, stim, obs):
        stim, obs = self.fold_twins(stim, obs)
        cnt, mx = self.count, self.max
        self.expect(obs["count"] == cnt, "count-mismatch",
                    f"count signal {obs['count']}, acquisitions-releases since last clear = {cnt} (max {mx})", port="count")
        # clear readiness is not stated by the property: only "done implies requested" is demanded of it
        exp_ready = {"acquire": cnt < mx, "release": cnt > 0, "clear": True}
        done = {}
        for p in PORTS:
            en = stim.get(f"{p}.en", 0)
            done[p] = obs[f"{p}.done"]
            if en and p != "clear":
                self.expect(obs[f"{p}.runnable"] == int(exp_ready[p]), "ready-mismatch",
                            f"{p} callable={obs[f'{p}.runnable']} at count={cnt}/{mx}", port=p)
            self.expect(not done[p] or (en and exp_ready[p]), "ran-when-not-callable",
                        f"{p}: en={en} ready={exp_ready[p]} done={done[p]} count={cnt}/{mx}", port=p)
            if en and exp_ready[p] and not done[p]:
                self.hit("blocked_though_ready")
        a, r, c = done["acquire"], done["release"], done["clear"]
        if stim.get("acquire.en") and cnt == mx:
            self.hit("acquire_refused_at_max")
        if stim.get("release.en") and cnt == 0:
            self.hit("release_refused_at_zero")
        if a and r:
            self.hit("acquire_and_release_same_cycle")
            if cnt in (1, mx - 1):
                self.hit("both_at_boundary")
        if a and not r and not c and cnt == mx - 1:
            self.hit("reached_max")
        if r and not a and not c and cnt == 1:
            self.hit("reached_zero")
        if c:
            self.hit("clear")
            if a:
                self.hit("clear_with_acquire")
            if r:
                self.hit("clear_with_release")
            if a and r:
                self.hit("clear_with_both")
            if cnt == mx:
                self.hit("clear_at_max")
            if cnt == 0:
                self.hit("clear_at_zero")
        calls = tuple(p for p in PORTS if done[p])
        self.visit((cnt, calls), nontrivial=bool(calls) and (cnt in (0, 1, mx - 1, mx) or bool(c)))
        # step the model; clear wins
        if c:
            self.count = 0
        else:
            self.count = cnt + int(a) - int(r)


class Prop(PropBase):
    ID = "C20"
    tiers = {
        "quick": {"runs": 480, "selftest_runs": 4},
        "thorough": {"runs": 12000, "selftest_runs": 32},
    }
    rule = ("one run = one max_count driven for 80-260 cycles by a seeded phase plan (random / fill / drain / ping-pong / "
            "flush / idle), any subset of acquire/release/clear requested per cycle; distinct = distinct (max_count, "
            "count, executed call set); non-trivial = a call executed at count 0, 1, max-1 or max, or clear ran")
    expected_cov = ["acquire_refused_at_max", "release_refused_at_zero", "acquire_and_release_same_cycle",
                    "both_at_boundary", "reached_max", "reached_zero", "clear_with_acquire", "clear_with_release",
                    "clear_with_both", "clear_at_max", "clear_at_zero"]
    real = ["transactron.lib.fifo.Semaphore", "transactron.lib.adapters.AdapterTrans", "TransactionManager + scheduler",
            "amaranth pysim"]
    stubs = ["cycle driver (stimulus)", "integer counter reference model"]
    search_space = "maximum counts and acquire/release/clear call histories with boundary and flush faults"
    assumptions = ["'count below maximum' / 'count above zero' are judged on the count at the beginning of the cycle; of the calls "
                   "executed in one cycle `clear` is applied last"]

    def gen_config(self, rng, tier, idx):
        big = tier == "thorough"
        mx = rng.choice([1, 2, 3, 4, 5, 6, 7, 8, 9] + ([10, 15, 16, 17] if big else []))
        cycles = rng.randint(80, 400 if big else 260)
        kinds = ["random", "random", "fill", "drain", "pingpong", "flush", "flush", "idle"]
        return {"max_count": mx, "cycles": cycles, "twin": int(rng.random() < 0.3), "sched": rng.choice(["eager", "eager", "rr"]),
                "plan": make_plan(rng, cycles, kinds, min_len=4, max_len=30)}

    def make(self, cfg):
        return Scen(cfg)

    def features(self, cfg, viol):
        return {"port": (viol.get("info") or {}).get("port")}

    def cfg_signature(self, cfg):
        return [cfg["max_count"], cfg["sched"], cfg.get("twin", 0)]

    def shrink_cfg(self, cfg):
        for d in (1, 2, cfg["max_count"] // 2, cfg["max_count"] - 1):
            if 1 <= d < cfg["max_count"]:
                c = dict(cfg)
                c["max_count"] = d
                yield c
        if cfg["sched"] != "eager":
            c = dict(cfg)
            c["sched"] = "eager"
            yield c


PROP = Prop()
