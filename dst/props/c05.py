"""C05 — call arguments and results are routed to the right party."""
from ..coregen.prop import CoreProp


class Prop(CoreProp):
    ID = "C05"
    checks = ['C05']
    tiers = {"quick": {"runs": 400, "selftest_runs": 4}, "thorough": {"runs": 8000, "selftest_runs": 32}}
    feat = {'p_alias': 0.4, 'p_nonex': 0.35, 'argsrc_din': 0.25}
    rule = 'one run = one generated program (1-3 modules, 1-5 transactions, 0-6 methods, call depth <= 3, nested bodies, If/Switch/FSM around bodies and calls, enable_call, validate_arguments, aliases, nonexclusive methods, OR / sum combiners) under one arbiter and one internal set order, driven for 60-160 cycles by a seeded phase plan (random / all-on contention / single-method stall / flapping / exhaustive valuation sweep when <= 10 one-bit inputs); distinct = distinct (program, arbiter, set of transactions running in a cycle); non-trivial = at least one transaction ran'
    expected_cov = ['exclusive_argument_routed', 'argument_muxed_among_several_sites', 'combiner_several_active', 'concurrent_transactions']


PROP = Prop()
