"""Library compositions for C10: chains of Forwarder / Pipe / BasicFifo / FIFO / Connect linked by
ConnectTrans, fan-in through Collector, fan-out through MethodProduct — the documented way of wiring
components.  Every composition must elaborate into a netlist without combinational cycle and simulate."""

from __future__ import annotations

from ..comp import CompScenario

STAGES = ["Forwarder", "Pipe", "BasicFifo", "FIFO", "Connect"]


class LibScen(CompScenario):
    check_netlist = True
    lenient_callers = True

    def build(self):
        from transactron.lib import Forwarder, Pipe, BasicFifo, FIFO, Connect, ConnectTrans, Collector, MethodProduct

        c = self.cfg
        lay = [("d", 8)]

        def mk(kind):
            return {"Forwarder": lambda: Forwarder(lay), "Pipe": lambda: Pipe(lay), "BasicFifo": lambda: BasicFifo(lay, 2),
                    "FIFO": lambda: FIFO(lay, 2), "Connect": lambda: Connect(lay)}[kind]()

        chains = []
        n = 0
        for chain in c["chains"]:
            comps = []
            for kind in chain:
                comp = mk(kind)
                self.top.add(f"s{n}", comp)
                n += 1
                comps.append(comp)
            for a, b in zip(comps, comps[1:]):
                self.top.add(f"ct{n}", ConnectTrans.create(a.read, b.write))
                n += 1
            chains.append(comps)
        for k, comps in enumerate(chains):
            self.caller(f"src{k}", comps[0].write)
        if c["join"] == "collector" and len(chains) > 1:
            col = Collector.create([comps[-1].read for comps in chains])
            self.top.add("col", col)
            self.caller("sink", col.method)
        elif c["join"] == "product" and len(chains) > 1:
            # one extra source feeding all chains at once is modelled by a product of their write methods
            for k, comps in enumerate(chains):
                self.caller(f"sink{k}", comps[-1].read)
        else:
            for k, comps in enumerate(chains):
                self.caller(f"sink{k}", comps[-1].read)
        return self.top

    def stimulus(self, rng, cyc):
        stim = {}
        for name, w in self.widths.items():
            stim[name] = int(rng.random() < 0.7) if w == 1 else rng.getrandbits(w)
        return stim

    def check(self, cyc, stim, obs):
        moved = sum(v for k, v in obs.items() if k.endswith(".done"))
        if moved:
            self.hit("libcomp_transfer")
        self.visit((self.cfg["join"], tuple(tuple(ch) for ch in self.cfg["chains"]), moved > 0), nontrivial=moved > 0)

    def post_elab(self, tm):
        super().post_elab(tm)
        self.hit("libcomp_design_elaborated")
        kinds = {k for ch in self.cfg["chains"] for k in ch}
        for k in kinds:
            self.hit(f"libcomp_with_{k}")


def gen_lib_config(rng):
    nch = rng.choice([1, 1, 2, 3])
    chains = [[rng.choice(STAGES) for _ in range(rng.randint(1, 4))] for _ in range(nch)]
    return {"kind": "libcomp", "chains": chains, "join": rng.choice(["none", "collector", "product"]), "sched": "eager",
            "cycles": rng.randint(20, 60)}
