"""Library compositions for C10: chains of Forwarder / Pipe / BasicFifo / FIFO / Connect linked by
ConnectTrans, fan-in through Collector, fan-out through MethodProduct — the documented way of wiring
components.  Every composition must elaborate into a netlist without combinational cycle and simulate."""

from __future__ import annotations

from ..comp import CompScenario

STAGES = ["Forwarder", "Pipe", "BasicFifo", "FIFO", "Connect"]


class PeekStub:
    """Two (or three) hand-written transactions around the first component of a chain: one peeks it, one writes
    it, and they are in one conflict component through a shared exclusive method (directly, or through a third
    transaction that shares one method with each) - the peeker defined before or after the writer."""

    def __init__(self, comp, shared, shared2, spec, sigs):
        self.comp, self.shared, self.shared2, self.spec, self.sigs = comp, shared, shared2, spec, sigs

    def elaborate(self, platform):
        from transactron import TModule, Transaction

        m = TModule()
        sp, sg = self.spec, self.sigs

        def peeker():
            with Transaction(name="peeker").body(m, ready=sg["peek"]):
                self.shared.iface(m)
                m.d.comb += sg["peeked"].eq(self.comp.peek(m).d)

        def writer():
            with Transaction(name="writer").body(m, ready=sg["write"]):
                (self.shared2 if sp["via"] == "chain" else self.shared).iface(m)
                self.comp.write(m, d=sg["data"])

        def third():
            with Transaction(name="third").body(m, ready=sg["third"]):
                self.shared.iface(m)
                self.shared2.iface(m)

        parts = [peeker, writer] if sp["order"] == "first" else [writer, peeker]
        if sp["via"] == "chain":
            parts.insert(sp.get("third_at", 1), third)
        for f in parts:
            f()
        return m


class LibScen(CompScenario):
    check_netlist = True
    lenient_callers = True

    def build(self):
        from transactron.lib import Forwarder, Pipe, BasicFifo, FIFO, Connect, ConnectTrans, Collector, MethodProduct

        c = self.cfg
        lay = [("d", 8)]

        def mk(kind):
            return {"Forwarder": lambda: Forwarder(lay), "Pipe": lambda: Pipe(lay), "BasicFifo": lambda: BasicFifo(lay, 2),
                    "FIFO": lambda: FIFO(lay, 2), "Connect": lambda: Connect(lay)}[kind]()

        chains = []
        n = 0
        for chain in c["chains"]:
            comps = []
            for kind in chain:
                comp = mk(kind)
                self.top.add(f"s{n}", comp)
                n += 1
                comps.append(comp)
            for a, b in zip(comps, comps[1:]):
                self.top.add(f"ct{n}", ConnectTrans.create(a.read, b.write))
                n += 1
            chains.append(comps)
        peek = c.get("peek")
        for k, comps in enumerate(chains):
            if peek and peek["chain"] == k and c["chains"][k][0] in ("Forwarder", "Pipe", "BasicFifo"):
                from amaranth import Elaboratable, Signal
                from transactron.lib import Adapter

                sigs = {"peek": Signal(name="p_peek"), "write": Signal(name="p_write"), "third": Signal(name="p_third"),
                        "data": Signal(8, name="p_data"), "peeked": Signal(8, name="p_peeked")}
                for nm in ("peek", "write", "third", "data"):
                    self.add_input(f"pk.{nm}", sigs[nm])
                self.add_obs("pk.peeked", sigs["peeked"])
                shared, shared2 = Adapter(name="shared"), Adapter(name="shared2")
                for nm, ad in (("shared", shared), ("shared2", shared2)):
                    self.top.add(nm, ad)
                    self.add_input(f"{nm}.en", ad.en)
                    self.add_obs(f"{nm}.done", ad.done)
                stub = type("PeekStubE", (PeekStub, Elaboratable), {})(comps[0], shared, shared2, peek, sigs)
                self.top.add("peekstub", stub)
                self.hit("libcomp_peeker_conflicting_with_writer")
                continue
            self.caller(f"src{k}", comps[0].write)
        if c["join"] == "collector" and len(chains) > 1:
            col = Collector.create([comps[-1].read for comps in chains])
            self.top.add("col", col)
            self.caller("sink", col.method)
        elif c["join"] == "product" and len(chains) > 1:
            # one extra source feeding all chains at once is modelled by a product of their write methods
            for k, comps in enumerate(chains):
                self.caller(f"sink{k}", comps[-1].read)
        else:
            for k, comps in enumerate(chains):
                self.caller(f"sink{k}", comps[-1].read)
        return self.top

    def stimulus(self, rng, cyc):
        stim = {}
        for name, w in self.widths.items():
            stim[name] = int(rng.random() < 0.7) if w == 1 else rng.getrandbits(w)
        return stim

    def check(self, cyc, stim, obs):
        moved = sum(v for k, v in obs.items() if k.endswith(".done"))
        if moved:
            self.hit("libcomp_transfer")
        self.visit((self.cfg["join"], tuple(tuple(ch) for ch in self.cfg["chains"]), moved > 0), nontrivial=moved > 0)

    def post_elab(self, tm):
        super().post_elab(tm)
        self.hit("libcomp_design_elaborated")
        kinds = {k for ch in self.cfg["chains"] for k in ch}
        for k in kinds:
            self.hit(f"libcomp_with_{k}")


def gen_lib_config(rng):
    nch = rng.choice([1, 1, 2, 3])
    chains = [[rng.choice(STAGES) for _ in range(rng.randint(1, 4))] for _ in range(nch)]
    cfg = {"kind": "libcomp", "chains": chains, "join": rng.choice(["none", "collector", "product"]), "sched": "eager",
           "cycles": rng.randint(20, 60)}
    if rng.random() < 0.4:
        # peek users: a peeking and a writing transaction of the first component in one conflict component
        k = rng.randrange(nch)
        if chains[k][0] in ("FIFO", "Connect") and rng.random() < 0.8:
            chains[k][0] = rng.choice(["Forwarder", "Forwarder", "Pipe", "BasicFifo"])
        cfg["peek"] = {"chain": k, "order": rng.choice(["first", "last"]), "via": rng.choice(["direct", "chain"]),
                       "third_at": rng.randrange(3)}
    return cfg
