"""C27 — CircularAllocator hands out and takes back identifiers in ring order."""

from __future__ import annotations

from ..comp import CompScenario
from ..propbase import PropBase, make_plan, phase_at


class Scen(CompScenario):
    def build(self):
        from transactron.lib.allocators import CircularAllocator

        c = self.cfg
        self.n = c["entries"]
        self.ma = c["max_alloc"]
        self.mf = c["max_free"]
        # validation: on (explicitly or through the constructor default) or off.  Without validation the premise is
        # that only fitting counts are requested ("the count argument needs to be verified using external logic");
        # ring order, oldest identifiers and the exact count are then judged as with validation
        self.validate = bool(c.get("validate", 1))
        if not self.validate:
            self.dut = CircularAllocator(self.n, self.ma, self.mf, with_validate_arguments=False)
            self.hit("no_validation_run")
        elif c.get("ctor_defaults") and self.ma == 1 and self.mf == 1:
            self.dut = CircularAllocator(self.n)  # max_alloc = max_free = 1, with_validate_arguments = True by default
            self.hit("constructor_defaults_run")
        elif c.get("ctor_defaults"):
            self.dut = CircularAllocator(self.n, self.ma, self.mf)
            self.hit("constructor_defaults_run")
        else:
            self.dut = CircularAllocator(self.n, self.ma, self.mf, with_validate_arguments=True)
        self.top.add("dut", self.dut)
        self.caller("alloc", self.dut.alloc)
        self.caller("free", self.dut.free)
        self.caller("clear", self.dut.clear)
        self.add_obs("sig.allocated", self.dut.allocated)
        self.add_obs("sig.start_idx", self.dut.start_idx)
        self.add_obs("sig.end_idx", self.dut.end_idx)
        # ring model
        self.start = 0
        self.end = 0
        self.count = 0
        self.ever_wrapped = False
        return self.top

    # ---- stimulus -------------------------------------------------------------------------
    def _count(self, rng, mx, limit, kind, p):
        """count argument of a call that may take at most `limit` identifiers (space / allocated)."""
        fit = min(mx, limit)
        r = rng.random()
        if kind == "refuse":
            if r < 0.45 and limit + 1 <= mx:
                return limit + 1  # one more than fits: must be refused
            if r < 0.75:
                return fit  # just fits
            return rng.randint(0, mx)
        if kind in ("fill", "drain", "pingpong"):
            if r < 0.6:
                return fit
            if r < 0.7:
                return min(mx, fit + 1)
            return rng.randint(0, mx)
        if r < 0.1:
            return 0
        if r < 0.3:
            return fit
        if r < 0.4:
            return mx
        return rng.randint(0, mx)

    def stimulus(self, rng, cyc):
        kind, p = phase_at(self.cfg["plan"], cyc)
        pa, pf, pc = {
            "random": (p, 1 - p if p not in (0.0, 1.0) else p, 0.02),
            "fill": (1.0, 0.15, 0.0),
            "drain": (0.15, 1.0, 0.0),
            "pingpong": (1.0, 1.0, 0.0),
            "refuse": (0.8, 0.8, 0.0),
            "flush": (0.8, 0.7, 0.3),
            "idle": (0.05, 0.05, 0.01),
        }[kind]
        space = self.n - self.count
        if kind == "refuse":
            # aim at the boundary where validation matters: nearly full for alloc, nearly empty for free
            if space > self.ma and rng.random() < p:
                pf = 0.1
            elif self.count > self.mf and rng.random() < 1 - p:
                pa = 0.1
        stim = {
            "alloc.en": int(rng.random() < pa),
            "free.en": int(rng.random() < pf),
            "clear.en": int(rng.random() < pc),
            "alloc.i.count": self._count(rng, self.ma, space, kind, p),
            "free.i.count": self._count(rng, self.mf, self.count, kind, p),
        }
        if not self.validate:  # premise of the unvalidated allocator: only counts that fit
            stim["alloc.i.count"] = min(stim["alloc.i.count"], space)
            stim["free.i.count"] = min(stim["free.i.count"], self.count)
        return stim

    # ---- oracle -----------------------------------------------------------------------------
    def check(self, cyc, stim, obs):
        n, ma, mf = self.n, self.ma, self.mf
        cnt, start, end = self.count, self.start, self.end
        space = n - cnt
        a_en, f_en, c_en = stim.get("alloc.en", 0), stim.get("free.en", 0), stim.get("clear.en", 0)
        a_cnt, f_cnt = stim.get("alloc.i.count", 0), stim.get("free.i.count", 0)
        self.premise(0 <= a_cnt <= ma and 0 <= f_cnt <= mf, "count argument outside range(max+1)")
        a_done, f_done, c_done = obs["alloc.done"], obs["free.done"], obs["clear.done"]
        if not self.validate:
            self.premise(not a_en or a_cnt <= space, f"alloc(count={a_cnt}) requested without validation with {space} free")
            self.premise(not f_en or f_cnt <= cnt, f"free(count={f_cnt}) requested without validation with {cnt} allocated")

        # the allocated count is tracked exactly; the statement does not mention the pointer signals (ring order
        # is judged on the identifiers alloc / free return) -- a deviating pointer is only counted
        self.expect(obs["sig.allocated"] == cnt, "allocated-mismatch",
                    f"allocated signal {obs['sig.allocated']} but model has {cnt}/{n} allocated", port="allocated")
        if obs["sig.end_idx"] != end:
            self.hit("end_idx_differs_from_model")
        if cnt > 0 and obs["sig.start_idx"] != start:
            self.hit("start_idx_differs_from_model")

        # calls that would overflow / underflow are never accepted; calls that fit are accepted
        a_fits, f_fits = a_cnt <= space, f_cnt <= cnt
        a_ok = a_fits and space > 0
        f_ok = f_fits and cnt > 0
        self.expect(not a_done or a_en, "ran-when-not-requested", "alloc done without request", port="alloc")
        self.expect(not f_done or f_en, "ran-when-not-requested", "free done without request", port="free")
        self.expect(not c_done or c_en, "ran-when-not-requested", "clear done without request", port="clear")
        # "would overflow / underflow" is judged against the state at the beginning of the cycle, as the documentation
        # of alloc / free defines a valid count ("must be less or equal to the number of available free identifiers" /
        # "... of allocated identifiers", allocated = the registered count) and as free is specified to return
        # *allocated* identifiers: a free(count) that fits only thanks to an alloc executed in the same cycle hands
        # back identifiers nobody held yet (seeded change C27-5), an alloc that fits only thanks to a same-cycle free
        # hands out identifiers that are still held in this cycle.  The cases are counted separately as probes.
        if a_en and not a_fits:
            if a_cnt <= space + (f_cnt if f_done else 0):
                self.hit("alloc_requested_fitting_only_with_same_cycle_free")
            self.expect(not obs["alloc.runnable"] and not a_done, "overflow-accepted",
                        f"alloc(count={a_cnt}) accepted with {cnt}/{n} allocated"
                        + (f" and free(count={f_cnt}) executed" if f_done else ""), port="alloc")
        if f_en and not f_fits:
            if f_cnt <= cnt + (a_cnt if a_done else 0):
                self.hit("free_requested_fitting_only_with_same_cycle_alloc")
            self.expect(not obs["free.runnable"] and not f_done, "underflow-accepted",
                        f"free(count={f_cnt}) accepted with {cnt}/{n} allocated"
                        + (f" and alloc(count={a_cnt}) executed" if a_done else ""), port="free")
        # the statement only forbids accepting calls that would overflow / underflow; a fitting call that is
        # refused is counted, not judged
        if a_en and a_ok and not obs["alloc.runnable"]:
            self.hit("fitting_alloc_refused")
        if f_en and f_ok and not obs["free.runnable"]:
            self.hit("fitting_free_refused")
        if c_en and not obs["clear.runnable"]:
            self.hit("clear_refused")
        for p, en, ok, done in (("alloc", a_en, a_ok, a_done), ("free", f_en, f_ok, f_done), ("clear", c_en, True, c_done)):
            if en and ok and not done:
                self.hit("blocked_though_ready")

        # returned identifiers
        if a_done:
            got = [obs.get(f"alloc.o.idents.{i}", 0) for i in range(a_cnt)]
            want = [(end + i) % n for i in range(a_cnt)]
            self.expect(got == want, "alloc-idents-mismatch",
                        f"alloc(count={a_cnt}) returned {got}, expected {want} (newest end {end}, n={n})", port="alloc")
        if f_done:
            got = [obs.get(f"free.o.idents.{i}", 0) for i in range(f_cnt)]
            want = [(start + i) % n for i in range(f_cnt)]
            self.expect(got == want, "free-idents-mismatch",
                        f"free(count={f_cnt}) returned {got}, expected the oldest {want} (start {start}, n={n})", port="free")
        # new_end_idx / new_start_idx as the docstrings of alloc / free define them: "first identifier after the last
        # allocated (freed) one".  A call with count 0 allocates (frees) nothing, the docstring does not cover it: counted
        if a_done:
            got, want = obs.get("alloc.o.new_end_idx", 0), (end + a_cnt) % n
            if a_cnt:
                self.expect(got == want, "new-end-idx-mismatch",
                            f"alloc(count={a_cnt}) returned new_end_idx={got}; the last allocated identifier is "
                            f"{(end + a_cnt - 1) % n}, the first after it {want} (n={n})", port="alloc")
                self.hit("new_end_idx_judged")
                if end + a_cnt >= n:
                    self.hit("new_end_idx_wrapped")
            elif got != want:
                self.hit("new_end_idx_at_count_0_differs_from_end")
        if f_done:
            got, want = obs.get("free.o.new_start_idx", 0), (start + f_cnt) % n
            if f_cnt:
                self.expect(got == want, "new-start-idx-mismatch",
                            f"free(count={f_cnt}) returned new_start_idx={got}; the last freed identifier is "
                            f"{(start + f_cnt - 1) % n}, the first after it {want} (n={n})", port="free")
                self.hit("new_start_idx_judged")
                if start + f_cnt >= n:
                    self.hit("new_start_idx_wrapped")
            elif got != want:
                self.hit("new_start_idx_at_count_0_differs_from_start")

        # ---- what fired
        if a_en and not a_fits and space > 0:
            self.hit("alloc_refused_overflow")
        if a_en and space == 0:
            self.hit("alloc_refused_full")
        if f_en and not f_fits and cnt > 0:
            self.hit("free_refused_underflow")
        if f_en and cnt == 0:
            self.hit("free_refused_empty")
        if a_done and a_cnt == space:
            self.hit("alloc_exact_fit")
        if f_done and f_cnt == cnt:
            self.hit("free_exact_all")
        if a_done and f_done and (a_cnt or f_cnt):
            self.hit("alloc_and_free_same_cycle")
            if a_cnt == space and f_cnt == cnt and a_cnt and f_cnt:
                self.hit("alloc_and_free_both_exact")
        if a_done and a_cnt == 0:
            self.hit("alloc_zero")
        if a_done and a_cnt > 1 and 0 < n - end < a_cnt:
            self.hit("alloc_multi_across_wrap")
        if a_done and a_cnt > 0 and end + a_cnt == n:
            self.hit("alloc_ends_at_wrap")
        if f_done and f_cnt > 1 and 0 < n - start < f_cnt:
            self.hit("free_multi_across_wrap")
        if f_done and f_cnt > 0 and start + f_cnt == n:
            self.hit("free_ends_at_wrap")
        if c_done:
            self.hit("clear")
            if a_done and a_cnt:
                self.hit("clear_with_alloc")
            if f_done and f_cnt:
                self.hit("clear_with_free")
            if cnt == n:
                self.hit("clear_at_full")
        if n & (n - 1) and a_done and a_cnt and end + a_cnt >= n:
            self.hit("wrap_non_power_of_two")
        if (a_done and a_cnt >= 4) or (f_done and f_cnt >= 4):
            self.hit("count_4_or_more")
        if (a_done and a_cnt == n) or (f_done and f_cnt == n):
            self.hit("count_equals_entries")
        if not self.validate:
            if a_done and a_cnt == space and a_cnt:
                self.hit("no_validation_alloc_exact_fit")
            if f_done and f_cnt == cnt and f_cnt:
                self.hit("no_validation_free_exact_all")
            if a_done and f_done and a_cnt and f_cnt:
                self.hit("no_validation_alloc_and_free_same_cycle")
            if a_done and a_cnt > 1 and 0 < n - end < a_cnt:
                self.hit("no_validation_alloc_multi_across_wrap")

        calls = (a_cnt if a_done else -1, f_cnt if f_done else -1, c_done)
        boundary = cnt in (0, 1, n - 1, n) or (a_done and end + a_cnt >= n) or (f_done and start + f_cnt >= n)
        self.visit((cnt, start, calls, self.validate), nontrivial=bool(a_done or f_done or c_done) and bool(boundary or c_done))

        # ---- step the model: alloc and free act on the state of the cycle start, clear last
        if a_done:
            self.end = (end + a_cnt) % n
            self.count += a_cnt
        if f_done:
            self.start = (start + f_cnt) % n
            self.count -= f_cnt
        if c_done:
            self.start = self.end = self.count = 0


class Prop(PropBase):
    ID = "C27"
    tiers = {
        "quick": {"runs": 360, "selftest_runs": 4},
        "thorough": {"runs": 28000, "selftest_runs": 32},
    }
    rule = ("one run = one (entries, max_alloc, max_free up to 5 and up to entries) configuration with argument validation "
            "(explicit or by constructor default) or (30 %) without it -- then only fitting counts are requested (premise) -- "
            "driven for 80-260 cycles by a seeded phase plan (random / fill / drain / ping-pong / refuse / flush / idle); distinct = distinct "
            "(configuration, allocated count, start pointer, executed calls with their counts); non-trivial = a call "
            "executed at allocated in {0, 1, entries-1, entries}, or crossing the modulo boundary, or clear ran")
    expected_cov = ["alloc_refused_overflow", "alloc_refused_full", "free_refused_underflow", "free_refused_empty",
                    "alloc_exact_fit", "free_exact_all", "alloc_and_free_same_cycle", "alloc_and_free_both_exact",
                    "free_requested_fitting_only_with_same_cycle_alloc", "alloc_requested_fitting_only_with_same_cycle_free",
                    "alloc_zero", "alloc_multi_across_wrap", "alloc_ends_at_wrap", "free_multi_across_wrap",
                    "free_ends_at_wrap", "clear_with_alloc", "clear_with_free", "clear_at_full", "wrap_non_power_of_two",
                    "no_validation_run", "constructor_defaults_run", "new_end_idx_judged", "new_end_idx_wrapped",
                    "new_start_idx_judged", "new_start_idx_wrapped", "count_4_or_more", "count_equals_entries",
                    "no_validation_alloc_exact_fit", "no_validation_free_exact_all",
                    "no_validation_alloc_and_free_same_cycle", "no_validation_alloc_multi_across_wrap"]
    real = ["transactron.lib.allocators.CircularAllocator", "transactron.utils.amaranth_ext.functions.mod_add",
            "validate_arguments in TransactionManager", "transactron.lib.adapters.AdapterTrans",
            "TransactionManager + scheduler", "amaranth pysim"]
    stubs = ["cycle driver (stimulus)", "ring reference model (start, end, count)"]
    assumptions = ["alloc / free return identifiers relative to the ring state at the beginning of the cycle; of the calls executed "
                   "in one cycle clear is applied last",
                   "'would overflow / underflow' is judged against the allocated count at the beginning of the cycle (the documented "
                   "bound on count), also when an alloc / free executed in the same cycle would make up the difference; the start_idx / end_idx signals are not judged (ring order is judged on returned identifiers)",
                   "the returned new_end_idx / new_start_idx are judged as the method docstrings define them (first identifier "
                   "after the last allocated / freed one) for calls with count > 0; at count 0 they are only counted",
                   "without validation (with_validate_arguments=False) only counts that fit at the beginning of the cycle are "
                   "requested (premise, as the constructor documentation demands external verification of count)"]
    search_space = ("CircularAllocator configurations (entries incl. 1 and non-powers of two, max_alloc, max_free) and "
                    "alloc/free/clear call histories with counts at, below and one above the space left")

    def gen_config(self, rng, tier, idx):
        big = tier == "thorough"
        n = rng.choice([1, 2, 3, 4, 5, 6, 7, 8, 9, 3, 5, 6, 7] + ([10, 11, 12, 13, 15, 16, 17] if big else []))
        ma = rng.randint(1, min(3, n))
        mf = rng.randint(1, min(3, n))
        cycles = rng.randint(80, 400 if big else 260)
        kinds = ["random", "random", "fill", "drain", "pingpong", "refuse", "refuse", "flush", "idle"]
        cfg = {"entries": n, "max_alloc": ma, "max_free": mf, "cycles": cycles,
               "sched": rng.choice(["eager", "eager", "rr"]), "plan": make_plan(rng, cycles, kinds)}
        # a share of the runs: larger per-call limits (up to 5), also equal to entries
        r = rng.random()
        if r < 0.2:
            cfg["max_alloc"], cfg["max_free"] = rng.randint(1, min(5, n)), rng.randint(1, min(5, n))
        elif r < 0.35:
            cfg["max_alloc"] = cfg["max_free"] = min(5, n)
        elif r < 0.45:
            cfg["max_alloc" if rng.random() < 0.5 else "max_free"] = min(5, n)
        cfg["validate"] = int(rng.random() >= 0.3)
        cfg["ctor_defaults"] = int(rng.random() < 0.3)
        return cfg

    def make(self, cfg):
        return Scen(cfg)

    def features(self, cfg, viol):
        n = cfg["entries"]
        return {"port": (viol.get("info") or {}).get("port"), "pow2": not (n & (n - 1)), "validate": cfg.get("validate", 1)}

    def cfg_signature(self, cfg):
        return [cfg["entries"], cfg["max_alloc"], cfg["max_free"], cfg["sched"], cfg.get("validate", 1), cfg.get("ctor_defaults", 0)]

    def shrink_cfg(self, cfg):
        # counts in the recorded stimulus must stay within range(max+1): only entries and scheduler shrink
        n = cfg["entries"]
        for d in (n - 1, n - 2):
            if d >= max(cfg["max_alloc"], cfg["max_free"], 1):
                c = dict(cfg)
                c["entries"] = d
                yield c
        if cfg["sched"] != "eager":
            c = dict(cfg)
            c["sched"] = "eager"
            yield c


PROP = Prop()
