"""C04 — methods execute exactly when called by a running caller."""
import random

from ..coregen.gen import generate_cond
from ..coregen.prop import CoreProp
from ..kernel import h64


class Prop(CoreProp):
    ID = "C04"
    checks = ["C04"]
    tiers = {"quick": {"runs": 400, "selftest_runs": 4}, "thorough": {"runs": 8000, "selftest_runs": 32}}
    feat = {"n_conflicts": (0, 2), "prio": True, "n_before": (0, 1)}
    rule = ("one run = one generated program (1-3 modules, 1-5 transactions, 0-6 methods, call depth <= 3, nested bodies, "
            "If/Switch/FSM around bodies and calls, enable_call, aliases, nonexclusive methods) under one arbiter and one "
            "internal set order, driven for 60-160 cycles; distinct = distinct (program, arbiter, set of transactions running in a "
            "cycle); non-trivial = at least one transaction ran")
    expected_cov = ["method_ran", "nonexclusive_method_multiple_callers", "nested_body_ran", "concurrent_transactions"]

    def gen_config(self, rng, tier, idx):
        cfg = super().gen_config(rng, tier, idx)
        if idx % 4 == 3:  # nested transactions created by condition(): branches never run without their body
            prng = random.Random(h64(self.master_seed, self.ID, "cond-program", idx))
            cfg["prog"] = generate_cond(prng)
            cfg["sched"] = "eager"
        return cfg


PROP = Prop()
