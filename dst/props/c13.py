"""C13 — simultaneous methods run together and exchange data (Connect, simultaneous())."""

from __future__ import annotations

from amaranth import *

from ..comp import CompScenario
from ..propbase import PropBase, make_plan, phase_at


class Stub(Elaboratable):
    """Two callers (transactions) around a Connect / a pair of simultaneous methods / a pair of
    simultaneous transactions; each caller also calls 0-2 other methods with free readiness."""

    def __init__(self, scen):
        self.s = scen

    def elaborate(self, platform):
        from transactron import TModule, Transaction, def_method

        s, c = self.s, self.s.cfg
        m = TModule()
        kind = c["kind"]
        names = ["A", "B"]
        s.trans = {}
        for side, nm in enumerate(names):
            if side == 1 and c.get("lonely"):
                continue
            t = Transaction(name=f"T{nm}")
            s.trans[nm] = t
        if kind == "sim_methods":
            for side, nm in enumerate(names):
                meth = s.pair[side]

                off = s.sig[f"off{nm}"]

                def define(meth=meth, off=off, rdy=s.sig[f"mrdy{nm}"]):
                    @def_method(m, meth, ready=rdy)
                    def _(x):
                        return {"y": x + off}

                define()
            s.pair[0].simultaneous(s.pair[1])
        if kind == "sim_mt":
            # a method related by simultaneous() to a plain (not nested) transaction
            @def_method(m, s.pair[0], ready=s.sig["mrdyA"])
            def _(x):
                return {"y": x + s.sig["offA"]}
        wrap = c.get("wrapA", 0) if kind == "connect" else 0

        def call_write():
            ret = s.conn.write(m, x=s.sig["argA"]) if c["w"] else s.conn.write(m)
            if c["w2"]:
                m.d.top_comb += s.sig["resA"].eq(ret.y)

        entry = None
        if wrap:
            # Connect.write is reached through `wrap` methods; the innermost calls it unconditionally, the guard
            # (enable_call / m.If) sits at the transaction's call of the outermost wrapper
            from transactron import Method

            prev = None
            for d in reversed(range(wrap)):
                wm = Method(name=f"W{d}")

                def define(wm=wm, prev=prev, d=d):
                    @def_method(m, wm)
                    def _():
                        def inner():
                            if prev is None:
                                call_write()
                            else:
                                prev(m)

                        if c.get("cond_at") == d:
                            # this level reaches the next one from a branch of a condition() block
                            from transactron.lib.simultaneous import condition

                            with condition(m, nonblocking=bool(c.get("cond_nb"))) as branch:
                                with branch(s.sig["condA"]):
                                    inner()
                        else:
                            inner()

                define()
                prev = wm
            entry = prev
        for side, nm in enumerate(names):
            if side == 1 and c.get("lonely"):
                continue  # nobody calls this side
            t = s.trans[nm]
            with t.body(m, ready=s.sig[f"rdy{nm}"]):
                if kind == "connect":
                    if side == 0 and wrap:
                        if c.get("noguard"):
                            entry(m)
                        elif c.get("guard_if"):
                            with m.If(s.sig["guardA"]):
                                entry(m)
                        else:
                            entry(m, enable_call=s.sig["guardA"])
                    elif side == 0:
                        call_write()
                    else:
                        ret = s.conn.read(m, y=s.sig["argB"]) if c["w2"] else s.conn.read(m)
                        if c["w"]:
                            m.d.top_comb += s.sig["resB"].eq(ret.x)
                elif kind == "sim_methods":
                    ret = s.pair[side](m, x=s.sig[f"arg{nm}"])
                    m.d.top_comb += s.sig[f"res{nm}"].eq(ret.y)
                elif kind == "sim_mt" and side == 0:
                    if not c.get("mt_guard"):
                        ret = s.pair[0](m, x=s.sig["argA"])
                    elif c.get("guard_if"):
                        with m.If(s.sig["guardA"]):
                            ret = s.pair[0](m, x=s.sig["argA"])
                    else:
                        ret = s.pair[0](m, x=s.sig["argA"], enable_call=s.sig["guardA"])
                    m.d.top_comb += s.sig["resA"].eq(ret.y)
                for k in c["extras"][side]:
                    s.extra[k].iface(m)
        if kind == "sim_trans":
            s.trans["A"].simultaneous(s.trans["B"])
        if kind == "sim_mt":
            s.pair[0].simultaneous(s.trans["B"])
        if c.get("third") is not None:
            t = Transaction(name="TX")
            s.trans["X"] = t
            with t.body(m, ready=s.sig["rdyX"]):
                s.extra[c["third"]].iface(m)
        return m


class Scen(CompScenario):
    def build(self):
        from transactron import Method
        from transactron.lib import Connect, Adapter

        c = self.cfg
        self.sig = {}

        def inp(name, w=1):
            self.sig[name] = Signal(w, name=name)
            self.add_input(name, self.sig[name])

        def out(name, w):
            self.sig[name] = Signal(w, name=name)
            self.add_obs(name, self.sig[name])

        for nm in "AB":
            inp(f"rdy{nm}")
        if (c.get("wrapA") and c["kind"] == "connect" and not c.get("noguard")) or c.get("mt_guard"):
            inp("guardA")
        if c.get("cond_at") is not None:
            inp("condA")
        if c.get("third") is not None:
            inp("rdyX")
        w, w2 = c["w"], c["w2"]
        if c["kind"] == "connect":
            self.conn = Connect([("x", w)] if w else [], [("y", w2)] if w2 else [])
            self.top.add("conn", self.conn)
            if w:
                inp("argA", w)
                out("resB", w)
            if w2:
                inp("argB", w2)
                out("resA", w2)
            self.add_obs("write.run", self.conn.write.run)
            self.add_obs("read.run", self.conn.read.run)
        elif c["kind"] == "sim_methods":
            self.pair = [Method(name=f"P{nm}", i=[("x", w)], o=[("y", w)]) for nm in "AB"]
            for nm in "AB":
                inp(f"arg{nm}", w)
                inp(f"off{nm}", w)
                inp(f"mrdy{nm}")
                out(f"res{nm}", w)
            self.add_obs("PA.run", self.pair[0].run)
            self.add_obs("PB.run", self.pair[1].run)
        elif c["kind"] == "sim_mt":
            self.pair = [Method(name="PA", i=[("x", w)], o=[("y", w)])]
            for nm in ("argA", "offA"):
                inp(nm, w)
            inp("mrdyA")
            out("resA", w)
            self.add_obs("PA.run", self.pair[0].run)
        self.extra = []
        for k in range(c["nextra"]):
            ad = Adapter(name=f"E{k}", i=[], o=[])
            self.extra.append(ad)
            self.top.add(f"extra{k}", ad)
            self.add_input(f"E{k}.en", ad.en)
            self.add_obs(f"E{k}.done", ad.done)
        self.stub = Stub(self)
        self.top.add("stub", self.stub)
        return self.top

    def post_elab(self, tm):
        super().post_elab(tm)
        for nm, t in self.trans.items():
            self.add_obs(f"T{nm}.run", t.run)

    def stimulus(self, rng, cyc):
        kind, p = phase_at(self.cfg["plan"], cyc)
        stim = {}
        for name, w in self.widths.items():
            if w == 1:
                if kind == "allon":
                    stim[name] = int(rng.random() < 0.95)
                elif kind == "stall" and name.endswith(".en"):
                    stim[name] = int(rng.random() < 0.3)
                else:
                    stim[name] = int(rng.random() < (p if kind == "random" else 0.6))
            else:
                stim[name] = rng.getrandbits(w)
        return stim

    def on_elab_error(self, e):
        # a simultaneity constraint on a conditionally called method is documented as unsupported: rejecting the
        # design is fine, accepting it obliges the library to keep the two bodies together
        if (self.cfg.get("wrapA") or self.cfg.get("mt_guard")) and isinstance(e, RuntimeError) and "not supported" in str(e):
            self.hit("conditionally_called_simultaneous_method_rejected")
            if self.cfg.get("cond_at") is not None:
                self.hit("rejected_with_condition_between_guard_and_simultaneous_method")
            if self.cfg.get("mt_guard"):
                self.hit("rejected_conditionally_called_method_simultaneous_with_transaction")
            self.visit(("rejected", self.cfg.get("wrapA"), self.cfg.get("cond_at"), self.cfg.get("mt_guard")), nontrivial=True)
            return True
        return False

    def check(self, cyc, stim, obs):
        c = self.cfg
        if c["kind"] == "connect" and (c.get("wrapA") or c.get("lonely")):
            return self.check_special(cyc, stim, obs)
        if c["kind"] == "sim_mt":
            return self.check_mt(cyc, stim, obs)
        ra, rb = obs["TA.run"], obs["TB.run"]
        ex = c["extras"]

        def side_enabled(side, nm):
            ok = stim.get(f"rdy{nm}", 0) and all(stim.get(f"E{k}.en", 0) for k in ex[side])
            if c["kind"] == "sim_methods":
                ok = ok and stim.get(f"mrdy{nm}", 0)
            return bool(ok)

        ea, eb = side_enabled(0, "A"), side_enabled(1, "B")
        if c["kind"] == "connect":
            self.expect(obs["write.run"] == obs["read.run"], "simultaneous-bodies-not-together",
                        f"Connect.write.run={obs['write.run']} read.run={obs['read.run']}")
            self.expect(obs["write.run"] == ra and obs["read.run"] == rb, "simultaneous-bodies-not-together",
                        f"callers run A={ra} B={rb}, write.run={obs['write.run']} read.run={obs['read.run']}")
            if ra and rb:
                if c["w"]:
                    self.expect(obs["resB"] == stim.get("argA", 0), "simultaneous-data-mismatch",
                                f"read returned {obs['resB']}, write was called with {stim.get('argA', 0)}", direction="forward")
                if c["w2"]:
                    self.expect(obs["resA"] == stim.get("argB", 0), "simultaneous-data-mismatch",
                                f"write returned {obs['resA']}, read was called with {stim.get('argB', 0)}", direction="reverse")
                self.hit("exchange")
        elif c["kind"] == "sim_methods":
            self.expect(obs["PA.run"] == obs["PB.run"], "simultaneous-bodies-not-together", f"PA.run={obs['PA.run']} PB.run={obs['PB.run']}")
            self.expect(obs["PA.run"] == ra and obs["PB.run"] == rb, "simultaneous-bodies-not-together", f"A={ra} B={rb} PA={obs['PA.run']} PB={obs['PB.run']}")
            if ra and rb:
                mask = (1 << c["w"]) - 1
                for nm in "AB":
                    want = (stim.get(f"arg{nm}", 0) + stim.get(f"off{nm}", 0)) & mask
                    self.expect(obs[f"res{nm}"] == want, "simultaneous-data-mismatch", f"P{nm} returned {obs[f'res{nm}']}, expected {want}")
                self.hit("exchange")
        self.expect(ra == rb, "simultaneous-bodies-not-together", f"TA.run={ra} TB.run={rb}")
        # whether an enabled pair actually runs is the scheduler's business (C03 / C07), only counted here
        if ra and not (ea and eb):
            self.hit("ran_when_not_enabled")
        rx = obs.get("TX.run", 0)
        if ea and eb and not ra:
            if c.get("third") is not None and rx:
                self.hit("blocked_by_third_transaction")
            else:
                self.hit("blocked_though_ready")
        if ea != eb:
            self.hit("only_one_side_enabled")
        if ea and eb and ra:
            self.hit("pair_ran")
        self.visit((ea, eb, ra, rx), nontrivial=bool(ea or eb))


    def check_mt(self, cyc, stim, obs):
        """a method and a plain transaction related by simultaneous(): the two bodies run in the same cycles"""
        c = self.cfg
        pr, tb = obs["PA.run"], obs["TB.run"]
        self.expect(pr == tb, "simultaneous-bodies-not-together",
                    f"method PA.run={pr}, transaction TB.run={tb} (caller TA.run={obs['TA.run']}, guard={stim.get('guardA')})")
        if pr:
            want = (stim.get("argA", 0) + stim.get("offA", 0)) & ((1 << c["w"]) - 1)
            self.expect(obs["resA"] == want, "simultaneous-data-mismatch", f"PA returned {obs['resA']}, expected {want}")
            self.hit("method_and_transaction_ran_together")
        if obs["TA.run"] and not pr:
            self.hit("caller_ran_without_the_method")
        self.visit((bool(pr), bool(tb), obs["TA.run"], stim.get("guardA", 1)), nontrivial=bool(stim.get("rdyA")))

    def check_special(self, cyc, stim, obs):
        """Connect whose write side is reached through wrapper methods under a guard, or whose read side has no
        caller at all: only the statement's two clauses apply."""
        c = self.cfg
        wr, rd = obs["write.run"], obs["read.run"]
        self.expect(wr == rd, "simultaneous-bodies-not-together", f"Connect.write.run={wr} read.run={rd} "
                    f"(wrapper depth {c.get('wrapA', 0)}, read side uncalled={bool(c.get('lonely'))}, guard={stim.get('guardA')})")
        if c.get("lonely"):
            self.expect(not obs["TA.run"] or c.get("wrapA"), "simultaneous-bodies-not-together",
                        "the caller of Connect.write runs although Connect.read has no caller and never runs")
            self.hit("lonely_side_requested" if stim.get("rdyA") else "lonely_side_idle")
        if wr and rd:
            if c["w"]:
                self.expect(obs["resB"] == stim.get("argA", 0), "simultaneous-data-mismatch",
                            f"read returned {obs['resB']}, write was called with {stim.get('argA', 0)}", direction="forward")
            if c["w2"]:
                self.expect(obs["resA"] == stim.get("argB", 0), "simultaneous-data-mismatch",
                            f"write returned {obs['resA']}, read was called with {stim.get('argB', 0)}", direction="reverse")
            self.hit("exchange_through_wrapper" if c.get("wrapA") else "exchange")
        if c.get("wrapA") and obs["TA.run"] and not stim.get("guardA", 1):
            self.hit("wrapper_caller_ran_with_guard_low")
        if c.get("cond_at") is not None:
            self.hit("exchange_through_condition_branch" if wr and rd else "condition_between_caller_and_connect_idle")
        self.visit((bool(wr), bool(rd), obs["TA.run"], stim.get("guardA", 0)), nontrivial=bool(stim.get("rdyA")))


class Prop(PropBase):
    ID = "C13"
    tiers = {"quick": {"runs": 480, "selftest_runs": 4}, "thorough": {"runs": 10000, "selftest_runs": 32}}
    rule = ("one run = Connect (forward / reverse / both data directions), a pair of methods related by simultaneous(), or a pair of "
            "transactions related by simultaneous(); each caller also calls 0-2 other methods (real Adapters with free readiness), "
            "optionally a third transaction shares one of them; 60-200 cycles; distinct = (configuration, side A enabled, side B "
            "enabled, pair ran, third ran); non-trivial = at least one side enabled")
    expected_cov = ["exchange", "pair_ran", "only_one_side_enabled", "blocked_by_third_transaction", "lonely_side_requested",
                    "conditionally_called_simultaneous_method_rejected", "method_and_transaction_ran_together",
                    "rejected_conditionally_called_method_simultaneous_with_transaction",
                    "rejected_with_condition_between_guard_and_simultaneous_method"]
    real = ["transactron.lib.connectors.Connect", "TransactionBase.simultaneous + TransactionManager._simultaneous", "transactron.lib.adapters.Adapter", "both schedulers"]
    stubs = ["caller transactions (stub Elaboratable)", "cycle driver", "oracle"]
    search_space = "Connect / simultaneous() designs x readiness histories of the callers' other methods"
    engine = "dst-component"

    def gen_config(self, rng, tier, idx):
        kind = rng.choice(["connect", "connect", "connect", "sim_methods", "sim_trans", "sim_mt"])
        nextra = rng.randint(0, 4)
        ids = list(range(nextra))
        rng.shuffle(ids)
        na = rng.randint(0, min(2, nextra))
        nb = rng.randint(0, min(2, nextra - na))
        extras = [sorted(ids[:na]), sorted(ids[na:na + nb])]
        used = extras[0] + extras[1]
        third = rng.choice(used) if used and rng.random() < 0.4 else None
        w, w2 = rng.choice([(4, 3), (4, 0), (0, 3), (6, 6)]) if kind == "connect" else (4, 4)
        cycles = rng.randint(60, 200)
        special = {}
        if kind == "connect" and rng.random() < 0.3:
            if rng.random() < 0.5:
                special = {"lonely": 1}
            else:
                special = {"wrapA": rng.choice([1, 2, 2, 3]), "guard_if": int(rng.random() < 0.5)}
                if rng.random() < 0.5:
                    # one wrapper reaches the next level from a condition() branch; without any guard at the caller the
                    # design is supported and the two sides of the Connect must stay together
                    special.update({"cond_at": rng.randrange(special["wrapA"]), "cond_nb": int(rng.random() < 0.5),
                                    "noguard": int(rng.random() < 0.4)})
            third = None
        if kind == "sim_mt":
            special = {"mt_guard": int(rng.random() < 0.5), "guard_if": int(rng.random() < 0.5)}
            third = None
        return {**special, "kind": kind, "w": w, "w2": w2, "nextra": nextra, "extras": extras, "third": third,
                "sched": rng.choice(["eager", "eager", "rr"]), "cycles": cycles,
                "plan": make_plan(rng, cycles, ["random", "random", "allon", "stall"])}

    def make(self, cfg):
        return Scen(cfg)

    def features(self, cfg, viol):
        return {"conn_kind": cfg["kind"], "direction": (viol.get("info") or {}).get("direction")}

    def violation_class(self, feats):
        return {"kind": feats["kind"], "conn_kind": feats["conn_kind"]}


PROP = Prop()
