"""C17 — Forwarder and Pipe are lossless one-slot buffers."""

from __future__ import annotations

from ..comp import CompScenario, layout_from_spec, spec_leaves, spread, rand_leaf, rand_layout_spec
from ..propbase import PropBase, make_plan, phase_at

PORTS = ("write", "read", "peek", "clear")  # bit k of a request mask = PORTS[k]


def pair_name(cls, full, mask):
    return f"pair_{cls}_{'full' if full else 'empty'}_" + "".join(
        p[0] if mask >> k & 1 else "-" for k, p in enumerate(PORTS))


class Scen(CompScenario):
    def build(self):
        from transactron.lib.connectors import Forwarder, Pipe

        c = self.cfg
        # the layout as the list form or as a StructLayout object (both are documented method layouts)
        layout = layout_from_spec(c["layout"], bool(c.get("layout_obj")))
        self.leafs = spec_leaves(c["layout"])  # (path, width, signed) of every scalar leaf; the first is the tag
        self.fields = [path for path, _, _ in self.leafs]
        self.mul = c.get("tagmul", 1)
        self.cls = c["cls"]
        self.fwd = self.cls == "Forwarder"
        self.dut = (Forwarder if self.fwd else Pipe)(layout)
        self.top.add("dut", self.dut)
        self.caller("write", self.dut.write)
        self.caller("read", self.dut.read)
        if self.cfg.get("twin"):
            self.twin("read", self.dut.read)
        self.caller("peek", self.dut.peek)
        self.caller("clear", self.dut.clear)
        # reference model: one slot holding (sequence number of the write, value) or None
        self.buf = None
        self.nwritten = 0
        self.values: list = []  # value of write number k
        self.dropped: set = set()  # write numbers removed by clear
        self.delivered: list = []  # values handed out by read, as observed
        self.seen = [[0] * 16, [0] * 16]  # visits of (state, request mask) in this run
        self.tag = 0
        return self.top

    # ---- stimulus -------------------------------------------------------------------------
    def stimulus(self, rng, cyc):
        kind, p = phase_at(self.cfg["plan"], cyc)
        full = int(self.buf is not None)
        if kind == "sweep":
            # aim at a request subset not yet applied in the current model state
            todo = [m for m in range(16) if not self.seen[full][m]]
            mask = rng.choice(todo) if todo else rng.getrandbits(4)
        else:
            pw, pr, pp, pc = {
                "random": (p, 1 - p if p not in (0.0, 1.0) else p, 0.5, 0.05),
                "stream": (1.0, 1.0, 0.3, 0.0),  # back-to-back transfer
                "stall": (1.0, 0.15, 0.5, 0.0),  # producer pushes against a slow consumer
                "starve": (0.15, 1.0, 0.5, 0.0),  # consumer polls an empty buffer
                "flush": (0.8, 0.5, 0.5, 0.4),
                "idle": (0.05, 0.05, 0.05, 0.02),
            }[kind]
            mask = 0
            for k, q in enumerate((pw, pr, pp, pc)):
                mask |= int(rng.random() < q) << k
        stim = {f"{n}.en": mask >> k & 1 for k, n in enumerate(PORTS)}
        # unique tags in the first leaf, spread over its whole width (counter * odd constant modulo 2**width);
        # noise in the others (full width, with all-zeros / all-ones / sign-bit-only patterns mixed in)
        self.tag += 1
        for k, (f, w, sgn) in enumerate(self.leafs):
            stim[f"write.i.{f}"] = spread(self.tag, self.mul, w, sgn) if k == 0 else rand_leaf(rng, w, sgn)
        return self.twin_stim(rng, stim)

    # ---- oracle -----------------------------------------------------------------------------
    def check(self, cyc, stim, obs):
        stim, obs = self.fold_twins(stim, obs)
        buf = self.buf
        full = buf is not None
        en = {p: stim.get(f"{p}.en", 0) for p in PORTS}
        done = {p: obs[f"{p}.done"] for p in PORTS}
        state = "full" if full else "empty"
        for p in PORTS:
            self.expect(not done[p] or en[p], "ran-without-request", f"{p} done without request", port=p)
        w, r, pk, c = done["write"], done["read"], done["peek"], done["clear"]
        wval = tuple(stim.get(f"write.i.{f}", 0) for f in self.fields)

        # readiness coupling exactly as stated ("X runs in the same cycle" = the observed done of X)
        if self.fwd:
            exp_w = not full
            exp_r = full or bool(w)
            rule_w, rule_r = "write ready iff buffer empty", "read ready iff buffer full or write runs now"
        else:
            exp_r = full
            exp_w = (not full) or bool(r)
            rule_w, rule_r = "write ready iff buffer empty or read runs now", "read ready iff buffer full"
        for p, exp, rule in (("write", exp_w, rule_w), ("read", exp_r, rule_r)):
            if en[p]:
                self.expect(obs[f"{p}.runnable"] == int(exp), "ready-mismatch",
                            f"{self.cls}.{p} callable={obs[f'{p}.runnable']}, buffer {state}, write ran={w} read ran={r} "
                            f"({rule})", port=p)
            self.expect(not done[p] or exp, "ran-when-not-callable",
                        f"{self.cls}.{p} ran, buffer {state}, write ran={w} read ran={r} ({rule})", port=p)
            if en[p] and exp and not done[p]:
                self.hit("blocked_though_ready")

        # what read hands out: the buffered value, or (Forwarder, empty) the value written in this cycle
        if full:
            head = buf
        elif self.fwd and w:
            head = (self.nwritten, wval)
        else:
            head = None
        if r:
            got = tuple(obs[f"read.o.{f}"] for f in self.fields)
            self.expect(head is not None and got == head[1], "data-mismatch",
                        f"{self.cls}.read returned {got}, expected {head and head[1]} (buffer {state}, write ran={w})",
                        port="read")
            self.delivered.append(got)
            self.data_cov(got)
        if pk and head is not None:
            # "peek" = what read would hand out, without consuming it: an executed peek must show the value a read
            # in the same cycle returns (the statement calls peek the non-consuming read)
            got = tuple(obs[f"peek.o.{f}"] for f in self.fields)
            self.expect(got == head[1], "data-mismatch",
                        f"{self.cls}.peek returned {got}, read would hand out {head[1]} (buffer {state}, write ran={w})", port="peek")
            self.hit("peek_value_is_head")

        # coverage: every (model state, request subset) pair, and the events the statement names
        mask = sum(en[p] << k for k, p in enumerate(PORTS))
        self.seen[int(full)][mask] += 1
        self.hit(pair_name(self.cls, full, mask))
        tag = "fwd" if self.fwd else "pipe"
        if en["write"] and not exp_w:
            self.hit(f"{tag}_write_refused_at_full")
        if en["read"] and not exp_r:
            self.hit(f"{tag}_read_refused_at_empty")
        if self.fwd and w and r and not full:
            self.hit("fwd_forwarded_in_same_cycle")
        if self.fwd and w and not r and not c:
            self.hit("fwd_stored_in_overflow_buffer")
        if self.fwd and w and pk and not r:
            self.hit("fwd_peek_of_forwarded_value_without_read")
        if not self.fwd and w and r:
            self.hit("pipe_write_enabled_by_same_cycle_read")
        if pk and full and not r:
            self.hit("peek_without_read_at_full")
        if pk and r:
            self.hit("peek_with_read")
        if c:
            self.hit("clear")
            if w and not r:
                self.hit("clear_with_write_value_dropped")
            if w and r:
                self.hit("clear_with_write_and_read")
            if full and not r:
                self.hit("clear_drops_buffered_value")
            if full and r:
                self.hit("clear_with_read_at_full")
        calls = tuple(p for p in PORTS if done[p])
        self.visit((self.cls, full, mask, calls), nontrivial=bool(calls))

        # step the model in the order the component is scheduled (Forwarder: write, read; Pipe: read, write);
        # peek changes nothing; clear last
        def do_write():
            self.buf = (self.nwritten, wval)
            self.values.append(wval)
            self.nwritten += 1

        if self.fwd:
            if w:
                do_write()
            if r:
                self.buf = None
        else:
            if r:
                self.buf = None
            if w:
                do_write()
        if c:
            if self.buf is not None:
                self.dropped.add(self.buf[0])
            self.buf = None

    def data_cov(self, got):
        """What kind of value came back intact."""
        for (f, w, sgn), v in zip(self.leafs, got):
            if w >= 10 and (v if v >= 0 else v + (1 << w)) >> 9:
                self.hit("returned_value_with_bits_above_9")
            if w > 32 and (v if v >= 0 else v + (1 << w)) >> 32:
                self.hit("returned_value_with_bits_above_32")
            if sgn and v < 0:
                self.hit("returned_negative_signed_field")
            if w == 1 and v:
                self.hit("returned_one_bit_field_set")
        if len(self.leafs) >= 3:
            self.hit("returned_struct_of_3_or_more_leaves")
        if any("." in f for f in self.fields):
            self.hit("returned_nested_or_array_field")

    def finish(self):
        if all(self.seen[0]) and all(self.seen[1]):
            self.hit("run_applied_all_32_state_request_pairs")
        # every written value not cleared is delivered exactly once, in order (the last may still be buffered)
        pending = {self.buf[0]} if self.buf is not None else set()
        want = [v for k, v in enumerate(self.values) if k not in self.dropped and k not in pending]
        self.expect(self.delivered == want, "delivery-mismatch",
                    f"{self.cls}: delivered {len(self.delivered)} values, {len(want)} written and not cleared; "
                    f"first difference at position {next((i for i, (a, b) in enumerate(zip(self.delivered, want)) if a != b), min(len(want), len(self.delivered)))}",
                    port="read")


ALL_PAIRS = [pair_name(cls, full, mask) for cls in ("Forwarder", "Pipe") for full in (0, 1) for mask in range(16)]


class Prop(PropBase):
    ID = "C17"
    tiers = {
        "quick": {"runs": 480, "selftest_runs": 4},
        "thorough": {"runs": 10000, "selftest_runs": 32},
    }
    rule = ("one run = Forwarder or Pipe (tag alone or tag + small aux field, or (55 %) wide up to 64 bit / signed / 1-bit / "
            "3-4-field / nested-struct / array fields, given as a list or as a StructLayout object; tag = counter * per-run odd "
            "constant modulo 2**width) driven for 80-240 cycles by a seeded phase plan (random / "
            "sweep over not yet applied request subsets / stream / stall / starve / flush / idle), any of the 16 subsets "
            "of write/read/peek/clear requested per cycle, unique tags; distinct = distinct (class, layout, buffer "
            "state, request subset, executed call set); non-trivial = some call executed.  The model has 2 states: all "
            "2 x 16 (state, request subset) pairs per class are expected to be applied (counters pair_*)")
    expected_cov = ALL_PAIRS + [
        "run_applied_all_32_state_request_pairs",
        "fwd_write_refused_at_full", "fwd_read_refused_at_empty", "fwd_forwarded_in_same_cycle",
        "fwd_stored_in_overflow_buffer", "fwd_peek_of_forwarded_value_without_read",
        "pipe_write_refused_at_full", "pipe_read_refused_at_empty", "pipe_write_enabled_by_same_cycle_read",
        "peek_without_read_at_full", "peek_with_read", "peek_value_is_head",
        "clear_with_write_value_dropped", "clear_with_write_and_read", "clear_drops_buffered_value",
        "clear_with_read_at_full",
        "returned_value_with_bits_above_9", "returned_value_with_bits_above_32", "returned_negative_signed_field",
        "returned_one_bit_field_set", "returned_struct_of_3_or_more_leaves", "returned_nested_or_array_field"]
    real = ["transactron.lib.connectors.Forwarder", "transactron.lib.connectors.Pipe", "transactron.lib.adapters.AdapterTrans",
            "TransactionManager + scheduler (schedule_before ordering)", "amaranth pysim"]
    stubs = ["cycle driver (stimulus)", "one-slot reference model"]
    search_space = "Forwarder/Pipe read/peek/write/clear call histories: every request subset in every buffer state"

    def gen_config(self, rng, tier, idx):
        big = tier == "thorough"
        cls = rng.choice(["Forwarder", "Pipe"])
        layout = rand_layout_spec(rng, rich=rng.random() < 0.55)
        cycles = rng.randint(80, 400 if big else 240)
        kinds = ["random", "random", "sweep", "sweep", "stream", "stall", "starve", "flush", "idle"]
        cfg = {"cls": cls, "layout": layout, "cycles": cycles, "twin": int(rng.random() < 0.3), "sched": rng.choice(["eager", "eager", "rr"]),
               "plan": make_plan(rng, cycles, kinds, min_len=4, max_len=32)}
        cfg["tagmul"] = rng.getrandbits(64) | 1  # tag = counter * odd constant modulo 2**width: unique, all bits used
        cfg["layout_obj"] = int(rng.random() < 0.25)
        return cfg

    def make(self, cfg):
        return Scen(cfg)

    def features(self, cfg, viol):
        return {"cls": cfg["cls"], "port": (viol.get("info") or {}).get("port")}

    def cfg_signature(self, cfg):
        return [cfg["cls"], cfg["layout"], cfg["sched"], cfg.get("twin", 0), cfg.get("layout_obj", 0)]

    def shrink_cfg(self, cfg):
        if len(cfg["layout"]) > 1:
            c = dict(cfg)
            c["layout"] = cfg["layout"][:1]
            yield c
        if cfg.get("layout_obj"):
            c = dict(cfg)
            c["layout_obj"] = 0
            yield c
        if cfg["sched"] != "eager":
            c = dict(cfg)
            c["sched"] = "eager"
            yield c


PROP = Prop()
