"""C15 — WideFifo behaves as a bounded queue with batched operations."""

from __future__ import annotations

from collections import deque

from ..comp import CompScenario, shape_from_spec, spec_leaves, to_leaf, spread, rand_leaf
from ..propbase import PropBase, make_plan, phase_at

PORTS = ("write", "read", "peek", "clear")


class Scen(CompScenario):
    def build(self):
        from transactron.lib.fifo import WideFifo

        c = self.cfg
        self.depth, self.rw, self.ww, self.mc = c["depth"], c["read_width"], c["write_width"], c["write_max_count"]
        self.col = max(self.rw, self.ww)
        # write_width equal to read_width is also reached through the constructor default (None)
        ww_arg = None if (c.get("ww_default") and self.ww == self.rw) else self.ww
        # element shape: a spec of comp.shape_from_spec (unsigned / signed / array / struct); old replay files have "width"
        self.shape = c.get("shape", c.get("width"))
        self.lane = spec_leaves(self.shape)  # (path, width, signed) of the leaves of one element; the first is the tag
        self.mul = c.get("tagmul", 1)
        self.dut = WideFifo(shape_from_spec(self.shape, True), self.depth, self.rw, ww_arg, write_max_count=self.mc)
        self.top.add("dut", self.dut)
        wr = self.caller("write", self.dut.write)
        # the data lanes of write are driven as one packed value per cycle (pre_observe) instead of leaf by leaf: the
        # stimulus keeps its per-leaf entries "write.i.data.<lane>[.<leaf>]" (old replay files stay valid), the kernel
        # just does not drive them one by one
        self.wnames = [self.lane_names("write.i", k) for k in range(self.ww)]
        for names in self.wnames:
            for nm in names:
                del self.inp[nm]
        self.wdata = wr.data_in.data.as_value()
        assert len(self.wdata) == self.ww * sum(w for _, w, _ in self.lane)
        self.wdata_last = 0
        self.caller("read", self.dut.read)
        self.caller("peek", self.dut.peek)
        self.caller("clear", self.dut.clear)
        self.ports = list(PORTS)
        if c.get("peek2"):  # a second, independent caller of peek (documented as nonexclusive)
            self.caller("peek2", self.dut.peek)
            self.ports.append("peek2")
        self.q: deque = deque()  # reference model
        self.rd_pos = 0  # elements removed / appended since the last clear, modulo depth (row/column position)
        self.wr_pos = 0
        self.tag = 0
        return self.top

    def lane_names(self, port, k):
        """Signal names of the leaves of data element k of `port` ("write.i" / "read.o" / ...)."""
        return [f"{port}.data.{k}" + (f".{path}" if path else "") for path, _, _ in self.lane]

    def pre_observe(self, ctx, cyc, stim):
        packed, sh = 0, 0
        for names in self.wnames:  # array elements, and the leaves of an element, lie in layout order from bit 0 up
            for nm, (_, w, _) in zip(names, self.lane):
                packed |= (stim.get(nm, 0) & ((1 << w) - 1)) << sh
                sh += w
        if packed != self.wdata_last:
            ctx.set(self.wdata, packed)
            self.wdata_last = packed

    def element(self, stim, k):
        """Data element k of the write arguments as the hardware sees it."""
        return tuple(to_leaf(stim.get(nm, 0), w, sgn) for nm, (_, w, sgn) in zip(self.wnames[k], self.lane))

    # ---- stimulus -------------------------------------------------------------------------
    def stimulus(self, rng, cyc):
        kind, p = phase_at(self.cfg["plan"], cyc)
        L = len(self.q)
        R = self.depth - L
        rw, ww = self.rw, self.ww
        pw, pr, pp, pc = {
            "random": (p, 1 - p if p not in (0.0, 1.0) else p, 0.5, 0.02),
            "fill": (1.0, 0.1, 0.3, 0.0),
            "drain": (0.1, 1.0, 0.3, 0.0),
            "pingpong": (1.0, 1.0, 0.7, 0.0),
            "refuse": (1.0, 0.35, 0.3, 0.0),
            "flush": (0.8, 0.6, 0.5, 0.35),
            "idle": (0.05, 0.05, 0.05, 0.01),
        }[kind]
        wcount = rng.randint(0, ww)
        rcount = rng.randint(0, rw)
        need = None  # value deciding acceptance; None: derive from wcount below
        if kind == "fill":
            wcount = ww if rng.random() < 0.7 else rng.randint(1, ww)
            rcount = rng.randint(0, min(rw, 1 + rw // 2))
            if R == 0:
                pr = 0.6  # bounce off the limit
        elif kind == "drain":
            rcount = rw if rng.random() < 0.7 else rng.randint(1, rw)
            wcount = rng.randint(0, min(ww, 1 + ww // 2))
            if L == 0:
                pw = 0.6
        elif kind == "pingpong":
            wcount = rng.randint(1, ww) if p < 0.5 else ww
            rcount = rng.randint(1, rw) if p < 0.5 else rw
        elif kind == "refuse":
            # close to the limit: a call that needs one more than fits, interleaved with calls that just fit
            if R > ww:
                wcount = ww
            else:
                r = rng.random()
                if r < 0.45 and R + 1 <= ww:
                    need = R + 1
                elif r < 0.8:
                    need = max(R, 1) if R <= ww else ww
                else:
                    need = rng.randint(1, ww)
                wcount = need if not self.mc else rng.randint(0, need)
            rcount = rng.randint(1, max(1, min(rw, 2)))
        if pc > 0 and L in (0, self.depth):
            pc = min(1.0, pc * 2)  # flush placement bias: right after the queue became full / empty
        stim = {
            "write.en": int(rng.random() < pw),
            "read.en": int(rng.random() < pr),
            "peek.en": int(rng.random() < pp),
            "clear.en": int(rng.random() < pc),
            "write.i.count": wcount,
            "read.i.count": rcount,
        }
        # the count field can hold values above read_width when read_width + 1 is not a power of two: the
        # statement bounds the result by read_width ("min(count, level, read_width)"), so such requests are legal
        top = (1 << self.widths["read.i.count"]) - 1
        if top > rw and rng.random() < 0.12:
            stim["read.i.count"] = rng.randint(rw + 1, top)
        if self.mc:
            if need is None:  # an upper bound on count: tight half of the time
                need = wcount if rng.random() < 0.5 else rng.randint(wcount, ww)
            stim["write.i.max_count"] = max(need, wcount)
        for k in range(ww):  # unique tags in every data lane (also the lanes beyond count), spread over the whole width
            self.tag += 1
            for j, (name, (_, w, sgn)) in enumerate(zip(self.wnames[k], self.lane)):
                stim[name] = spread(self.tag, self.mul, w, sgn) if j == 0 else rand_leaf(rng, w, sgn)
        if self.cfg.get("peek2"):
            stim["peek2.en"] = int(rng.random() < max(pp, 0.5))
        return stim

    # ---- oracle -----------------------------------------------------------------------------
    def check(self, cyc, stim, obs):
        depth, rw, ww, col, q = self.depth, self.rw, self.ww, self.col, self.q
        L = len(q)
        R = depth - L
        PORTS = self.ports
        en = {p: stim.get(f"{p}.en", 0) for p in PORTS}
        done = {p: obs[f"{p}.done"] for p in PORTS}
        wcount = stim.get("write.i.count", 0)
        wneed = stim.get("write.i.max_count", 0) if self.mc else wcount
        rcount = stim.get("read.i.count", 0)
        # premise: arguments inside their layout's range, and count <= max_count (the component asserts it)
        if en["write"]:
            self.premise(wcount <= ww and wneed <= ww, f"write count {wcount}/{wneed} outside range({ww + 1})")
            self.premise(wcount <= wneed, f"write count {wcount} exceeds max_count {wneed}")
        self.premise(rcount < (1 << self.widths["read.i.count"]), f"read count {rcount} does not fit the count field")
        if en["read"] and rcount > rw:
            self.hit("read_count_above_read_width")
        for p in PORTS:
            self.expect(not done[p] or en[p], "ran-without-request", f"{p} done without request", port=p)
        w, r, pk, c = done["write"], done["read"], done["peek"], done["clear"]

        # write: ready only when space remains, accepted only if it fits -- judged on the level at the
        # beginning of the cycle (space freed by a read of the same cycle does not count)
        fits = R > 0 and wneed <= R
        self.expect(not w or fits, "write-accepted-without-space",
                    f"write(count={wcount}{', max_count=' + str(wneed) if self.mc else ''}) ran with {R} free of {depth}",
                    port="write")
        if en["write"]:
            # the statement is one-directional ("ready only when space remains", "accepts a call only if it fits"):
            # a callable write must fit; a fitting write that is refused is counted, not judged
            self.expect(not obs["write.runnable"] or fits, "write-accepted-without-space",
                        f"write(count={wcount}{', max_count=' + str(wneed) if self.mc else ''}) callable="
                        f"{obs['write.runnable']} with {R} free of {depth}", port="write")
            if fits and not obs["write.runnable"]:
                self.hit("fitting_write_refused")
            if fits and not w:
                self.hit("blocked_though_ready")

        # read / peek: the oldest elements, as many as asked for / available / fit the port
        head = [q[i] for i in range(min(L, rw))]
        nread = 0
        if r:
            nread = min(rcount, L, rw)
            got_n = obs["read.o.count"]
            self.expect(got_n == nread, "read-count-mismatch",
                        f"read(count={rcount}) returned count={got_n} at level {L}/{depth}, read_width {rw}: "
                        f"expected {nread}", port="read")
            got = [tuple(obs[nm] for nm in self.lane_names("read.o", k)) for k in range(nread)]
            self.data_cov(got)
            self.expect(got == head[:nread], "read-data-mismatch",
                        f"read(count={rcount}) returned {got}, oldest elements are {head[:nread]} (level {L}/{depth}, "
                        f"read position {self.rd_pos})", port="read")
        for pp in ("peek", "peek2"):
            if not done.get(pp):
                continue
            npeek = min(L, rw)
            got_n = obs[f"{pp}.o.count"]
            self.expect(got_n == npeek, "peek-count-mismatch",
                        f"{pp} returned count={got_n} at level {L}/{depth}, read_width {rw}: expected {npeek}", port=pp)
            got = [tuple(obs[nm] for nm in self.lane_names(f"{pp}.o", k)) for k in range(npeek)]
            self.expect(got == head, "peek-data-mismatch",
                        f"{pp} returned {got}, oldest elements are {head} (level {L}/{depth}, read position {self.rd_pos})",
                        port=pp)
        if "peek2" in en and en["peek"] and en["peek2"]:
            # peek is documented as nonexclusive: two callers do not exclude each other, so one is served iff the other
            # is (whether peek is ready at all is not part of the statement and not judged)
            self.expect(done["peek"] == done["peek2"], "simultaneous-peeks-not-served",
                        f"two callers request the nonexclusive peek at level {L}: served {done['peek']}/{done['peek2']}",
                        port="peek")
            if done["peek"]:
                self.hit("two_peek_callers_served")
                if r:
                    self.hit("two_peek_callers_served_with_read")
        # readiness of read / peek / clear is not part of the statement: counted, not judged
        for p in ("read", "peek"):
            if en[p]:
                if L == 0:
                    self.hit(f"{p}_requested_at_empty")
                    if done[p]:
                        self.hit(f"{p}_ran_at_empty")
                elif not done[p]:
                    self.hit(f"{p}_not_served_though_nonempty")

        # fault kinds / boundary events that fired
        ev = []
        if en["write"] and R == 0:
            self.hit("write_refused_no_space")
            if r and nread:
                self.hit("write_refused_at_full_though_read_frees_space")
        if en["write"] and R > 0 and wneed == R + 1:
            self.hit("write_refused_one_more_than_fits")
        if en["write"] and 0 < R < wneed <= R + nread:
            self.hit("write_refused_though_same_cycle_read_frees_enough")
        if en["write"] and self.mc and wcount <= R < wneed and R > 0:
            self.hit("write_refused_by_max_count_though_count_fits")
        if w:
            if wneed == R:
                self.hit("write_just_fits")
            if wcount == R:
                self.hit("became_full")
            if wcount == 0:
                self.hit("write_zero_count")
            if wcount >= 5:
                self.hit("write_5_or_more_elements")
            if self.mc and wcount < wneed:
                self.hit("write_count_below_max_count")
            wc = self.wr_pos % col
            if wcount and wc + wcount == col:
                self.hit("write_ends_exactly_at_row_end")
                ev.append("w=")
            if wc + wcount > col:
                self.hit("write_crosses_row_end")
                ev.append("w>")
            if wcount and self.wr_pos + wcount >= depth:
                self.hit("write_pointer_wraps_depth")
        if r:
            if rcount > min(L, rw):
                self.hit("read_limited_by_level")
            if nread == L:
                self.hit("became_empty")
            if rcount == 0:
                self.hit("read_zero_count")
            rc = self.rd_pos % col
            if nread and rc + nread == col:
                self.hit("read_ends_exactly_at_row_end")
                ev.append("r=")
            if rc + nread > col:
                self.hit("read_crosses_row_end")
                ev.append("r>")
            if nread and self.rd_pos + nread >= depth:
                self.hit("read_pointer_wraps_depth")
            if w and wcount and rcount > nread:
                self.hit("read_does_not_see_same_cycle_write")
        if pk and L < rw:
            self.hit("peek_limited_by_level")
        if w and r:
            self.hit("read_and_write_same_cycle")
        if pk and r:
            self.hit("peek_with_read")
        if c:
            self.hit("clear")
            if w and wcount:
                self.hit("clear_with_write")
            if r and nread:
                self.hit("clear_with_read")
            if L == depth:
                self.hit("clear_at_full")
            if self.rd_pos % col or self.wr_pos % col:
                self.hit("clear_at_unaligned_pointers")
        calls = tuple((p, wcount if p == "write" else nread if p == "read" else 0) for p in PORTS if done[p])
        self.visit((L, self.rd_pos, calls),
                   nontrivial=bool(calls) and (L < rw or R < ww or bool(c) or bool(ev)))

        # step the model: read removes, write appends the first count lanes, clear last
        for _ in range(nread):
            q.popleft()
        self.rd_pos = (self.rd_pos + nread) % depth
        if w:
            for k in range(wcount):
                q.append(self.element(stim, k))
            self.wr_pos = (self.wr_pos + wcount) % depth
        if c:
            q.clear()
            self.rd_pos = self.wr_pos = 0

    def data_cov(self, got):
        """What kind of elements came back intact."""
        for el in got:
            for (f, w, sgn), v in zip(self.lane, el):
                if w >= 10 and (v if v >= 0 else v + (1 << w)) >> 9:
                    self.hit("returned_value_with_bits_above_9")
                if w > 16 and (v if v >= 0 else v + (1 << w)) >> 16:
                    self.hit("returned_value_with_bits_above_16")
                if sgn and v < 0:
                    self.hit("returned_negative_signed_value")
        if got and len(self.lane) > 1:
            self.hit("returned_struct_or_array_element")
        if len(got) >= 5:
            self.hit("read_5_or_more_elements")


class Prop(PropBase):
    ID = "C15"
    tiers = {
        "quick": {"runs": 256, "selftest_runs": 4},
        "thorough": {"runs": 8000, "selftest_runs": 32},
    }
    rule = ("one run = one (depth up to 16, read_width / write_width 1-4 and a share up to 8, write_max_count, element shape: "
            "unsigned 12-64 bit / signed / array / struct) configuration, a share with a second peek caller, driven for "
            "80-240 cycles by a seeded phase plan (random / fill / drain / ping-pong / refuse (one more than fits vs just "
            "fits) / flush / idle), any subset of read(count)/peek/write(count[, max_count])/clear per cycle, unique tags "
            "in all data lanes; distinct = distinct (configuration, level, read position modulo depth, executed calls "
            "with their effective counts); non-trivial = a call executed with level < read_width, free < write_width, "
            "a row-end / row-crossing pointer step, or clear")
    expected_cov = ["read_count_above_read_width", "write_refused_no_space", "write_refused_at_full_though_read_frees_space",
                    "write_refused_one_more_than_fits", "write_refused_though_same_cycle_read_frees_enough",
                    "write_refused_by_max_count_though_count_fits", "write_just_fits", "became_full", "write_zero_count",
                    "write_count_below_max_count", "write_ends_exactly_at_row_end", "write_crosses_row_end",
                    "write_pointer_wraps_depth", "read_limited_by_level", "became_empty", "read_zero_count",
                    "read_ends_exactly_at_row_end", "read_crosses_row_end", "read_pointer_wraps_depth",
                    "read_does_not_see_same_cycle_write", "peek_limited_by_level", "read_and_write_same_cycle",
                    "peek_with_read", "clear_with_write", "clear_with_read", "clear_at_full",
                    "clear_at_unaligned_pointers", "read_requested_at_empty",
                    "returned_value_with_bits_above_9", "returned_value_with_bits_above_16", "returned_negative_signed_value",
                    "returned_struct_or_array_element", "read_5_or_more_elements", "write_5_or_more_elements",
                    "two_peek_callers_served", "two_peek_callers_served_with_read"]
    real = ["transactron.lib.fifo.WideFifo", "transactron.lib.adapters.AdapterTrans",
            "TransactionManager + scheduler (validate_arguments)", "amaranth.lib.memory.Memory", "amaranth pysim"]
    stubs = ["cycle driver (stimulus)", "deque reference model"]
    search_space = ("WideFifo configurations (depth, read/write widths equal and unequal, write_max_count) and batched "
                    "read/peek/write/clear call histories with refuse, flush and boundary faults")
    assumptions = ["fullness / emptiness (what a write may add, what a read / peek returns) are judged on the queue content at the "
                   "beginning of the cycle; of the calls executed in one cycle `clear` is applied last",
                   "read / write counts stay inside range(width + 1) of their layouts and count <= max_count (premise)",
                   "readiness of read, peek and clear is not part of the statement: counted, not judged",
                   "peek is documented as nonexclusive: of two simultaneous callers of peek one is served iff the other is",
                   "write(count) with count above write_width is not documented (the count field can hold such values when "
                   "write_width + 1 is not a power of two): not generated (premise)"]

    def gen_config(self, rng, tier, idx):
        big = tier == "thorough"
        rw = rng.randint(1, 4)
        ww = rw if rng.random() < 0.35 else rng.randint(1, 4)
        wide_ports = rng.random() < 0.15  # a share of the runs: up to 8 elements per call, depth up to 16
        if wide_ports:
            rw = rng.randint(1, 8)
            ww = rw if rng.random() < 0.35 else rng.randint(1, 8)
            if max(rw, ww) < 5:
                rw = rng.randint(5, 8)
        col = max(rw, ww)
        limit = 24 if big else (16 if wide_ports else 12)
        rows = rng.randint(1, limit // col)
        if rows > 3 and rng.random() < 0.5:
            rows = rng.randint(1, 3)  # few rows: pointers wrap often
        cycles = rng.randint(80, 400 if big else 240)
        if wide_ports:  # the simulated design is several times larger: shorter runs
            cycles = rng.randint(80, 240 if big else 150)
        kinds = ["random", "random", "fill", "drain", "pingpong", "pingpong", "refuse", "refuse", "flush", "idle"]
        cfg = {"depth": rows * col, "read_width": rw, "write_width": ww, "ww_default": rng.random() < 0.5,
               "write_max_count": rng.random() < 0.4, "width": rng.choice([12, 14, 16]), "cycles": cycles,
               "sched": rng.choice(["eager", "eager", "rr"]), "plan": make_plan(rng, cycles, kinds, min_len=4, max_len=36)}
        # element shape: the first leaf carries the tag (>= 12 bits: up to write_width * cycles unique tags).  The size
        # of the simulated design grows with leaves x columns, so many columns go with scalar elements only and
        # struct / array elements have at most 3 leaves (2 with 4 columns)
        r = rng.random()
        few = 2 if col >= 4 else 3
        if wide_ports:
            shape = rng.choice([cfg["width"], cfg["width"], 24, 32, ["s", 12], ["s", 16]])
        elif r < 0.4:
            shape = cfg["width"]
        elif r < 0.55:
            shape = rng.choice([24, 32, 33, 48, 64])
        elif r < 0.7:
            shape = ["s", rng.choice([12, 16, 33])]
        elif r < 0.8:
            shape = ["a", rng.choice([12, 16, ["s", 13]]), rng.randint(1, few)]
        else:
            extra = rng.choice([[1], [3], [31], [["s", 7]], [64], [1, ["s", 2]], [8, 40], [[["m0", 5], ["m1", ["s", 9]]]]])
            shape = [["tag", rng.choice([12, 16, 32, ["s", 14]])]] + [[f"f{k}", x] for k, x in enumerate(extra)][:few - 1]
            if few == 2 and len(spec_leaves(shape)) > 2:
                shape = shape[:1] + [["f0", 1]]
        del cfg["width"]
        cfg["shape"] = shape
        cfg["tagmul"] = rng.getrandbits(64) | 1
        cfg["peek2"] = int(rng.random() < 0.35)
        return cfg

    def make(self, cfg):
        return Scen(cfg)

    def features(self, cfg, viol):
        return {"port": (viol.get("info") or {}).get("port"), "max_count": cfg["write_max_count"]}

    def cfg_signature(self, cfg):
        return [cfg["depth"], cfg["read_width"], cfg["write_width"], cfg["write_max_count"], cfg.get("shape", cfg.get("width")),
                cfg["sched"], cfg.get("peek2", 0)]

    def shrink_cfg(self, cfg):
        col = max(cfg["read_width"], cfg["write_width"])
        for rows in (1, 2, cfg["depth"] // col - 1):
            if 1 <= rows < cfg["depth"] // col:
                c = dict(cfg)
                c["depth"] = rows * col
                yield c
        for key in ("read_width", "write_width"):
            if cfg[key] > 1:
                c = dict(cfg)
                c[key] = cfg[key] - 1
                ncol = max(c["read_width"], c["write_width"])
                c["depth"] = max(1, cfg["depth"] // col) * ncol
                yield c
        if cfg["sched"] != "eager":
            c = dict(cfg)
            c["sched"] = "eager"
            yield c


PROP = Prop()
