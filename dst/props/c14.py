"""C14 — FIFO and BasicFifo behave as bounded queues."""

from __future__ import annotations

from collections import deque

from ..comp import CompScenario
from ..propbase import PropBase, make_plan, phase_at


class Scen(CompScenario):
    def build(self):
        from transactron.lib import BasicFifo, FIFO

        c = self.cfg
        layout = [(n, w) for n, w in c["layout"]]
        self.fields = [n for n, _ in layout]
        self.basic = c["cls"] == "BasicFifo"
        if self.basic:
            self.dut = BasicFifo(layout, c["depth"])
        else:
            self.dut = FIFO(layout, c["depth"])
        self.top.add("dut", self.dut)
        self.caller("write", self.dut.write)
        self.caller("read", self.dut.read)
        if c.get("twin"):
            self.twin("read", self.dut.read)  # two consumers sharing one read method
        if self.basic:
            self.caller("peek", self.dut.peek)
            self.caller("clear", self.dut.clear)
            if c.get("peek2"):  # a second, independent caller of peek: simultaneous calls of one method
                self.caller("peek2", self.dut.peek)
        self.q: deque = deque()
        self.tag = 0
        self.ports = ["write", "read"] + (["peek", "clear"] if self.basic else []) + (["peek2"] if self.basic and c.get("peek2") else [])
        return self.top

    # ---- stimulus -------------------------------------------------------------------------
    def stimulus(self, rng, cyc):
        kind, p = phase_at(self.cfg["plan"], cyc)
        pw, pr, pp, pc = {
            "random": (p, 1 - p if p not in (0.0, 1.0) else p, 0.5, 0.02),
            "fill": (1.0, 0.1, 0.3, 0.0),
            "drain": (0.1, 1.0, 0.3, 0.0),
            "pingpong": (1.0, 1.0, 1.0, 0.0),
            "flush": (0.8, 0.6, 0.5, 0.35),
            "idle": (0.05, 0.05, 0.05, 0.01),
        }[kind]
        stim = {}
        stim["write.en"] = int(rng.random() < pw)
        stim["read.en"] = int(rng.random() < pr)
        if self.basic:
            stim["peek.en"] = int(rng.random() < pp)
            if self.cfg.get("peek2"):
                stim["peek2.en"] = int(rng.random() < max(pp, 0.5))
            # flush placement bias: right after the model became full or empty, or together with a write
            pc_eff = pc
            if pc > 0 and (len(self.q) in (0, self.cfg["depth"])):
                pc_eff = min(1.0, pc * 2)
            stim["clear.en"] = int(rng.random() < pc_eff)
        # unique tags in the first field, noise in the others
        self.tag += 1
        for k, f in enumerate(self.fields):
            name = f"write.i.{f}"
            w = self.widths[name]
            stim[name] = (self.tag if k == 0 else rng.getrandbits(w)) & ((1 << w) - 1)
        return self.twin_stim(rng, stim)

    # ---- oracle -----------------------------------------------------------------------------
    def check(self, cyc, stim, obs):
        stim, obs = self.fold_twins(stim, obs)
        depth = self.cfg["depth"]
        q = self.q
        level = len(q)
        nonempty, notfull = level > 0, level < depth
        exp_ready = {"write": notfull, "read": nonempty, "peek": nonempty, "peek2": nonempty, "clear": True}
        done = {}
        for p in self.ports:
            en = stim.get(f"{p}.en", 0)
            done[p] = obs[f"{p}.done"]
            # readiness as the caller experiences it is observable only while it requests; the statement
            # gives readiness of read / peek / write only -- clear is held to `done => en` alone
            if en and p != "clear":
                self.expect(obs[f"{p}.runnable"] == int(exp_ready[p]), "ready-mismatch",
                            f"{p} callable={obs[f'{p}.runnable']} but queue level={level}/{depth}", port=p)
            elif en and not obs[f"{p}.runnable"]:
                self.hit("clear_not_callable")
            self.expect(not done[p] or (en and exp_ready[p]), "ran-when-not-callable",
                        f"{p}: en={en} ready={exp_ready[p]} done={done[p]} level={level}/{depth}", port=p)
            if en and exp_ready[p] and not done[p]:
                self.hit("blocked_though_ready")  # scheduling (C07) business, not a queue violation
        if done.get("peek") is not None and done.get("peek2") is not None and stim.get("peek.en") and stim.get("peek2.en") and nonempty:
            # the statement quantifies over simultaneous calls: peek is ready for every caller while the queue is
            # non-empty, so two callers of peek in one cycle are both served (peek does not consume anything)
            self.expect(done["peek"] and done["peek2"], "simultaneous-peeks-not-served",
                        f"two callers request peek at level {level}: served {done['peek']}/{done['peek2']}", port="peek")
            self.hit("two_peek_callers_served")
        for p in ("read", "peek", "peek2"):
            if done.get(p):  # what an executed read / peek returned (the statement speaks of returned elements)
                got = tuple(obs[f"{p}.o.{f}"] for f in self.fields)
                self.expect(got == q[0], "data-mismatch", f"{p} returned {got}, head is {q[0]} (level {level})", port=p)
        # coverage / fault kinds that actually fired
        if stim.get("write.en") and not notfull:
            self.hit("write_refused_at_full")
        if stim.get("read.en") and not nonempty:
            self.hit("read_refused_at_empty")
        if done["write"] and done["read"]:
            self.hit("read_and_write_same_cycle")
            if level == depth - 1 or level == 1:
                self.hit("rw_at_boundary")
        if done.get("clear"):
            self.hit("clear")
            if done["write"]:
                self.hit("clear_with_write")
            if done["read"]:
                self.hit("clear_with_read")
            if level == depth:
                self.hit("clear_at_full")
        if done["write"] and level == depth - 1:
            self.hit("became_full")
        if done["read"] and level == 1 and not done["write"]:
            self.hit("became_empty")
        calls = tuple(p for p in self.ports if done[p])
        self.visit((level, self.wrap_pos(), calls), nontrivial=bool(calls) and (level in (0, 1, depth - 1, depth) or "clear" in calls))
        # step the model: read, then write, clear last
        if done["read"]:
            q.popleft()
            self.rd_count = getattr(self, "rd_count", 0) + 1
        if done["write"]:
            q.append(tuple(stim.get(f"write.i.{f}", 0) for f in self.fields))
            self.wr_count = getattr(self, "wr_count", 0) + 1
            if self.wr_count > depth:
                self.hit("wrapped_around")
        if done.get("clear"):
            q.clear()

    def wrap_pos(self):
        return getattr(self, "wr_count", 0) % self.cfg["depth"]


class Prop(PropBase):
    ID = "C14"
    tiers = {
        "quick": {"runs": 320, "selftest_runs": 4},
        "thorough": {"runs": 6000, "selftest_runs": 32},
    }
    rule = ("one run = one (class, depth, layout) configuration driven for 80-400 cycles by a seeded phase plan "
            "(random / fill / drain / ping-pong / flush / idle); distinct = distinct (configuration, queue level, "
            "write pointer mod depth, executed call set); non-trivial = a call executed at level 0, 1, depth-1 or "
            "depth, or clear ran")
    expected_cov = ["write_refused_at_full", "read_refused_at_empty", "read_and_write_same_cycle", "clear_with_write",
                    "clear_with_read", "clear_at_full", "wrapped_around", "became_full", "became_empty", "two_peek_callers_served"]
    real = ["transactron.lib.fifo.BasicFifo", "transactron.lib.connectors.FIFO", "transactron.lib.allocators.CircularAllocator",
            "transactron.lib.adapters.AdapterTrans", "TransactionManager + scheduler", "amaranth.lib.fifo.SyncFIFO", "amaranth pysim"]
    stubs = ["cycle driver (stimulus)", "deque reference model"]
    search_space = "FIFO configurations and read/peek/write/clear call histories with flush and boundary faults"
    assumptions = ["fullness / emptiness are judged on the queue level at the beginning of the cycle (a read does not make "
                   "room for a write of the same cycle, a write does not feed a read of the same cycle); of the calls "
                   "executed in one cycle `clear` is applied last"]

    def gen_config(self, rng, tier, idx):
        big = tier == "thorough"
        cls = "BasicFifo" if rng.random() < 0.7 else "FIFO"
        depth = rng.choice([1, 2, 3, 4, 5, 6, 7, 8, 9] + ([12, 16, 17] if big else []))
        if cls == "BasicFifo" and depth == 1 and rng.random() < 0.5:
            depth = 2
        layout = [["tag", rng.choice([10, 12, 16])]]
        if rng.random() < 0.4:
            layout.append(["aux", rng.choice([1, 3, 8])])
        cycles = rng.randint(80, 400 if big else 220)
        kinds = ["random", "fill", "drain", "pingpong", "idle"] + (["flush", "flush"] if cls == "BasicFifo" else [])
        return {"cls": cls, "depth": depth, "layout": layout, "cycles": cycles, "peek2": int(cls == "BasicFifo" and rng.random() < 0.4), "twin": int(rng.random() < 0.3),
                "sched": rng.choice(["eager", "eager", "rr"]), "plan": make_plan(rng, cycles, kinds)}

    def make(self, cfg):
        return Scen(cfg)

    def features(self, cfg, viol):
        return {"cls": cfg["cls"], "port": (viol.get("info") or {}).get("port")}

    def cfg_signature(self, cfg):
        return [cfg["cls"], cfg["depth"], cfg["layout"], cfg["sched"], cfg.get("peek2", 0), cfg.get("twin", 0)]

    def shrink_cfg(self, cfg):
        if cfg["depth"] > 1:
            for d in (1, 2, cfg["depth"] // 2, cfg["depth"] - 1):
                if 1 <= d < cfg["depth"]:
                    c = dict(cfg)
                    c["depth"] = d
                    yield c
        if len(cfg["layout"]) > 1:
            c = dict(cfg)
            c["layout"] = cfg["layout"][:1]
            yield c
        if cfg["sched"] != "eager":
            c = dict(cfg)
            c["sched"] = "eager"
            yield c


PROP = Prop()
