"""C14 — FIFO and BasicFifo behave as bounded queues."""

from __future__ import annotations

from collections import deque

from ..comp import CompScenario, layout_from_spec, spec_leaves, spread, rand_leaf, rand_layout_spec
from ..propbase import PropBase, make_plan, phase_at


class Scen(CompScenario):
    def build(self):
        from transactron.lib import BasicFifo, FIFO

        c = self.cfg
        # the layout as the list form or as a StructLayout object (both are documented method layouts)
        layout = layout_from_spec(c["layout"], bool(c.get("layout_obj")))
        self.leafs = spec_leaves(c["layout"])  # (path, width, signed) of every scalar leaf; the first is the tag
        self.fields = [path for path, _, _ in self.leafs]
        self.mul = c.get("tagmul", 1)
        self.basic = c["cls"] == "BasicFifo"
        self.fifo_made = None
        if self.basic:
            self.dut = BasicFifo(layout, c["depth"])
        else:
            ft = c.get("fifo_type", "default")
            if ft == "default":
                self.dut = FIFO(layout, c["depth"])
            else:
                import amaranth.lib.fifo

                if ft == "SyncFIFO":
                    self.dut = FIFO(layout, c["depth"], amaranth.lib.fifo.SyncFIFO)
                else:
                    # a thin subclass of the default type that records its instantiation: same behaviour, so the
                    # readiness clause applies unchanged; the documented parameter ("FIFO module conforming to
                    # Amaranth library FIFO interface") says this is the type that gets instantiated
                    made = self.fifo_made = []

                    class RecordingSyncFIFO(amaranth.lib.fifo.SyncFIFO):
                        def __init__(self, *, width, depth):
                            super().__init__(width=width, depth=depth)
                            made.append((width, depth))

                    if ft == "recording_kw":
                        self.dut = FIFO(layout, c["depth"], fifo_type=RecordingSyncFIFO)
                    else:
                        self.dut = FIFO(layout, c["depth"], RecordingSyncFIFO)
        self.top.add("dut", self.dut)
        self.caller("write", self.dut.write)
        self.caller("read", self.dut.read)
        if c.get("twin"):
            self.twin("read", self.dut.read)  # two consumers sharing one read method
        if self.basic:
            self.caller("peek", self.dut.peek)
            self.caller("clear", self.dut.clear)
            if c.get("peek2"):  # a second, independent caller of peek: simultaneous calls of one method
                self.caller("peek2", self.dut.peek)
        self.q: deque = deque()
        self.tag = 0
        self.ports = ["write", "read"] + (["peek", "clear"] if self.basic else []) + (["peek2"] if self.basic and c.get("peek2") else [])
        return self.top

    def post_elab(self, tm):
        super().post_elab(tm)
        if self.fifo_made is not None:
            width = sum(w for _, w, _ in self.leafs)
            self.expect(len(self.fifo_made) >= 1, "fifo-type-not-instantiated",
                        "FIFO(layout, depth, fifo_type=<a subclass of SyncFIFO>) was elaborated without instantiating the "
                        "given FIFO type", port="fifo_type")
            self.hit("given_fifo_type_instantiated")
            if self.fifo_made != [(width, self.cfg["depth"])]:  # how it is parametrised is not documented: counted
                self.hit("given_fifo_type_instantiated_with_other_parameters")
        elif self.cfg.get("fifo_type", "default") == "SyncFIFO":
            self.hit("explicit_syncfifo_type")

    # ---- stimulus -------------------------------------------------------------------------
    def stimulus(self, rng, cyc):
        kind, p = phase_at(self.cfg["plan"], cyc)
        pw, pr, pp, pc = {
            "random": (p, 1 - p if p not in (0.0, 1.0) else p, 0.5, 0.02),
            "fill": (1.0, 0.1, 0.3, 0.0),
            "drain": (0.1, 1.0, 0.3, 0.0),
            "pingpong": (1.0, 1.0, 1.0, 0.0),
            "flush": (0.8, 0.6, 0.5, 0.35),
            "idle": (0.05, 0.05, 0.05, 0.01),
        }[kind]
        stim = {}
        stim["write.en"] = int(rng.random() < pw)
        stim["read.en"] = int(rng.random() < pr)
        if self.basic:
            stim["peek.en"] = int(rng.random() < pp)
            if self.cfg.get("peek2"):
                stim["peek2.en"] = int(rng.random() < max(pp, 0.5))
            # flush placement bias: right after the model became full or empty, or together with a write
            pc_eff = pc
            if pc > 0 and (len(self.q) in (0, self.cfg["depth"])):
                pc_eff = min(1.0, pc * 2)
            stim["clear.en"] = int(rng.random() < pc_eff)
        # unique tags in the first leaf, spread over its whole width (counter * odd constant modulo 2**width);
        # noise in the others (full width, with all-zeros / all-ones / sign-bit-only patterns mixed in)
        self.tag += 1
        for k, (f, w, sgn) in enumerate(self.leafs):
            stim[f"write.i.{f}"] = spread(self.tag, self.mul, w, sgn) if k == 0 else rand_leaf(rng, w, sgn)
        return self.twin_stim(rng, stim)

    # ---- oracle -----------------------------------------------------------------------------
    def check(self, cyc, stim, obs):
        stim, obs = self.fold_twins(stim, obs)
        depth = self.cfg["depth"]
        q = self.q
        level = len(q)
        nonempty, notfull = level > 0, level < depth
        exp_ready = {"write": notfull, "read": nonempty, "peek": nonempty, "peek2": nonempty, "clear": True}
        done = {}
        for p in self.ports:
            en = stim.get(f"{p}.en", 0)
            done[p] = obs[f"{p}.done"]
            # readiness as the caller experiences it is observable only while it requests; the statement
            # gives readiness of read / peek / write only -- clear is held to `done => en` alone
            if en and p != "clear":
                self.expect(obs[f"{p}.runnable"] == int(exp_ready[p]), "ready-mismatch",
                            f"{p} callable={obs[f'{p}.runnable']} but queue level={level}/{depth}", port=p)
            elif en and not obs[f"{p}.runnable"]:
                self.hit("clear_not_callable")
            self.expect(not done[p] or (en and exp_ready[p]), "ran-when-not-callable",
                        f"{p}: en={en} ready={exp_ready[p]} done={done[p]} level={level}/{depth}", port=p)
            if en and exp_ready[p] and not done[p]:
                self.hit("blocked_though_ready")  # scheduling (C07) business, not a queue violation
        if done.get("peek") is not None and done.get("peek2") is not None and stim.get("peek.en") and stim.get("peek2.en") and nonempty:
            # the statement quantifies over simultaneous calls: peek is ready for every caller while the queue is
            # non-empty, so two callers of peek in one cycle are both served (peek does not consume anything)
            self.expect(done["peek"] and done["peek2"], "simultaneous-peeks-not-served",
                        f"two callers request peek at level {level}: served {done['peek']}/{done['peek2']}", port="peek")
            self.hit("two_peek_callers_served")
        for p in ("read", "peek", "peek2"):
            if done.get(p):  # what an executed read / peek returned (the statement speaks of returned elements)
                got = tuple(obs[f"{p}.o.{f}"] for f in self.fields)
                self.expect(got == q[0], "data-mismatch", f"{p} returned {got}, head is {q[0]} (level {level})", port=p)
                self.data_cov(got)
        # coverage / fault kinds that actually fired
        if stim.get("write.en") and not notfull:
            self.hit("write_refused_at_full")
        if stim.get("read.en") and not nonempty:
            self.hit("read_refused_at_empty")
        if done["write"] and done["read"]:
            self.hit("read_and_write_same_cycle")
            if level == depth - 1 or level == 1:
                self.hit("rw_at_boundary")
        if done.get("clear"):
            self.hit("clear")
            if done["write"]:
                self.hit("clear_with_write")
            if done["read"]:
                self.hit("clear_with_read")
            if level == depth:
                self.hit("clear_at_full")
        if done["write"] and level == depth - 1:
            self.hit("became_full")
        if done["read"] and level == 1 and not done["write"]:
            self.hit("became_empty")
        calls = tuple(p for p in self.ports if done[p])
        self.visit((level, self.wrap_pos(), calls), nontrivial=bool(calls) and (level in (0, 1, depth - 1, depth) or "clear" in calls))
        # step the model: read, then write, clear last
        if done["read"]:
            q.popleft()
            self.rd_count = getattr(self, "rd_count", 0) + 1
        if done["write"]:
            q.append(tuple(stim.get(f"write.i.{f}", 0) for f in self.fields))
            self.wr_count = getattr(self, "wr_count", 0) + 1
            if self.wr_count > depth:
                self.hit("wrapped_around")
        if done.get("clear"):
            q.clear()

    def wrap_pos(self):
        return getattr(self, "wr_count", 0) % self.cfg["depth"]

    def data_cov(self, got):
        """What kind of value came back intact."""
        for (f, w, sgn), v in zip(self.leafs, got):
            if w >= 10 and (v if v >= 0 else v + (1 << w)) >> 9:
                self.hit("returned_value_with_bits_above_9")
            if w > 32 and (v if v >= 0 else v + (1 << w)) >> 32:
                self.hit("returned_value_with_bits_above_32")
            if sgn and v < 0:
                self.hit("returned_negative_signed_field")
            if w == 1 and v:
                self.hit("returned_one_bit_field_set")
        if len(self.leafs) >= 3:
            self.hit("returned_struct_of_3_or_more_leaves")
        if any("." in f for f in self.fields):
            self.hit("returned_nested_or_array_field")


class Prop(PropBase):
    ID = "C14"
    tiers = {
        "quick": {"runs": 320, "selftest_runs": 4},
        "thorough": {"runs": 6000, "selftest_runs": 32},
    }
    rule = ("one run = one (class, depth, layout) configuration driven for 80-400 cycles by a seeded phase plan "
            "(random / fill / drain / ping-pong / flush / idle); layouts: the tag alone or tag + small aux field, or (55 %) wide "
            "(up to 64 bit) / signed / 1-bit / 3-4-field / nested-struct / array fields, given as a list or as a StructLayout "
            "object; the tag is counter * per-run odd constant modulo 2**width (unique, all bits used); FIFO with the default "
            "fifo_type, with SyncFIFO passed explicitly, or with a recording subclass of SyncFIFO; distinct = distinct (configuration, queue level, "
            "write pointer mod depth, executed call set); non-trivial = a call executed at level 0, 1, depth-1 or "
            "depth, or clear ran")
    expected_cov = ["write_refused_at_full", "read_refused_at_empty", "read_and_write_same_cycle", "clear_with_write",
                    "clear_with_read", "clear_at_full", "wrapped_around", "became_full", "became_empty", "two_peek_callers_served",
                    "returned_value_with_bits_above_9", "returned_value_with_bits_above_32", "returned_negative_signed_field",
                    "returned_one_bit_field_set", "returned_struct_of_3_or_more_leaves", "returned_nested_or_array_field",
                    "given_fifo_type_instantiated", "explicit_syncfifo_type"]
    real = ["transactron.lib.fifo.BasicFifo", "transactron.lib.connectors.FIFO", "transactron.lib.allocators.CircularAllocator",
            "transactron.lib.adapters.AdapterTrans", "TransactionManager + scheduler", "amaranth.lib.fifo.SyncFIFO", "amaranth pysim"]
    stubs = ["cycle driver (stimulus)", "deque reference model",
             "RecordingSyncFIFO (subclass of amaranth.lib.fifo.SyncFIFO that only records its instantiation; passed as fifo_type)"]
    search_space = ("FIFO configurations (depths, narrow / wide / signed / nested layouts, fifo_type) and read/peek/write/clear "
                    "call histories with flush and boundary faults")
    assumptions = ["fullness / emptiness are judged on the queue level at the beginning of the cycle (a read does not make "
                   "room for a write of the same cycle, a write does not feed a read of the same cycle); of the calls "
                   "executed in one cycle `clear` is applied last"]

    def gen_config(self, rng, tier, idx):
        big = tier == "thorough"
        cls = "BasicFifo" if rng.random() < 0.7 else "FIFO"
        depth = rng.choice([1, 2, 3, 4, 5, 6, 7, 8, 9] + ([12, 16, 17] if big else []))
        if cls == "BasicFifo" and depth == 1 and rng.random() < 0.5:
            depth = 2
        layout = rand_layout_spec(rng, rich=rng.random() < 0.55)
        cycles = rng.randint(80, 400 if big else 220)
        kinds = ["random", "fill", "drain", "pingpong", "idle"] + (["flush", "flush"] if cls == "BasicFifo" else [])
        cfg = {"cls": cls, "depth": depth, "layout": layout, "cycles": cycles, "peek2": int(cls == "BasicFifo" and rng.random() < 0.4), "twin": int(rng.random() < 0.3),
               "sched": rng.choice(["eager", "eager", "rr"]), "plan": make_plan(rng, cycles, kinds)}
        # drawn last, so that the older keys of a run keep their values
        cfg["tagmul"] = rng.getrandbits(64) | 1  # tag = counter * odd constant modulo 2**width: unique, all bits used
        cfg["layout_obj"] = int(rng.random() < 0.25)
        if cls == "FIFO":
            cfg["fifo_type"] = rng.choice(["default", "default", "SyncFIFO", "recording", "recording_kw"])
        return cfg

    def make(self, cfg):
        return Scen(cfg)

    def features(self, cfg, viol):
        return {"cls": cfg["cls"], "port": (viol.get("info") or {}).get("port"), "fifo_type": cfg.get("fifo_type", "default")}

    def cfg_signature(self, cfg):
        return [cfg["cls"], cfg["depth"], cfg["layout"], cfg["sched"], cfg.get("peek2", 0), cfg.get("twin", 0),
                cfg.get("layout_obj", 0), cfg.get("fifo_type", "default")]

    def shrink_cfg(self, cfg):
        if cfg["depth"] > 1:
            for d in (1, 2, cfg["depth"] // 2, cfg["depth"] - 1):
                if 1 <= d < cfg["depth"]:
                    c = dict(cfg)
                    c["depth"] = d
                    yield c
        if len(cfg["layout"]) > 1:
            c = dict(cfg)
            c["layout"] = cfg["layout"][:1]
            yield c
        if cfg.get("layout_obj"):
            c = dict(cfg)
            c["layout_obj"] = 0
            yield c
        if cfg["sched"] != "eager":
            c = dict(cfg)
            c["sched"] = "eager"
            yield c


PROP = Prop()
