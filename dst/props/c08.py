"""C08 — conflict priorities are respected."""
from ..coregen.prop import CoreProp


class Prop(CoreProp):
    ID = "C08"
    checks = ['C08']
    scheds = ['eager']
    tiers = {"quick": {"runs": 800, "selftest_runs": 4}, "thorough": {"runs": 8000, "selftest_runs": 32}}
    feat = {'n_conflicts': (1, 4), 'prio': True, 'n_before': (0, 2), 'no_amb': True, 'p_self_conflict_excl': 0.4, 'p_alias': 0.4}
    rule = 'one run = one generated program (1-3 modules, 1-5 transactions, 0-6 methods, call depth <= 3, nested bodies, If/Switch/FSM around bodies and calls, enable_call, validate_arguments, aliases, nonexclusive methods, prioritised add_conflict relations and schedule_before chains) under one arbiter and one internal set order, driven for 60-160 cycles by a seeded phase plan (random / all-on contention / single-method stall / flapping / exhaustive valuation sweep when <= 10 one-bit inputs); distinct = distinct (program, arbiter, set of transactions running in a cycle); non-trivial = at least one transaction ran'
    expected_cov = ['prioritised_pair_both_enabled', 'high_priority_won', 'low_priority_ran_because_high_blocked_by_third', 'schedule_before_pair_runs_together']


PROP = Prop()
