"""C11 — ill-formed designs are rejected, well-formed ones accepted.

Elaboration-time only (DESIGN.md section 5, C11): the simulator contributes the seeded program search
and the design-level fault injection; no simulated time passes."""
import random

from ..coregen.prop import CoreProp
from ..coregen.scen import CoreScenario
from ..coregen.inject import inject, KINDS
from ..coregen.gen import generate
from ..kernel import Violation, h64
from ..propbase import make_plan


class Scen(CoreScenario):
    def cycles(self):
        return 0 if self.cfg.get("inject") else int(self.cfg.get("cycles", 0))

    def on_elab_error(self, e):
        if self.cfg.get("inject"):
            self.hit("rejected_" + self.cfg["inject"])
            if " levels deep in " in self.cfg.get("inject_desc", ""):
                self.hit("rejected_rdep_conflict_with_direct_parent_at_nesting_depth_2_or_3")
            self.visit(("rejected", self.cfg["inject"], type(e).__name__), nontrivial=True)
            self.notes["rejected_with"] = f"{type(e).__name__}: {str(e)[:200]}"
            return True
        return False

    def on_elab_ok(self):
        if self.cfg.get("inject"):
            raise Violation("ill-formed-design-accepted", f"{self.cfg['inject']}: {self.cfg['inject_desc']} elaborated without an error",
                            defect=self.cfg["inject"])
        self.hit("accepted_well_formed")
        self.visit(("accepted", len(self.a.bodies), len(self.a.sites)), nontrivial=True)

    def check(self, cyc, stim, obs):
        pass


class Prop(CoreProp):
    ID = "C11"
    checks = ["C11"]
    scheds = ["eager"]
    tiers = {"quick": {"runs": 600, "selftest_runs": 4}, "thorough": {"runs": 12000, "selftest_runs": 32}}
    feat = {"n_conflicts": (0, 3), "prio": True, "n_before": (0, 2), "rdep": True, "p_fwd": 0.2, "p_nested": 0.25, "p_ctrl": 0.45, "p_nonex": 0.35, "p_self_conflict_excl": 0.6}
    rule = ("one run = one generated program; half of the runs keep it well-formed (must elaborate), the other half inject exactly one "
            "defect chosen by the seed from {double call of an exclusive method on a non-exclusive path (same body / two chains / "
            "parallel Ifs / calls that are only disabled by enable_call), method calling itself (directly / through a chain / through "
            "an alias), priority 2- and 3-cycles, second caller of a single_caller method, transaction ready-dependent on a "
            "transaction it conflicts with (nested once / nested 2-3 levels deep and conflicting with its direct parent only / explicit)} (must be rejected); distinct = distinct (program shape, verdict); "
            "every run is non-trivial")
    expected_cov = ["accepted_well_formed", "design_exclusive_method_called_in_several_alternatives",
                    "design_nonexclusive_method_called_repeatedly_on_one_path"] + ["rejected_" + k for k in KINDS] + \
                   ["rejected_rdep_conflict_with_direct_parent_at_nesting_depth_2_or_3"]
    search_space = "generated programs x one injected well-formedness defect"
    technique = ("seeded program generation with design-level fault injection (one well-formedness defect per run); verdict = "
                 "elaboration accepts / rejects; elaboration-time only, no simulated time")
    level_note = ("elaboration-time property: the simulator supplies the seeded search over programs and defects; trusted: the harness's "
                  "own reading of the documented well-formedness rules (dst/coregen/analysis.py defects())")

    def gen_config(self, rng, tier, idx):
        prng = random.Random(h64(self.master_seed, self.ID, "program", idx // 2))
        prog = generate(prng, dict(self.feat))
        cfg = {"prog": prog, "sched": "eager", "cycles": 0, "checks": ["C11"], "plan": [[0, "random", 0.5]], "inject": None}
        if idx % 2 == 1:
            kinds = list(KINDS)
            rng.shuffle(kinds)
            for kind in kinds:
                r = inject(rng, prog, kind)
                if r is not None:
                    cfg["prog"], cfg["inject_desc"], cfg["defects_by_own_rules"] = r
                    cfg["inject"] = kind
                    break
        return cfg

    def make(self, cfg):
        return Scen(cfg)

    def features(self, cfg, viol):
        f = super().features(cfg, viol)
        f["inject"] = cfg.get("inject")
        return f

    def violation_class(self, feats):
        return {"kind": feats["kind"], "inject": feats.get("inject"), "self_conflict": feats.get("self_conflict"),
                "self_conflict_prioritised": feats.get("self_conflict_prioritised")}

    def shrink_cfg(self, cfg):
        if cfg.get("inject"):
            return  # shrinking must keep the injected defect: not attempted
        yield from super().shrink_cfg(cfg)


PROP = Prop()
