"""C22 — AsyncMemoryBank reads current contents.

Array model: a read returns the row content before this cycle's writes (writes become visible in the
next cycle); partial (granular) writes replace only the enabled granules.
"""

from __future__ import annotations

from ..comp import CompScenario
from ..propbase import PropBase, make_plan


def total_width(cfg) -> int:
    if cfg.get("struct"):
        return sum(f[0] for f in cfg["struct"])
    return cfg["width"] * (cfg["elems"] or 1)


def leaf_widths(cfg) -> list:
    """Widths of the scalar leaves of a row, least significant first."""
    if cfg.get("struct"):
        return [f[0] for f in cfg["struct"]]
    return [cfg["width"]] * (cfg["elems"] or 1)


def en_width(cfg) -> int:
    if cfg["gran"] is None:
        return 1
    return (cfg["elems"] or cfg["width"]) // cfg["gran"]


class Scen(CompScenario):
    def build(self):
        from amaranth import signed, unsigned
        from amaranth.lib import data
        from amaranth.lib.memory import Memory
        from transactron.lib.storage import AsyncMemoryBank

        c = self.cfg
        self.depth, self.nr, self.nw = c["depth"], c["nr"], c["nw"]
        self.tw = total_width(c)
        self.en_w = en_width(c)
        self.gbits = self.tw // self.en_w
        self.full_mask = (1 << self.en_w) - 1
        self.leaf_ws = leaf_widths(c)
        if c.get("struct"):
            shape = data.StructLayout({f"f{k}": (signed(w) if sg else unsigned(w)) for k, (w, sg) in enumerate(c["struct"])})
        else:
            shape = data.ArrayLayout(c["width"], c["elems"]) if c["elems"] else c["width"]
            if c.get("plain_signed"):  # a plain signed row: what read returns has to keep the shape (seeded change C22-5)
                shape = signed(c["width"])
        # memory_type: not passed / the default type passed explicitly / a thin subclass of the ideal memory that
        # records every instantiation and comes with its own initial content (the bank passes init=[])
        self.memtype = c.get("memtype", "default")
        self.preset = [int(v) for v in (c.get("preset") or [])][: self.depth] if self.memtype == "Recording" else []
        self.made = made = []
        preset = self.preset

        class RecordingMemory(Memory):
            def __init__(self, *, shape, depth, init, **kw):
                made.append((depth, len(list(init))))
                rows = [shape.from_bits(v) for v in preset] if isinstance(shape, data.Layout) else list(preset)
                super().__init__(shape=shape, depth=depth, init=rows, **kw)

        kw = {"default": {}, "Memory": {"memory_type": Memory}, "Recording": {"memory_type": RecordingMemory}}[self.memtype]
        self.dut = AsyncMemoryBank(shape=shape, depth=self.depth, granularity=c["gran"], read_ports=self.nr,
                                   write_ports=self.nw, **kw)
        self.top.add("dut", self.dut)
        for i in range(self.nr):
            self.caller(f"rd{i}", self.dut.read[i])
        for j in range(self.nw):
            self.caller(f"wr{j}", self.dut.write[j])
        self.wleaves = [[n for n in self.inp if n.startswith(f"wr{j}.i.data")] for j in range(self.nw)]
        self.rleaves = [[n for n in self.obs if n.startswith(f"rd{i}.o.data")] for i in range(self.nr)]
        self.mem = [0] * self.depth
        self.mem[: len(self.preset)] = self.preset
        self.written: set = set()
        self.prev_writes: dict = {}
        self.phase_idx = -1
        self.pool = list(range(self.depth))
        return self.top

    def pack(self, vals, names):
        v, off = 0, 0
        for n, w in zip(names, self.leaf_ws):
            v |= (vals.get(n, 0) & ((1 << w) - 1)) << off
            off += w
        return v

    def bitmask(self, mask):
        bm = 0
        g = (1 << self.gbits) - 1
        for b in range(self.en_w):
            if (mask >> b) & 1:
                bm |= g << (b * self.gbits)
        return bm

    def _phase(self, cyc):
        plan = self.cfg["plan"]
        k = 0
        for n, ent in enumerate(plan):
            if ent[0] <= cyc:
                k = n
            else:
                break
        return k, plan[k][1], plan[k][2]

    def _mask(self, rng):
        if self.en_w == 1:  # a single lane: the mask is one bit, and an empty mask must write nothing
            return int(rng.random() < 0.7) if self.cfg["gran"] is not None else 1
        r = rng.random()
        if r < 0.2:
            return self.full_mask
        if r < 0.5:
            return 1 << rng.randrange(self.en_w)
        if r < 0.56:
            return 0
        return rng.randint(1, self.full_mask)

    # ---- stimulus -------------------------------------------------------------------------
    def stimulus(self, rng, cyc):
        k, kind, p = self._phase(cyc)
        if k != self.phase_idx:
            self.phase_idx = k
            if rng.random() < 0.7:
                n = min(self.depth, rng.choice([1, 2, 2, 3, 4]))
                self.pool = sorted(rng.sample(range(self.depth), n))
            else:
                self.pool = list(range(self.depth))
        pool = self.pool
        prd, pw = {"random": (1 - p if p not in (0.0, 1.0) else p, p), "chase": (0.9, 0.9), "readonly": (0.9, 0.0),
                   "writeonly": (0.05, 0.9), "idle": (0.1, 0.1)}[kind]
        stim = {}
        used = set()
        waddrs = []
        for j in range(self.nw):
            en = int(rng.random() < pw)
            a = rng.choice(pool)
            if en and a in used:  # premise: no same-row simultaneous writes
                rest = [x for x in range(self.depth) if x not in used]
                if rest:
                    a = rng.choice(rest)
                else:
                    en = 0
            if en:
                used.add(a)
                waddrs.append(a)
            stim[f"wr{j}.en"] = en
            stim[f"wr{j}.i.addr"] = a
            cur = self.mem[a]
            for n, lw in zip(self.wleaves[j], self.leaf_ws):
                old = cur & ((1 << lw) - 1)
                cur >>= lw
                v = (old ^ ((1 << lw) - 1)) if rng.random() < 0.3 else rng.getrandbits(lw)
                if v == old and rng.random() < 0.8:
                    v = (old + 1) & ((1 << lw) - 1)
                stim[n] = v
            if self.cfg["gran"] is not None:
                stim[f"wr{j}.i.mask"] = self._mask(rng)
        recent = sorted(self.prev_writes)
        for i in range(self.nr):
            stim[f"rd{i}.en"] = int(rng.random() < prd)
            r = rng.random()
            if kind == "chase" and waddrs and r < 0.45:
                a = rng.choice(waddrs)  # the row being written right now: must still show the old content
            elif kind == "chase" and recent and r < 0.85:
                a = rng.choice(recent)  # the row written in the previous cycle: must show the new content
            else:
                a = rng.choice(pool)
            stim[f"rd{i}.i.addr"] = a
        return stim

    # ---- oracle -----------------------------------------------------------------------------
    def check(self, cyc, stim, obs):
        mem = self.mem
        if cyc == 0:
            if self.memtype == "Recording":
                # the memory the bank is built on is of the type handed to the constructor (how many instances and
                # of which depth is the bank's business; the data oracle below judges what they return)
                self.expect(len(self.made) >= 1, "memory-type-not-used",
                            "AsyncMemoryBank(memory_type=T) was elaborated without instantiating T", made=len(self.made))
                self.hit("memory_type_recording_subclass")
            elif self.memtype == "Memory":
                self.hit("memory_type_passed_explicitly")
            if self.depth == 1:
                self.hit("depth_one")
            if self.cfg.get("struct"):
                self.hit("struct_shape")
        writes = {}
        for j in range(self.nw):
            en, done = stim.get(f"wr{j}.en", 0), obs[f"wr{j}.done"]
            self.expect(not done or en, "ran-when-not-callable", f"write {j} ran without a request", port=f"wr{j}")
            if en and not done:
                self.hit("blocked_though_ready")
            if done:
                a = stim.get(f"wr{j}.i.addr", 0)
                self.premise(a < self.depth, f"write {j}: address {a} outside depth {self.depth}")
                self.premise(a not in writes, f"two write ports address row {a} in one cycle")
                mask = stim.get(f"wr{j}.i.mask", 0) & self.full_mask if self.cfg["gran"] is not None else 1
                writes[a] = (j, self.pack(stim, self.wleaves[j]), mask)
        rows = []
        for i in range(self.nr):
            en, done = stim.get(f"rd{i}.en", 0), obs[f"rd{i}.done"]
            self.expect(not done or en, "ran-when-not-callable", f"read {i} ran without a request", port=f"rd{i}")
            if en and not done:
                self.hit("blocked_though_ready")
            if not done:
                continue
            a = stim.get(f"rd{i}.i.addr", 0)
            self.premise(a < self.depth, f"read {i}: address {a} outside depth {self.depth}")
            got, want = self.pack(obs, self.rleaves[i]), mem[a]
            if self.cfg.get("plain_signed") and len(self.rleaves[i]) == 1:
                raw, w = obs.get(self.rleaves[i][0], 0), self.cfg["width"]
                want_s = want - (1 << w) if want >> (w - 1) else want
                if want_s < 0:
                    self.hit("negative_value_read_from_signed_row")
                self.expect(raw == want_s, "read-data-mismatch",
                            f"read[{i}] of row {a} (shape signed({w})) returned {raw}, the row holds {want_s}",
                            port=f"rd{i}", written_now=a in writes, written_prev=a in self.prev_writes, got=raw, want=want_s)
            self.expect(got == want, "read-data-mismatch",
                        f"read[{i}] of row {a} returned {got}, latest completed writes left {want} "
                        f"(row written this cycle: {a in writes}, previous cycle: {a in self.prev_writes})",
                        port=f"rd{i}", written_now=a in writes, written_prev=a in self.prev_writes, got=got, want=want)
            if a in writes:
                self.hit("read_row_written_this_cycle")
                if writes[a][2] != self.full_mask:
                    self.hit("read_row_partially_written_this_cycle")
            if a in self.prev_writes:
                self.hit("read_row_written_previous_cycle")
                if self.prev_writes[a][2] not in (0, self.full_mask):
                    self.hit("read_after_partial_write")
            if a not in self.written:
                self.hit("read_never_written_row")
                if want != 0:
                    self.hit("read_preset_content_of_given_memory_type")
            if i >= 3:
                self.hit("read_by_port_ge3")
            if a in rows:
                self.hit("two_reads_of_one_row")
            rows.append(a)
        for a, (j, d, mask) in writes.items():
            if mask == 0:
                self.hit("write_with_empty_mask")
            elif mask != self.full_mask:
                self.hit("partial_write")
            if a in self.prev_writes and self.prev_writes[a][0] != j:
                self.hit("row_rewritten_by_other_port")
            if j >= 3:
                self.hit("write_by_port_ge3")
        if len(writes) > 1:
            self.hit("simultaneous_writes")
        self.visit((tuple(sorted((a in writes, a in self.prev_writes) for a in rows)), len(writes)),
                   nontrivial=any(a in writes or a in self.prev_writes for a in rows))
        # step: writes become visible in the next cycle
        for a, (j, d, mask) in writes.items():
            bm = self.bitmask(mask)
            mem[a] = (mem[a] & ~bm) | (d & bm)
            if mask:
                self.written.add(a)
        self.prev_writes = writes


class Prop(PropBase):
    ID = "C22"
    tiers = {
        "quick": {"runs": 1400, "selftest_runs": 4, "shrink_budget_s": 5},
        "thorough": {"runs": 28000, "selftest_runs": 32, "shrink_budget_s": 30},
    }
    rule = ("one run = one (depth 1-16, shape (plain, array, struct), granularity, read ports 1-4, write ports 1-4, "
            "memory_type: not passed / amaranth Memory passed / recording subclass of it with own initial content) "
            "configuration driven for 60-200 cycles "
            "by a seeded phase plan (random / chase: reads aimed at the rows written now and one cycle ago / "
            "read-only / write-only / idle) over a small per-phase row pool; distinct = distinct (configuration, "
            "per executed read (row written now, row written in the previous cycle), number of writes); "
            "non-trivial = a read of a row written in this or the previous cycle")
    expected_cov = ["read_row_written_this_cycle", "read_row_partially_written_this_cycle",
                    "read_row_written_previous_cycle", "read_after_partial_write", "read_never_written_row",
                    "two_reads_of_one_row", "partial_write", "write_with_empty_mask", "row_rewritten_by_other_port",
                    "simultaneous_writes", "memory_type_recording_subclass", "memory_type_passed_explicitly",
                    "read_preset_content_of_given_memory_type", "depth_one", "struct_shape", "negative_value_read_from_signed_row", "read_by_port_ge3",
                    "write_by_port_ge3"]
    real = ["transactron.lib.storage.AsyncMemoryBank", "amaranth.lib.memory.Memory (comb read ports)",
            "transactron.lib.adapters.AdapterTrans", "TransactionManager + scheduler", "amaranth pysim"]
    stubs = ["cycle driver (stimulus)", "array reference model",
             "RecordingMemory: subclass of amaranth.lib.memory.Memory given as memory_type (records instantiation, own init)"]
    assumptions = ["addresses stay below depth", "no two write calls address the same row in one cycle (premise)",
                   "rows that were never written read as the initial content of the memory the bank was given "
                   "(zero for amaranth's Memory, which the bank creates with init=[])",
                   "memory_type: the bundled multiport memories refuse domain='comb' read ports, so the alternatives "
                   "to the default are the ideal memory itself and subclasses of it"]
    search_space = "AsyncMemoryBank configurations x read/write call histories"

    def gen_config(self, rng, tier, idx):
        big = tier == "thorough"
        depth = rng.choice([1, 2, 3, 4, 5, 6, 7, 8, 9, 12] + ([16, 17, 32, 33] if big else [16]))
        width = rng.choice([1, 2, 3, 4, 5, 6, 8] + ([16, 32] if big else [12]))
        elems, struct = 0, None
        r = rng.random()
        if r < 0.2:  # ArrayLayout rows: granularity counts elements
            width, elems = rng.choice([(1, 4), (2, 2), (2, 3), (2, 4), (3, 2), (4, 2)])
        elif r < 0.32:  # StructLayout rows: [[field width, field signed], ...]; no granularity (the ideal memory has none)
            struct = [[rng.choice([1, 2, 3, 5]), rng.random() < 0.4] for _ in range(rng.choice([2, 3, 4]))]
            width = sum(f[0] for f in struct)
        gran = None
        if not struct and rng.random() < 0.55:
            n = elems or width
            divs = [g for g in range(1, n + 1) if n % g == 0]
            gran = rng.choice([1, n // 2 if n % 2 == 0 else 1, rng.choice(divs)])
        ports = [1, 1, 2, 2, 3, 3, 4] + ([5, 6] if big else [])
        memtype = rng.choice(["default", "default", "Memory", "Recording", "Recording", "Recording"])
        preset = []
        if memtype == "Recording":
            tw = width * (elems or 1)
            preset = [rng.getrandbits(tw) if rng.random() < 0.8 else 0 for _ in range(rng.choice([depth, rng.randint(1, depth)]))]
        plain_signed = not struct and not elems and gran is None and width >= 2 and rng.random() < 0.35
        if plain_signed:
            memtype, preset = rng.choice(["default", "Memory"]), []
        cycles = rng.randint(60, 260 if big else 180)
        nr, nw = rng.choice(ports), rng.choice(ports)
        if nr + nw >= 5:  # many callers to simulate: shorter runs keep the batch time
            cycles = min(cycles, 120 if nr + nw < 7 else 90)
        return {"depth": depth, "width": width, "elems": elems, "struct": struct, "gran": gran, "nr": nr,
                "nw": nw, "memtype": memtype, "preset": preset, "cycles": cycles, "plain_signed": plain_signed,
                "sched": rng.choice(["eager", "eager", "rr"]),
                "plan": make_plan(rng, cycles, ["random", "random", "chase", "chase", "readonly", "writeonly", "idle"],
                                  min_len=5, max_len=30)}

    def make(self, cfg):
        return Scen(cfg)

    def features(self, cfg, viol):
        info = viol.get("info") or {}
        return {"gran_set": cfg["gran"] is not None, "gran_multi": en_width(cfg) > 1, "nw_gt1": cfg["nw"] > 1,
                "nr_gt1": cfg["nr"] > 1, "array_shape": bool(cfg["elems"]), "struct_shape": bool(cfg.get("struct")),
                "memtype": cfg.get("memtype", "default"), "written_now": info.get("written_now"),
                "written_prev": info.get("written_prev")}

    def violation_class(self, feats):
        return {k: feats.get(k) for k in ("kind", "gran_multi", "array_shape")}

    def cfg_signature(self, cfg):
        return [cfg[k] for k in ("depth", "width", "elems", "gran", "nr", "nw", "sched")] + \
            [cfg.get("struct"), cfg.get("memtype", "default"), bool(cfg.get("plain_signed"))]

    def shrink_cfg(self, cfg):
        if cfg["nr"] > 1:
            c = dict(cfg)
            c["nr"] = cfg["nr"] - 1
            yield c
        if cfg["nw"] > 1:
            c = dict(cfg)
            c["nw"] = cfg["nw"] - 1
            yield c
        for d in (1, 2, 3, 4, cfg["depth"] - 1):
            if 1 <= d < cfg["depth"]:
                c = dict(cfg)
                c["depth"] = d
                c["preset"] = (cfg.get("preset") or [])[:d]
                yield c
        if cfg.get("memtype", "default") == "Memory":
            c = dict(cfg)
            c["memtype"] = "default"
            yield c
        if cfg.get("struct"):
            c = dict(cfg)
            c["struct"], c["width"] = None, total_width(cfg)
            yield c
        if cfg["gran"] is not None:
            c = dict(cfg)
            c["gran"] = None
            yield c
        if cfg["sched"] != "eager":
            c = dict(cfg)
            c["sched"] = "eager"
            yield c


PROP = Prop()
