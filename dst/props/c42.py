"""C42 — DependencyManager keys behave as documented.

No clock.  2-4 simulated "modules" each own a script of add_dependency / get_dependency /
get_optional_dependency operations on a handful of key classes; the seed interleaves the scripts
(elaboration order is whatever the module tree gives).  Every operation is executed on the real
`DependencyManager` and on a reference model (dict of lists + lock set + cache validity); every return
value and whether the operation raised must agree (the exception type is not part of the statement).
Left open by the statement and therefore accepted either way, the model following what the library
did: an add to a locking key whose only reads so far failed; a second add to a simple key (the error may
come at add time or at get time).  How often `combine` is called is only counted -- a stale cached
value shows in the value comparison.

Key classes are defined the way the library defines its own keys: frozen dataclasses deriving from
`SimpleKey` / `ListKey` / `DependencyKey` / `UnifierKey` with the class attributes lock_on_get / cache /
empty_valid / default_value overridden, optionally with one field (so that equal field values name the
same key and different values different keys).  A fresh key *instance* is constructed for every operation.
`combine` of every class is wrapped (record arguments, then call the library's implementation), which
gives the oracle the number of combines and the exact list each one received.

Everything in an operation is an integer, so the generic shrinker can drop / zero fields:
  {"who": module, "dm": manager, "op": 0 get_optional / 1 get / 2 add, "key": key class, "n": field value,
   "val": tag of the added dependency}
"""

from __future__ import annotations

from dataclasses import dataclass

from ..comp import CompScenario
from ..kernel import Violation
from ..propbase import PropBase

OP_OPT, OP_GET, OP_ADD = 0, 1, 2
OPNAME = {OP_OPT: "get_optional_dependency", OP_GET: "get_dependency", OP_ADD: "add_dependency"}

_REC = None  # scenario whose keys are currently live (combine wrappers report to it)


_CLS_CACHE: dict = {}


def _make_key_class(idx: int, spec: dict):
    """Key classes are pure functions of (index, spec); built once per worker process."""
    sig = (idx, tuple(sorted((k, repr(v)) for k, v in spec.items())))
    if sig not in _CLS_CACHE:
        _CLS_CACHE[sig] = _build_key_class(idx, spec)
    return _CLS_CACHE[sig]


def _build_key_class(idx: int, spec: dict):
    from transactron.utils.dependencies import DependencyKey, SimpleKey, ListKey
    from transactron.lib.dependencies import UnifierKey
    from transactron.lib.transformers import MethodProduct

    kind = spec["kind"]
    ns: dict = {"_spec_idx": idx}
    ann: dict = {}
    if spec["param"]:
        ann["n"] = int
    ns["__annotations__"] = ann

    if kind == "simple":
        base = SimpleKey
    elif kind == "list":
        base = ListKey
    elif kind == "unifier":
        base = UnifierKey
    else:
        base = DependencyKey

    if kind == "tuple":
        def combine(self, data):
            _REC.note_combine(self, data)
            return ("T", tuple(data))  # a fresh object per combine: staleness and cache use are visible
    else:
        def combine(self, data, _base=base):
            _REC.note_combine(self, data)
            return _base.combine(self, data)
    ns["combine"] = combine

    # override only what differs from the class defaults, as user code does
    if spec["lock"] != base.lock_on_get:
        ns["lock_on_get"] = spec["lock"]
    if spec["cache"] != base.cache:
        ns["cache"] = spec["cache"]
    if spec["empty_valid"] != base.empty_valid:
        ns["empty_valid"] = spec["empty_valid"]
    if kind == "simple" and spec["empty_valid"]:
        ns["default_value"] = spec["default"]

    name = f"VKey{idx}_{kind}"
    if kind == "unifier":
        def unifier(methods):
            u = MethodProduct.create(methods)
            _REC.note_unifier(u, methods)
            return u

        cls = type(base)(name, (base,), ns, unifier=unifier)
    else:
        cls = type(base)(name, (base,), ns)
    return dataclass(frozen=True)(cls)


class Scen(CompScenario):
    simulated = False

    def __init__(self, cfg):
        global _REC
        super().__init__(cfg)
        from transactron.utils.dependencies import DependencyManager

        _REC = self
        self.specs = cfg["keys"]
        self.classes = [_make_key_class(i, s) for i, s in enumerate(self.specs)]
        self.ndm = cfg["managers"]
        self.dms = [DependencyManager() for _ in range(self.ndm)]
        # model, per manager: deps[key] = list of tags, locked set, cached[key] = canonical value
        self.deps = [dict() for _ in range(self.ndm)]
        self.locked = [set() for _ in range(self.ndm)]
        self.maybe_locked = [set() for _ in range(self.ndm)]  # locking keys read only by reads that failed
        self.cached = [dict() for _ in range(self.ndm)]
        self.combines: list = []  # (key id, tags) reported by the wrappers during the current operation
        self.unif: dict = {}  # id(unifier object) -> (object, tags it was built from)
        self.methods: dict = {}
        self.objs: dict = {}
        self.ptr = [0] * len(cfg["scripts"])
        self.burst = None
        self.seen_n: dict = {}

    def cycles(self):
        return sum(len(s) for s in self.cfg["scripts"])

    # ---- values -----------------------------------------------------------------------------
    def value(self, spec, tag: int):
        """The dependency object standing for `tag` (a Method for unifier keys, a string otherwise)."""
        if spec["kind"] == "unifier":
            if tag not in self.methods:
                from transactron import Method

                self.methods[tag] = Method(name=f"dep{tag}", i=[("x", 4)], o=[("y", 4)])
            return self.methods[tag]
        return f"v{tag}"

    def tag_of(self, spec, obj):
        if spec["kind"] == "unifier":
            for t, m in self.methods.items():
                if m is obj:
                    return t
            return f"?{obj!r}"
        if isinstance(obj, str) and obj.startswith("v") and obj[1:].isdigit():
            return int(obj[1:])
        return f"?{obj!r}"

    def canon(self, spec, val):
        """Library return value -> JSON-able canonical form comparable with the model's."""
        if val is None:
            return None
        k = spec["kind"]
        try:
            if k == "simple":
                return ["default"] if (spec["empty_valid"] and val == spec["default"]) else ["dep", self.tag_of(spec, val)]
            if k == "list":
                return ["list"] + [self.tag_of(spec, v) for v in val]
            if k == "tuple":
                return ["tuple", val[0]] + [self.tag_of(spec, v) for v in val[1]]
            method, unifiers = val
            unifiers = tuple(unifiers)
            if not unifiers:
                return ["direct", self.tag_of(spec, method)]
            (u,) = unifiers
            ent = self.unif.get(id(u))
            if ent is None or ent[0] is not u:
                return ["unknown-unifier", repr(u)]
            if method is not u.method:
                return ["method-not-of-unifier", repr(method)]
            bound = []
            for tgt in getattr(u, "targets", []):
                bp = getattr(tgt, "_body_ptr", None)
                bound.append(self.tag_of(spec, bp))
            if bound and bound != ent[1]:
                return ["unifier-targets-differ", bound, ent[1]]
            return ["unified"] + list(ent[1])
        except Exception as e:  # malformed return value: reported through the comparison
            return ["malformed", repr(val)[:80], type(e).__name__]

    # ---- wrappers' callbacks --------------------------------------------------------------
    def note_combine(self, key, data):
        spec = self.specs[key._spec_idx]
        self.combines.append(((key._spec_idx, getattr(key, "n", 0)), [self.tag_of(spec, v) for v in data]))

    def note_unifier(self, u, methods):
        spec = next(s for s in self.specs if s["kind"] == "unifier")
        self.unif[id(u)] = (u, [self.tag_of(spec, m) for m in methods])

    # ---- stimulus: interleave the scripts ---------------------------------------------------
    def stimulus(self, rng, i):
        scripts = self.cfg["scripts"]
        live = [w for w in range(len(scripts)) if self.ptr[w] < len(scripts[w])]
        mode = self.cfg["interleave"]
        if self.burst is not None and self.burst[0] in live and self.burst[1] > 0:
            w = self.burst[0]
            self.burst[1] -= 1
        else:
            w = live[rng.randrange(len(live))] if mode != "sequential" else live[0]
            if mode == "bursty":
                self.burst = [w, rng.randint(1, 6)]
        op, key, n, val, dm = scripts[w][self.ptr[w]]
        self.ptr[w] += 1
        return {"who": w, "dm": dm, "op": op, "key": key, "n": n, "val": val}

    # ---- one operation on the real manager and on the model --------------------------------
    def apply(self, i, op):
        from transactron.utils.dependencies import DependencyContext

        ki = op.get("key", 0) % len(self.specs)
        spec = self.specs[ki]
        n = op.get("n", 0) if spec["param"] else 0
        d = op.get("dm", 0) % self.ndm
        opc = op.get("op", 0) % 3
        tag = op.get("val", 0)
        kid = (ki, n)
        cls = self.classes[ki]
        key = cls(n) if spec["param"] else cls()  # a fresh, equal instance every time
        dm = self.dms[d]
        deps = self.deps[d].setdefault(kid, [])
        locked, cached, maybe = self.locked[d], self.cached[d], self.maybe_locked[d]

        # -- model ----------------------------------------------------------------------------
        exp_combines = []
        was_locked = kid in locked
        was_maybe = kid in maybe
        had_cache = kid in cached
        if opc == OP_ADD:
            if was_locked:
                want = "raises:KeyError"
            elif was_maybe or (spec["kind"] == "simple" and deps):
                want = None  # either outcome: add after a failed read / second add to a simple key
            else:
                want = "ok:None"
        else:
            if not spec["empty_valid"] and not deps:
                val = None
            elif kid in cached:
                val = cached[kid]
            else:
                exp_combines.append((kid, list(deps)))
                val = self.model_combine(spec, deps)
                if spec["cache"] and not isinstance(val, str):
                    cached[kid] = val
            if isinstance(val, str):  # "raises:..."
                want = val
            elif val is None:
                want = "raises:KeyError" if opc == OP_GET else "ok:None"
            else:
                want = "ok:" + repr(val)
            if spec["lock"]:
                if isinstance(val, str) or val is None:  # a failed read: whether it locks is left open
                    if not was_locked:
                        maybe.add(kid)
                else:
                    locked.add(kid)
                    maybe.discard(kid)

        # -- real -----------------------------------------------------------------------------
        self.combines = []
        try:
            with DependencyContext(dm):
                if opc == OP_ADD:
                    r = dm.add_dependency(key, self.value(spec, tag))
                elif opc == OP_GET:
                    r = dm.get_dependency(key)
                else:
                    r = dm.get_optional_dependency(key)
            got = "ok:" + repr(self.canon(spec, r) if opc != OP_ADD else r)
        except Violation:
            raise
        except Exception as e:
            got = "raises"  # the statement says "raises" / "an error", not which exception type
            self.hit("raised_" + type(e).__name__)
        want_full = want
        if want is not None and want.startswith("raises"):
            want = "raises"
        what = f"{OPNAME[opc]}({self.describe(spec, n)}{', v%d' % tag if opc == OP_ADD else ''}) on manager {d}"
        state = f"[{len(deps)} dependencies: {deps}, {'locked' if was_locked else 'unlocked'}, " \
                f"{'cached' if had_cache else 'no cache'}]"
        info = dict(op=OPNAME[opc], key_kind=spec["kind"], lock=spec["lock"], cache=spec["cache"])
        if want is None:
            self.expect(got in ("raises", "ok:None"), "add-refused-or-failed",
                        f"{what} {state}: library {got}", **info)
        elif got != want:
            if opc == OP_ADD:
                k = "add-after-read-not-refused" if want.startswith("raises") else "add-refused-or-failed"
            elif want.startswith("raises") or got.startswith("raises"):
                k = "error-mismatch"
            elif had_cache or spec["cache"]:
                k = "stale-or-wrong-cached-value" if had_cache else "wrong-value"
            else:
                k = "wrong-value"
            self.expect(False, k, f"{what} {state}: library {got}, documented behaviour {want}", **info)
        if self.combines != exp_combines:
            self.hit("combine_calls_differ")  # how often combine runs is not stated; staleness shows in the value

        # -- step the model with what the library did, count what fired ---------------------------
        want = want_full
        if opc == OP_ADD:
            if got == "raises":
                if was_locked:
                    self.hit("add_refused_locked")
                if was_maybe and not was_locked:
                    self.hit("add_refused_after_failed_read")
                elif want is None:
                    self.hit("simple_second_add_refused")
            else:
                self.hit("add_ok")
                if was_maybe:
                    self.hit("add_accepted_after_failed_read")
                deps.append(tag)
                if had_cache:
                    self.hit("cache_invalidated_by_add")
                    del cached[kid]
                if len(deps) >= 2 and spec["kind"] == "simple":
                    self.hit("simple_second_add_accepted")
        else:
            nd = len(deps)
            if want == "raises:KeyError":
                self.hit("get_missing_keyerror")
            elif want == "ok:None":
                self.hit("opt_none")
            elif want == "raises:RuntimeError":
                self.hit("simple_multi_runtimeerror")
            else:
                k = spec["kind"]
                if had_cache:
                    self.hit("cache_hit")
                elif not spec["cache"] and getattr(self, "last_get", None) == (d, kid):
                    self.hit("nocache_recombine")
                if k == "simple":
                    self.hit("simple_default" if nd == 0 else "simple_single")
                elif k in ("list", "tuple"):
                    self.hit("list_empty" if nd == 0 else "list_single" if nd == 1 else "list_many")
                else:
                    self.hit("unifier_direct" if nd == 1 else "unifier_unified")
                    if had_cache and nd > 1:
                        self.hit("unifier_cached")
                if self.cfg["managers"] > 1 and any(self.deps[o].get(kid) and self.deps[o].get(kid) != deps
                                                    for o in range(self.ndm) if o != d):
                    self.hit("managers_differ_on_key")
                if spec["param"] and self.deps[d].get((ki, 1 - n)) not in (None, deps):
                    self.hit("param_instances_differ")
            if not was_locked and spec["lock"]:
                self.hit("locked_by_read")
            self.last_get = (d, kid)
        if opc == OP_ADD:
            self.last_get = None
        self.visit((spec["kind"], spec["lock"], spec["cache"], spec["empty_valid"], min(len(deps), 3), was_locked,
                    had_cache, opc), nontrivial=(opc != OP_ADD or was_locked or had_cache))
        return got

    def model_combine(self, spec, deps):
        k = spec["kind"]
        if k == "simple":
            if len(deps) == 0:
                return ["default"]
            if len(deps) != 1:
                return "raises:RuntimeError"
            return ["dep", deps[0]]
        if k == "list":
            return ["list"] + list(deps)
        if k == "tuple":
            return ["tuple", "T"] + list(deps)
        if len(deps) == 1:
            return ["direct", deps[0]]
        return ["unified"] + list(deps)

    def describe(self, spec, n):
        s = f"{spec['kind']}[lock={int(spec['lock'])},cache={int(spec['cache'])},empty_valid={int(spec['empty_valid'])}]"
        return s + (f"(n={n})" if spec["param"] else "()")


def _gen_spec(rng, kind):
    spec = {"kind": kind, "lock": rng.random() < 0.55, "cache": rng.random() < 0.6,
            "empty_valid": rng.random() < 0.5, "param": rng.random() < 0.3, "default": None}
    if kind == "list" and rng.random() < 0.6:
        spec["empty_valid"] = True  # the ListKey default
    if kind == "simple" and spec["empty_valid"]:
        spec["default"] = rng.choice(["default", "", "v-default"])
    if kind == "unifier":
        spec["empty_valid"] = False  # MethodProduct needs at least one target
        spec["cache"] = rng.random() < 0.5  # class default is off
    return spec


class Prop(PropBase):
    ID = "C42"
    tiers = {
        "quick": {"runs": 20000, "selftest_runs": 4},
        "thorough": {"runs": 900000, "selftest_runs": 32},
    }
    rule = ("one run = 3-6 key classes (simple / list / custom-combine / unifier; lock_on_get, cache, empty_valid, "
            "default_value, field-parameterised or not, drawn per class), 1-2 managers, 2-4 modules with scripts of "
            "add / get / get_optional (provider, consumer, own-then-read, read-then-add, repeated-get styles), "
            "interleaved by the seed (random, bursty or sequential); one evaluation = one run of 20-90 operations, "
            "each compared with the reference model (value, or that it raised); "
            "distinct = distinct (key kind, flags, number of dependencies capped at 3, locked, cache valid, operation); "
            "non-trivial = a read, or an add to a locked or cached key")
    expected_cov = ["add_ok", "add_refused_locked", "add_refused_after_failed_read", "locked_by_read",
                    "get_missing_keyerror", "opt_none", "simple_default", "simple_single", "simple_multi_runtimeerror",
                    "list_empty", "list_single", "list_many", "cache_hit", "cache_invalidated_by_add",
                    "nocache_recombine", "unifier_direct", "unifier_unified", "unifier_cached",
                    "managers_differ_on_key", "param_instances_differ"]
    real = ["transactron.utils.dependencies.DependencyManager", "DependencyContext", "SimpleKey", "ListKey",
            "DependencyKey", "transactron.lib.dependencies.UnifierKey", "transactron.lib.transformers.MethodProduct.create",
            "transactron.core.method.Method (as unifier-key dependency)"]
    stubs = ["module scripts and their interleaving", "reference model: dict of lists + lock set + cache validity",
             "combine wrappers (record arguments, then call the library's combine)"]
    search_space = "key-class configurations and add/get/get_optional histories interleaved between several modules"
    state_measure = "(key kind, lock/cache/empty_valid, #dependencies capped at 3, locked, cache valid, operation)"
    assumptions = ["dependency values and default values are not None: get_optional_dependency documents None as "
                   "'not gettable', so get_dependency cannot tell a None value from an absent one",
                   "whether a read that fails (KeyError / None / error) counts as a read for lock_on_get is left open: a "
                   "following add may raise or succeed, the model follows the library",
                   "a second add to a simple key may raise at add time or the error may come at get time; 'raises' is "
                   "compared without the exception type; how often combine is called is only counted",
                   "unifier keys keep empty_valid False (MethodProduct requires a non-empty target list)",
                   "no simulator involved: the order of operations is the whole schedule"]

    def gen_config(self, rng, tier, idx):
        nkeys = rng.randint(3, 6)
        kinds = ["simple", "list", "tuple", "unifier"]
        keys = [_gen_spec(rng, kinds[i] if i < 4 and rng.random() < 0.8 else rng.choice(kinds[:3]))
                for i in range(nkeys)]
        if sum(1 for k in keys if k["kind"] == "unifier") > 1:  # one unifier class per run is enough
            first = True
            for k in keys:
                if k["kind"] == "unifier":
                    if not first:
                        k.update(_gen_spec(rng, "tuple"))
                    first = False
        managers = 2 if rng.random() < 0.25 else 1
        nmod = rng.randint(2, 4)
        scripts = []
        tagc = 0
        for w in range(nmod):
            style = rng.choice(["provider", "consumer", "own_then_read", "read_then_add", "repeat_get", "mixed"])
            ln = rng.randint(6, 24)
            mine = [rng.randrange(nkeys) for _ in range(rng.randint(1, 3))]
            s = []
            for j in range(ln):
                key = rng.choice(mine) if rng.random() < 0.8 else rng.randrange(nkeys)
                n = rng.randrange(2) if rng.random() < 0.5 else 0
                dm = rng.randrange(managers)
                frac = j / ln
                if style == "provider":
                    p_add = 0.85
                elif style == "consumer":
                    p_add = 0.1
                elif style == "own_then_read":
                    p_add = 0.9 if frac < 0.5 else 0.1
                elif style == "read_then_add":
                    p_add = 0.1 if frac < 0.4 else 0.8
                elif style == "repeat_get":
                    p_add = 0.15
                    if s and rng.random() < 0.6:
                        key, n, dm = s[-1][1], s[-1][2], s[-1][4]
                else:
                    p_add = 0.5
                if rng.random() < p_add:
                    tagc += 1
                    s.append([OP_ADD, key, n, w * 1000 + tagc, dm])
                else:
                    s.append([OP_GET if rng.random() < 0.6 else OP_OPT, key, n, 0, dm])
            scripts.append(s)
        return {"keys": keys, "managers": managers, "scripts": scripts,
                "interleave": rng.choice(["random", "bursty", "bursty", "sequential"]),
                "cycles": sum(len(s) for s in scripts)}

    def make(self, cfg):
        return Scen(cfg)

    def features(self, cfg, viol):
        info = viol.get("info") or {}
        return {"key_kind": info.get("key_kind")}

    def cfg_signature(self, cfg):
        # coarse on purpose: the state signature already carries the key class configuration
        return [cfg["managers"], cfg["interleave"], len(cfg["scripts"])]

    def shrink_cfg(self, cfg):
        if cfg["managers"] > 1:
            c = dict(cfg)
            c["managers"] = 1
            yield c


PROP = Prop()
