"""C42 — DependencyManager keys behave as documented.

No clock.  2-4 simulated "modules" each own a script of add_dependency / get_dependency /
get_optional_dependency operations on a handful of key classes; the seed interleaves the scripts
(elaboration order is whatever the module tree gives).  Every operation is executed on the real
`DependencyManager` and on a reference model (dict of lists + lock set + cache validity); every return
value and whether the operation raised must agree (the exception type is not part of the statement).
Left open by the statement and therefore accepted either way, the model following what the library
did: an add to a locking key whose only reads so far failed; a second add to a simple key (the error may
come at add time or at get time).  How often `combine` is called is only counted -- a stale cached
value shows in the value comparison.

Key classes are defined the way the library defines its own keys: frozen dataclasses deriving from
`SimpleKey` / `ListKey` / `DependencyKey` / `UnifierKey` with the class attributes lock_on_get / cache /
empty_valid / default_value overridden, optionally with one field (so that equal field values name the
same key and different values different keys).  A fresh key *instance* is constructed for every operation.
`combine` of every class is wrapped (record arguments, then call the library's implementation), which
gives the oracle the number of combines and the exact list each one received.

The class attributes are the DOCUMENTED ones (`DOC_DEFAULTS` below, copied from the docstrings of
transactron/utils/dependencies.py): a generated class writes an attribute only when the drawn value differs
from the documented default (a quarter of the classes writes all of them, as some user code does), so for
most classes the value the library really has as its default is what is exercised, and the model never
looks at the library's class attributes.  Only the library's own key classes (`LIB_KEYS`, used as they are
with plain Python objects as dependencies) are taken with the attributes they declare.

Key classes have 0-2 compared fields (int / str / bool / tuple / enum: equal field values name the same key,
different values different keys), optionally one more field with compare=False (differs on every operation
and must not matter), are built with a plain or a subscripted generic base (`ListKey[str]`).  The same
dependency object is also added twice to one key and to several keys.

Everything in an operation is an integer, so the generic shrinker can drop / zero fields:
  {"who": module, "dm": manager, "op": 0 get_optional / 1 get / 2 add, "key": key class, "n": field value(s),
   "val": tag of the added dependency, "nest": how DependencyContext is nested around the operation (counted only)}
"""

from __future__ import annotations

import dataclasses
import enum
import importlib
import types
from dataclasses import dataclass

from ..comp import CompScenario
from ..kernel import Violation
from ..propbase import PropBase

OP_OPT, OP_GET, OP_ADD = 0, 1, 2
OPNAME = {OP_OPT: "get_optional_dependency", OP_GET: "get_dependency", OP_ADD: "add_dependency"}

_REC = None  # scenario whose keys are currently live (combine wrappers report to it)

# What the documentation promises (docstring of DependencyKey: "lock_on_get: bool, default: True", "cache: bool,
# default: True", "empty_valid: bool, default : False"; SimpleKey and user keys deriving from DependencyKey add
# nothing).  A list key "returns all dependencies", which for a key nothing was added to is the empty list: getting
# it is valid.  UnifierKey documents no default of its own for `cache`, so generated unifier classes always write it.
DOC_DEFAULTS = {
    "simple": {"lock": True, "cache": True, "empty_valid": False},
    "tuple": {"lock": True, "cache": True, "empty_valid": False},
    "list": {"lock": True, "cache": True, "empty_valid": True},
    "unifier": {"lock": True, "cache": None, "empty_valid": False},
}
ATTR = {"lock": "lock_on_get", "cache": "cache", "empty_valid": "empty_valid"}

# the library's own keys that work with plain Python objects: (module, kind).  Not TransactionsKey / DefinedMethodsKey /
# ProvidedMethodsKey: the library itself adds to them whenever a Method or Transaction is made under the context
# (MethodProduct.create of a unifier key does), which is not an operation of the history.
LIB_KEYS = {
    "TransactionManagerKey": ("transactron.core.keys", "simple"),
    "HwMetricsListKey": ("transactron.lib.metrics", "list"),
    "HwMetricsEnabledKey": ("transactron.lib.metrics", "simple"),
    "LogKey": ("transactron.utils.logging", "list"),
    "TicksKey": ("transactron.testing.tick_count", "simple"),
}


class _Col(enum.Enum):
    RED = 0
    GREEN = 1


FTYPES = {"int": int, "str": str, "bool": bool, "tuple": tuple, "enum": _Col}


def spec_fields(spec) -> list:
    """Field types of the key dataclass; replay files written before fields existed have only `param`."""
    f = spec.get("fields")
    if f is None:
        f = ["int"] if spec.get("param") else []
    return f


def ncmp(spec) -> int:
    return sum(1 for t in spec_fields(spec) if t != "note")


def field_value(ftype, bit, i):
    if ftype == "int":
        return bit
    if ftype == "str":
        return f"s{bit}"
    if ftype == "bool":
        return bool(bit)
    if ftype == "tuple":
        return (bit, "t")
    if ftype == "enum":
        return _Col(bit)
    return f"note{i}"  # compare=False: differs on every operation, must not matter


def key_args(spec, n, i):
    """Constructor arguments of the key meant by `n`: compared field number j carries bit j of n."""
    out, j = [], 0
    for t in spec_fields(spec):
        if t == "note":
            out.append(field_value(t, 0, i))
        else:
            out.append(field_value(t, (n >> j) & 1, i))
            j += 1
    return out


_CLS_CACHE: dict = {}


def _make_key_classes(specs: list) -> list:
    """Key classes are pure functions of (spec, how many equal specs precede it in the run); built once per
    worker process.  Which spec of the run a class stands for is kept by the scenario (`idx_of`)."""
    seen: dict = {}
    out = []
    for spec in specs:
        sig = tuple(sorted((k, repr(v)) for k, v in spec.items()))
        seen[sig] = seen.get(sig, 0) + 1
        out.append(_make_key_class(seen[sig] - 1, sig, spec))
    return out


def _make_key_class(idx: int, sig: tuple, spec: dict):
    sig = (idx, sig)
    if sig not in _CLS_CACHE:
        if len(_CLS_CACHE) > 4000:
            _CLS_CACHE.clear()
        _CLS_CACHE[sig] = _build_key_class(idx, spec)
    return _CLS_CACHE[sig]


def _build_key_class(idx: int, spec: dict):
    from transactron.utils.dependencies import DependencyKey, SimpleKey, ListKey
    from transactron.lib.dependencies import UnifierKey
    from transactron.lib.transformers import MethodProduct

    if spec.get("lib"):
        mod, _kind = LIB_KEYS[spec["lib"]]
        return getattr(importlib.import_module(mod), spec["lib"])  # used as it is: no wrapper, no override

    kind = spec["kind"]
    ns: dict = {}
    ann: dict = {}
    for j, t in enumerate(spec_fields(spec)):
        if t == "note":
            ann[f"f{j}"] = str
            ns[f"f{j}"] = dataclasses.field(default="", compare=False)
        else:
            ann[f"f{j}"] = FTYPES[t]
    ns["__annotations__"] = ann

    if kind == "simple":
        base = SimpleKey
    elif kind == "list":
        base = ListKey
    elif kind == "unifier":
        base = UnifierKey
    else:
        base = DependencyKey

    if kind == "tuple":
        def combine(self, data):
            _REC.note_combine(self, data)
            return ("T", tuple(data))  # a fresh object per combine: staleness and cache use are visible
    else:
        def combine(self, data, _base=base):
            _REC.note_combine(self, data)
            return _base.combine(self, data)
    ns["combine"] = combine

    # Write only what differs from the DOCUMENTED defaults, as user code does (explicit: write everything).  What
    # the library's classes currently carry is deliberately not consulted.
    doc = DOC_DEFAULTS[kind]
    for a in ("lock", "cache", "empty_valid"):
        if spec.get("explicit") or doc[a] is None or spec[a] != doc[a]:
            ns[ATTR[a]] = spec[a]
    if kind == "simple" and spec["empty_valid"]:
        ns["default_value"] = spec["default"]

    name = f"VKey{idx}_{kind}"
    if kind == "unifier":
        def unifier(methods):
            u = MethodProduct.create(methods)
            _REC.note_unifier(u, methods)
            return u

        cls = type(base)(name, (base,), ns, unifier=unifier)
    elif spec.get("generic"):
        # the way the library writes its own keys: class K(ListKey[T])
        gbase = base[str, tuple] if base is DependencyKey else base[str]
        cls = types.new_class(name, (gbase,), {}, lambda body: body.update(ns))
    else:
        cls = type(base)(name, (base,), ns)
    return dataclass(frozen=True)(cls)


def inherited(spec) -> list:
    """Attributes the generated class leaves to the library's defaults."""
    if spec.get("lib"):
        return []
    doc = DOC_DEFAULTS[spec["kind"]]
    return [a for a in ("lock", "cache", "empty_valid")
            if not (spec.get("explicit") or doc[a] is None or spec[a] != doc[a])]


class Scen(CompScenario):
    simulated = False

    def __init__(self, cfg):
        global _REC
        super().__init__(cfg)
        from transactron.utils.dependencies import DependencyManager

        _REC = self
        self.classes = _make_key_classes(cfg["keys"])
        self.idx_of = {cls: i for i, cls in enumerate(self.classes)}
        self.specs = []
        for s, cls in zip(cfg["keys"], self.classes):
            if s.get("lib"):
                # the library's own key: taken with the attributes it declares (they are the key's documented
                # parameters); which defaults the base classes must have is judged on the generated classes
                s = dict(s, kind=LIB_KEYS[s["lib"]][1], lock=bool(cls.lock_on_get), cache=bool(cls.cache),
                         empty_valid=bool(cls.empty_valid), default=getattr(cls, "default_value", None),
                         param=False, fields=[])
            self.specs.append(s)
        self.inh = [inherited(s) for s in self.specs]
        self.nbits = [ncmp(s) for s in self.specs]
        self.decoy = DependencyManager()  # never operated on: only entered as a context (nesting)
        self.cur_n = 0
        self.ndm = cfg["managers"]
        self.dms = [DependencyManager() for _ in range(self.ndm)]
        # model, per manager: deps[key] = list of tags, locked set, cached[key] = canonical value
        self.deps = [dict() for _ in range(self.ndm)]
        self.locked = [set() for _ in range(self.ndm)]
        self.maybe_locked = [set() for _ in range(self.ndm)]  # locking keys read only by reads that failed
        self.cached = [dict() for _ in range(self.ndm)]
        self.combines: list = []  # (key id, tags) reported by the wrappers during the current operation
        self.unif: dict = {}  # id(unifier object) -> (object, tags it was built from)
        self.methods: dict = {}
        self.objs: dict = {}
        self.ptr = [0] * len(cfg["scripts"])
        self.burst = None
        self.seen_n: dict = {}

    def cycles(self):
        return sum(len(s) for s in self.cfg["scripts"])

    # ---- values -----------------------------------------------------------------------------
    def value(self, spec, tag: int):
        """The dependency object standing for `tag` (a Method for unifier keys, a string otherwise)."""
        if spec["kind"] == "unifier":
            if tag not in self.methods:
                from transactron import Method

                self.methods[tag] = Method(name=f"dep{tag}", i=[("x", 4)], o=[("y", 4)])
            return self.methods[tag]
        if tag not in self.objs:
            self.objs[tag] = f"v{tag}"  # one object per tag: a repeated tag adds the very same object again
        return self.objs[tag]

    def tag_of(self, spec, obj):
        if spec["kind"] == "unifier":
            for t, m in self.methods.items():
                if m is obj:
                    return t
            return f"?{obj!r}"
        if isinstance(obj, str) and obj.startswith("v") and obj[1:].isdigit():
            return int(obj[1:])
        return f"?{obj!r}"

    def canon(self, spec, val):
        """Library return value -> JSON-able canonical form comparable with the model's."""
        if val is None:
            return None
        k = spec["kind"]
        try:
            if k == "simple":
                return ["default"] if (spec["empty_valid"] and val == spec["default"]) else ["dep", self.tag_of(spec, val)]
            if k == "list":
                return ["list"] + [self.tag_of(spec, v) for v in val]
            if k == "tuple":
                return ["tuple", val[0]] + [self.tag_of(spec, v) for v in val[1]]
            method, unifiers = val
            unifiers = tuple(unifiers)
            if not unifiers:
                return ["direct", self.tag_of(spec, method)]
            (u,) = unifiers
            ent = self.unif.get(id(u))
            if ent is None or ent[0] is not u:
                return ["unknown-unifier", repr(u)]
            if method is not u.method:
                return ["method-not-of-unifier", repr(method)]
            bound = []
            for tgt in getattr(u, "targets", []):
                bp = getattr(tgt, "_body_ptr", None)
                bound.append(self.tag_of(spec, bp))
            if bound and bound != ent[1]:
                return ["unifier-targets-differ", bound, ent[1]]
            return ["unified"] + list(ent[1])
        except Exception as e:  # malformed return value: reported through the comparison
            return ["malformed", repr(val)[:80], type(e).__name__]

    # ---- wrappers' callbacks --------------------------------------------------------------
    def note_combine(self, key, data):
        ki = self.idx_of[type(key)]
        spec = self.specs[ki]
        self.combines.append(((ki, self.cur_n), [self.tag_of(spec, v) for v in data]))

    def note_unifier(self, u, methods):
        spec = next(s for s in self.specs if s["kind"] == "unifier")
        self.unif[id(u)] = (u, [self.tag_of(spec, m) for m in methods])

    # ---- stimulus: interleave the scripts ---------------------------------------------------
    def stimulus(self, rng, i):
        scripts = self.cfg["scripts"]
        live = [w for w in range(len(scripts)) if self.ptr[w] < len(scripts[w])]
        mode = self.cfg["interleave"]
        if self.burst is not None and self.burst[0] in live and self.burst[1] > 0:
            w = self.burst[0]
            self.burst[1] -= 1
        else:
            w = live[rng.randrange(len(live))] if mode != "sequential" else live[0]
            if mode == "bursty":
                self.burst = [w, rng.randint(1, 6)]
        op, key, n, val, dm, *rest = scripts[w][self.ptr[w]]
        self.ptr[w] += 1
        return {"who": w, "dm": dm, "op": op, "key": key, "n": n, "val": val, "nest": rest[0] if rest else 0}

    # ---- one operation on the real manager and on the model --------------------------------
    def apply(self, i, op):
        from transactron.utils.dependencies import DependencyContext

        ki = op.get("key", 0) % len(self.specs)
        spec = self.specs[ki]
        n = op.get("n", 0) % (1 << self.nbits[ki])  # bit j = value of compared field j; no compared field: one key
        self.cur_n = n
        nest = op.get("nest", 0) % 3
        d = op.get("dm", 0) % self.ndm
        opc = op.get("op", 0) % 3
        tag = op.get("val", 0)
        kid = (ki, n)
        cls = self.classes[ki]
        key = cls(*key_args(spec, n, i))  # a fresh, equal instance every time
        dm = self.dms[d]
        deps = self.deps[d].setdefault(kid, [])
        locked, cached, maybe = self.locked[d], self.cached[d], self.maybe_locked[d]

        # -- model ----------------------------------------------------------------------------
        exp_combines = []
        was_locked = kid in locked
        was_maybe = kid in maybe
        had_cache = kid in cached
        if opc == OP_ADD:
            if was_locked:
                want = "raises:KeyError"
            elif was_maybe or (spec["kind"] == "simple" and deps):
                want = None  # either outcome: add after a failed read / second add to a simple key
            else:
                want = "ok:None"
        else:
            if not spec["empty_valid"] and not deps:
                val = None
            elif kid in cached:
                val = cached[kid]
            else:
                exp_combines.append((kid, list(deps)))
                val = self.model_combine(spec, deps)
                if spec["cache"] and not isinstance(val, str):
                    cached[kid] = val
            if isinstance(val, str):  # "raises:..."
                want = val
            elif val is None:
                want = "raises:KeyError" if opc == OP_GET else "ok:None"
            else:
                want = "ok:" + repr(val)
            if spec["lock"]:
                if isinstance(val, str) or (val is None and opc == OP_GET):
                    # a read that failed with an error: whether it locks is left open
                    if not was_locked:
                        maybe.add(kid)
                else:
                    locked.add(kid)
                    maybe.discard(kid)

        # -- real -----------------------------------------------------------------------------
        self.combines = []
        via_context = False
        if nest:
            # DependencyContext is not part of the statement: what it resolves to is only counted, and the
            # operation goes to the context's manager only when that is the intended one
            try:
                with DependencyContext(self.decoy if nest == 1 else dm):
                    with DependencyContext(dm if nest == 1 else self.decoy):
                        inner = DependencyContext.get()
                    outer = DependencyContext.get()
                want_io = (dm, self.decoy) if nest == 1 else (self.decoy, dm)
                self.hit("context_nested_shadow_and_restore" if (inner, outer) == want_io
                         else "context_nested_unexpected")
            except Exception:
                self.hit("context_nested_raised")
        try:
            with DependencyContext(dm):
                tgt = dm
                if nest:
                    try:
                        via_context = DependencyContext.get() is dm
                    except Exception:
                        via_context = False
                    if via_context:
                        tgt = DependencyContext.get()
                    self.hit("op_through_context" if via_context else "context_resolved_other_manager")
                if opc == OP_ADD:
                    r = tgt.add_dependency(key, self.value(spec, tag))
                elif opc == OP_GET:
                    r = tgt.get_dependency(key)
                else:
                    r = tgt.get_optional_dependency(key)
            got = "ok:" + repr(self.canon(spec, r) if opc != OP_ADD else r)
        except Violation:
            raise
        except Exception as e:
            got = "raises"  # the statement says "raises" / "an error", not which exception type
            self.hit("raised_" + type(e).__name__)
        want_full = want
        if want is not None and want.startswith("raises"):
            want = "raises"
        what = f"{OPNAME[opc]}({self.describe(spec, n)}{', v%d' % tag if opc == OP_ADD else ''}) on manager {d}"
        state = f"[{len(deps)} dependencies: {deps}, {'locked' if was_locked else 'unlocked'}, " \
                f"{'cached' if had_cache else 'no cache'}]"
        info = dict(op=OPNAME[opc], key_kind=spec["kind"], lock=spec["lock"], cache=spec["cache"],
                    lib=spec.get("lib"), inherited=self.inh[ki])
        if want is None:
            self.expect(got in ("raises", "ok:None"), "add-refused-or-failed",
                        f"{what} {state}: library {got}", **info)
        elif got != want:
            if opc == OP_ADD:
                k = "add-after-read-not-refused" if want.startswith("raises") else "add-refused-or-failed"
            elif want.startswith("raises") or got.startswith("raises"):
                k = "error-mismatch"
            elif had_cache or spec["cache"]:
                k = "stale-or-wrong-cached-value" if had_cache else "wrong-value"
            else:
                k = "wrong-value"
            self.expect(False, k, f"{what} {state}: library {got}, documented behaviour {want}", **info)
        if spec.get("lib"):
            pass  # no combine wrapper on the library's own classes
        elif had_cache and opc != OP_ADD and self.combines:
            # "cached results": a key that caches (documented: "result of the combine method is cached and subsequent
            # calls to get_dependency will return the value in the cache") whose cache is valid -- filled by an
            # earlier successful read, no add since -- answers from the cache
            self.expect(False, "cached-result-not-reused",
                        f"{what} {state}: the key caches and nothing was added since the last read, yet combine "
                        f"ran again on {self.combines[0][1]}", **info)
        elif self.combines != exp_combines:
            self.hit("combine_calls_differ")  # otherwise how often combine runs is not stated

        # -- step the model with what the library did, count what fired ---------------------------
        want = want_full
        if opc == OP_ADD:
            if got == "raises":
                if was_locked:
                    self.hit("add_refused_locked")
                    if "lock" in self.inh[ki]:
                        self.hit("inherited_lock_default_refused_add")
                if was_maybe and not was_locked:
                    self.hit("add_refused_after_failed_read")
                elif want is None:
                    self.hit("simple_second_add_refused")
            else:
                self.hit("add_ok")
                if was_maybe:
                    self.hit("add_accepted_after_failed_read")
                if tag in deps:
                    self.hit("same_object_added_again_to_key")
                if any(tag in dl for k2, dl in self.deps[d].items() if k2 != kid):
                    self.hit("same_object_in_two_keys")
                deps.append(tag)
                if had_cache:
                    self.hit("cache_invalidated_by_add")
                    del cached[kid]
                if len(deps) >= 2 and spec["kind"] == "simple":
                    self.hit("simple_second_add_accepted")
        else:
            nd = len(deps)
            if want == "raises:KeyError":
                self.hit("get_missing_keyerror")
            elif want == "ok:None":
                self.hit("opt_none")
            elif want == "raises:RuntimeError":
                self.hit("simple_multi_runtimeerror")
            else:
                k = spec["kind"]
                if had_cache:
                    self.hit("cache_hit")
                elif not spec["cache"] and getattr(self, "last_get", None) == (d, kid):
                    self.hit("nocache_recombine")
                if k == "simple":
                    self.hit("simple_default" if nd == 0 else "simple_single")
                elif k in ("list", "tuple"):
                    self.hit("list_empty" if nd == 0 else "list_single" if nd == 1 else "list_many")
                    if len(set(deps)) < nd:
                        self.hit("list_with_repeated_object_returned")
                else:
                    self.hit("unifier_direct" if nd == 1 else "unifier_unified")
                    if had_cache and nd > 1:
                        self.hit("unifier_cached")
                if self.cfg["managers"] > 1 and any(self.deps[o].get(kid) and self.deps[o].get(kid) != deps
                                                    for o in range(self.ndm) if o != d):
                    self.hit("managers_differ_on_key")
                for j in range(self.nbits[ki]):
                    if self.deps[d].get((ki, n ^ (1 << j))) not in (None, deps):
                        self.hit("param_instances_differ")
                        if j:
                            self.hit("second_field_distinguishes_keys")
                        break
                fl = spec_fields(spec)
                for t in fl:
                    if t != "int":
                        self.hit("field_" + t)
                if spec.get("lib"):
                    self.hit("library_key_read")
                    self.hit("lib_" + spec["lib"])
                if spec.get("generic"):
                    self.hit("generic_base_key_read")
                inh = self.inh[ki]
                if "cache" in inh and spec["cache"] and had_cache:
                    self.hit("inherited_cache_default_hit")
                if "empty_valid" in inh and nd == 0:
                    self.hit("inherited_empty_valid_default_used")
            if not was_locked and spec["lock"]:
                self.hit("locked_by_read")
            if "empty_valid" in self.inh[ki] and nd == 0 and not spec["empty_valid"]:
                self.hit("inherited_empty_invalid_default_used")
            self.last_get = (d, kid)
        if opc == OP_ADD:
            self.last_get = None
        self.visit((spec["kind"], spec["lock"], spec["cache"], spec["empty_valid"], min(len(deps), 3), was_locked,
                    had_cache, opc), nontrivial=(opc != OP_ADD or was_locked or had_cache))
        return got

    def model_combine(self, spec, deps):
        k = spec["kind"]
        if k == "simple":
            if len(deps) == 0:
                return ["default"]
            if len(deps) != 1:
                return "raises:RuntimeError"
            return ["dep", deps[0]]
        if k == "list":
            return ["list"] + list(deps)
        if k == "tuple":
            return ["tuple", "T"] + list(deps)
        if len(deps) == 1:
            return ["direct", deps[0]]
        return ["unified"] + list(deps)

    def describe(self, spec, n):
        s = f"{spec['kind']}[lock={int(spec['lock'])},cache={int(spec['cache'])},empty_valid={int(spec['empty_valid'])}]"
        if spec.get("lib"):
            s = spec["lib"] + ":" + s
        fl = spec_fields(spec)
        return s + "(" + ", ".join(f"{t}={v!r}" for t, v in zip(fl, key_args(spec, n, 0))) + ")"


def _gen_spec(rng, kind, rich=True):
    spec = {"kind": kind, "lock": rng.random() < 0.55, "cache": rng.random() < 0.6,
            "empty_valid": rng.random() < 0.5, "param": rng.random() < 0.3, "default": None}
    if kind == "list" and rng.random() < 0.6:
        spec["empty_valid"] = True  # the ListKey default
    if kind == "simple" and spec["empty_valid"]:
        spec["default"] = rng.choice(["default", "", "v-default"])
    if kind == "unifier":
        spec["empty_valid"] = False  # MethodProduct needs at least one target
        spec["cache"] = rng.random() < 0.5  # class default is off
    # fields of the key dataclass: compared ones carry one bit of the operation's `n` each
    r = rng.random()
    types_ = ["int", "int", "str", "bool", "tuple", "enum"]
    fields = [] if r < 0.5 else [rng.choice(types_)] if r < 0.8 else [rng.choice(types_), rng.choice(types_)]
    if rng.random() < 0.15:
        fields.append("note")
    generic = kind != "unifier" and rng.random() < 0.3
    if not rich:  # most runs: plain classes (no field or one int field), which the class cache serves
        fields = ["int"] if fields and fields[0] != "note" and r >= 0.7 else []
        generic = False
    spec["fields"] = fields
    spec["param"] = any(t != "note" for t in fields)
    # a quarter of the classes writes all attributes; the others leave documented defaults to the library
    spec["explicit"] = rng.random() < 0.25
    spec["generic"] = generic
    return spec


def _lib_spec(name):
    return {"kind": LIB_KEYS[name][1], "lib": name, "lock": None, "cache": None, "empty_valid": None,
            "default": None, "param": False, "fields": []}


class Prop(PropBase):
    ID = "C42"
    tiers = {
        "quick": {"runs": 20000, "selftest_runs": 4},
        "thorough": {"runs": 900000, "selftest_runs": 32},
    }
    rule = ("one run = 3-6 key classes (simple / list / custom-combine / unifier; lock_on_get, cache, empty_valid, "
            "default_value drawn per class and written in the class only where they differ from the documented "
            "defaults (a quarter of the classes writes all); no field or one int field, in 35% of the runs 0-2 compared "
            "fields of type int / str / bool / tuple / enum, optionally a compare=False field, plain or subscripted "
            "generic base), in 30% of the runs one of the "
            "library's own key classes, 1-2 managers, 2-4 modules with scripts of "
            "add / get / get_optional (provider, consumer, own-then-read, read-then-add, repeated-get styles; 16% of "
            "the adds repeat an object already added to this or another key), "
            "interleaved by the seed (random, bursty or sequential); one evaluation = one run of 20-90 operations, "
            "each compared with the reference model (value, or that it raised; a caching key with a valid cache must "
            "not combine again); "
            "distinct = distinct (key kind, flags, number of dependencies capped at 3, locked, cache valid, operation); "
            "non-trivial = a read, or an add to a locked or cached key")
    expected_cov = ["add_ok", "add_refused_locked", "add_refused_after_failed_read", "locked_by_read",
                    "get_missing_keyerror", "opt_none", "simple_default", "simple_single", "simple_multi_runtimeerror",
                    "list_empty", "list_single", "list_many", "cache_hit", "cache_invalidated_by_add",
                    "nocache_recombine", "unifier_direct", "unifier_unified", "unifier_cached",
                    "managers_differ_on_key", "param_instances_differ", "second_field_distinguishes_keys",
                    "field_str", "field_bool", "field_tuple", "field_enum", "field_note", "generic_base_key_read",
                    "library_key_read", "same_object_added_again_to_key", "same_object_in_two_keys",
                    "list_with_repeated_object_returned", "inherited_lock_default_refused_add",
                    "inherited_cache_default_hit", "inherited_empty_valid_default_used",
                    "inherited_empty_invalid_default_used", "context_nested_shadow_and_restore", "op_through_context"]
    real = ["transactron.utils.dependencies.DependencyManager", "DependencyContext", "SimpleKey", "ListKey",
            "library key classes: " + ", ".join(sorted(LIB_KEYS)),
            "DependencyKey", "transactron.lib.dependencies.UnifierKey", "transactron.lib.transformers.MethodProduct.create",
            "transactron.core.method.Method (as unifier-key dependency)"]
    stubs = ["module scripts and their interleaving", "reference model: dict of lists + lock set + cache validity",
             "combine wrappers (record arguments, then call the library's combine)"]
    search_space = "key-class configurations and add/get/get_optional histories interleaved between several modules"
    state_measure = "(key kind, lock/cache/empty_valid, #dependencies capped at 3, locked, cache valid, operation)"
    assumptions = ["dependency values and default values are not None: get_optional_dependency documents None as "
                   "'not gettable', so get_dependency cannot tell a None value from an absent one",
                   "whether a read that fails (KeyError / None / error) counts as a read for lock_on_get is left open: a "
                   "following add may raise or succeed, the model follows the library",
                   "a second add to a simple key may raise at add time or the error may come at get time; 'raises' is "
                   "compared without the exception type; how often combine is called is only counted, except that a key "
                   "which caches and whose cache is valid must answer from the cache (documented meaning of `cache`)",
                   "the documented defaults (lock_on_get True, cache True, empty_valid False; a list key without "
                   "dependencies returns the empty list) are written down in the check, not read from the library",
                   "the library's own key classes are taken with the attributes they declare",
                   "the same Method is not added twice to a unifier key (MethodProduct of a repeated method is another "
                   "property's business); DependencyContext nesting is only counted",
                   "unifier keys keep empty_valid False (MethodProduct requires a non-empty target list)",
                   "no simulator involved: the order of operations is the whole schedule"]

    def gen_config(self, rng, tier, idx):
        nkeys = rng.randint(3, 6)
        kinds = ["simple", "list", "tuple", "unifier"]
        rich = rng.random() < 0.35
        keys = [_gen_spec(rng, kinds[i] if i < 4 and rng.random() < 0.8 else rng.choice(kinds[:3]), rich)
                for i in range(nkeys)]
        if sum(1 for k in keys if k["kind"] == "unifier") > 1:  # one unifier class per run is enough
            first = True
            for k in keys:
                if k["kind"] == "unifier":
                    if not first:
                        k.update(_gen_spec(rng, "tuple", rich))
                    first = False
        if rng.random() < 0.3:  # one of the library's own keys next to the generated ones
            keys.insert(rng.randrange(len(keys) + 1), _lib_spec(rng.choice(sorted(LIB_KEYS))))
            nkeys += 1
        managers = 2 if rng.random() < 0.25 else 1
        nesting = rng.random() < 0.3
        pool: list = []
        nmod = rng.randint(2, 4)
        scripts = []
        tagc = 0
        for w in range(nmod):
            style = rng.choice(["provider", "consumer", "own_then_read", "read_then_add", "repeat_get", "mixed"])
            ln = rng.randint(6, 24)
            mine = [rng.randrange(nkeys) for _ in range(rng.randint(1, 3))]
            s = []
            for j in range(ln):
                key = rng.choice(mine) if rng.random() < 0.8 else rng.randrange(nkeys)
                n = rng.randrange(1 << ncmp(keys[key])) if rng.random() < 0.5 else 0
                nest = rng.randrange(3) if nesting and rng.random() < 0.3 else 0
                dm = rng.randrange(managers)
                frac = j / ln
                if style == "provider":
                    p_add = 0.85
                elif style == "consumer":
                    p_add = 0.1
                elif style == "own_then_read":
                    p_add = 0.9 if frac < 0.5 else 0.1
                elif style == "read_then_add":
                    p_add = 0.1 if frac < 0.4 else 0.8
                elif style == "repeat_get":
                    p_add = 0.15
                    if s and rng.random() < 0.6:
                        key, n, dm = s[-1][1], s[-1][2], s[-1][4]
                        n %= 1 << ncmp(keys[key])
                else:
                    p_add = 0.5
                if rng.random() < p_add:
                    again = [e[3] for e in s if e[0] == OP_ADD and (e[1], e[2], e[4]) == (key, n, dm)]
                    r = rng.random()
                    if keys[key]["kind"] == "unifier" or r >= 0.16 or not pool:
                        tagc += 1
                        val = w * 1000 + tagc  # a new object
                        pool.append(val)
                    elif r < 0.08 and again:
                        val = rng.choice(again)  # the same object once more to the same key
                    else:
                        val = rng.choice(pool)  # an object some module adds (also) somewhere else
                    s.append([OP_ADD, key, n, val, dm, nest])
                else:
                    s.append([OP_GET if rng.random() < 0.6 else OP_OPT, key, n, 0, dm, nest])
            scripts.append(s)
        return {"keys": keys, "managers": managers, "scripts": scripts,
                "interleave": rng.choice(["random", "bursty", "bursty", "sequential"]),
                "cycles": sum(len(s) for s in scripts)}

    def make(self, cfg):
        return Scen(cfg)

    def features(self, cfg, viol):
        info = viol.get("info") or {}
        return {"key_kind": info.get("key_kind"), "lib_key": info.get("lib")}

    def cfg_signature(self, cfg):
        # coarse on purpose: the state signature already carries the key class configuration
        return [cfg["managers"], cfg["interleave"], len(cfg["scripts"])]

    def shrink_cfg(self, cfg):
        if cfg["managers"] > 1:
            c = dict(cfg)
            c["managers"] = 1
            yield c
        # plainer key classes (fewer fields, plain base); `explicit` is left alone: it decides whose default is used
        for i, k in enumerate(cfg["keys"]):
            if k.get("lib"):
                continue
            fl = spec_fields(k)
            cands = []
            if "note" in fl:
                cands.append(dict(k, fields=[t for t in fl if t != "note"]))
            if ncmp(k) > 1:
                cands.append(dict(k, fields=fl[:1]))
            if ncmp(k) == 1 and fl != ["int"]:
                cands.append(dict(k, fields=["int"]))
            if k.get("generic"):
                cands.append(dict(k, generic=False))
            for nk in cands:
                nk["param"] = any(t != "note" for t in nk["fields"])
                c = dict(cfg)
                c["keys"] = [nk if j == i else x for j, x in enumerate(cfg["keys"])]
                yield c


PROP = Prop()
