"""C26 — PreservedOrderAllocator keeps the allocation order as a permutation."""

from __future__ import annotations

from ..comp import CompScenario
from ..propbase import PropBase, make_plan, phase_at


class Scen(CompScenario):
    def build(self):
        from transactron.lib.allocators import PreservedOrderAllocator

        self.n = self.cfg["entries"]
        self.dut = PreservedOrderAllocator(self.n)
        self.top.add("dut", self.dut)
        for name in ("alloc", "free", "free_idx", "order", "clear"):
            self.caller(name, getattr(self.dut, name))
        if self.cfg.get("twin"):
            self.twin("alloc", self.dut.alloc)  # two units allocating through the one alloc method
        self.ports = ["alloc", "free", "free_idx", "order", "clear"]
        self.lst: list = []  # allocated identifiers, oldest -> newest
        self.initial = None  # (used, order) as observed before any call changed the state
        self.pristine = True
        self.just_cleared = False
        self.freed_ever: set = set()
        return self.top

    # ---- stimulus -------------------------------------------------------------------------
    def _pick_pos(self, rng, used):
        r = rng.random()
        if r < 0.25:
            return 0
        if r < 0.5:
            return used - 1
        return rng.randrange(used)

    def stimulus(self, rng, cyc):
        kind, p = phase_at(self.cfg["plan"], cyc)
        pa, pf, pi, po, pc = {
            "random": (p, (1 - p) * 0.6 if p not in (0.0, 1.0) else p * 0.6, (1 - p) * 0.6 if p not in (0.0, 1.0) else p * 0.6, 0.9, 0.02),
            "fill": (1.0, 0.08, 0.08, 0.9, 0.0),
            "drain": (0.1, 0.6, 0.6, 0.9, 0.0),
            "pingpong": (1.0, 0.6, 0.6, 1.0, 0.0),
            "contend": (0.7, 0.9, 0.9, 1.0, 0.0),
            "flush": (0.8, 0.5, 0.5, 1.0, 0.3),
            "idle": (0.05, 0.05, 0.05, 0.5, 0.01),
        }[kind]
        used = len(self.lst)
        stim = {"alloc.en": int(rng.random() < pa)}
        # frees designate identifiers allocated at the start of this cycle / indices below the used count
        if used and rng.random() < pf:
            stim["free.en"] = 1
            stim["free.i.ident"] = self.lst[self._pick_pos(rng, used)]
        if used and rng.random() < pi:
            stim["free_idx.en"] = 1
            stim["free_idx.i.idx"] = self._pick_pos(rng, used)
            if stim.get("free.en") and rng.random() < 0.5:
                # free and free_idx of one cycle naming the same identifier (they contend for the one removal);
                # otherwise two different designations: every call that is executed removes its identifier
                stim["free_idx.i.idx"] = self.lst.index(stim["free.i.ident"])
        stim["order.en"] = int(cyc == 0 or self.just_cleared or rng.random() < po)
        stim["clear.en"] = int(rng.random() < pc)
        return self.twin_stim(rng, stim)

    # ---- oracle -----------------------------------------------------------------------------
    def check(self, cyc, stim, obs):
        stim, obs = self.fold_twins(stim, obs)
        n, lst = self.n, self.lst
        used = len(lst)
        en = {p: stim.get(f"{p}.en", 0) for p in self.ports}
        done = {p: obs[f"{p}.done"] for p in self.ports}
        f_ident = stim.get("free.i.ident", 0)
        f_idx = stim.get("free_idx.i.idx", 0)
        if en["free"]:
            self.premise(f_ident in lst, f"free of identifier {f_ident} which is not allocated")
        if en["free_idx"]:
            self.premise(f_idx < used, f"free_idx of index {f_idx} with only {used} allocated")

        ready = {"alloc": used < n, "free": True, "free_idx": True, "order": True, "clear": True}
        for p in self.ports:
            if en[p] and p == "alloc":  # the statement gives the readiness of alloc only
                self.expect(obs[f"{p}.runnable"] == int(ready[p]), "ready-mismatch",
                            f"{p} callable={obs[f'{p}.runnable']} with {used}/{n} allocated", port=p)
            elif en[p] and not obs[f"{p}.runnable"]:
                self.hit(f"{p}_not_callable")
            self.expect(not done[p] or (en[p] and ready[p]), "ran-when-not-callable",
                        f"{p}: en={en[p]} done={done[p]} with {used}/{n} allocated", port=p)
        if done["free"] and done["free_idx"]:
            self.hit("free_and_free_idx_both_ran")  # same identifier (premise): one removal either way
        for p in ("alloc", "order", "clear"):
            if en[p] and ready[p] and not done[p]:
                self.hit("blocked_though_ready")
        if (en["free"] or en["free_idx"]) and not (done["free"] or done["free_idx"]):
            self.hit("blocked_though_ready")

        # order: a permutation whose first `used` entries are the allocated identifiers, oldest first
        if done["order"]:
            o_used = obs["order.o.used"]
            order = [obs.get(f"order.o.order.{i}", 0) for i in range(n)]
            self.expect(sorted(order) == list(range(n)), "order-not-permutation",
                        f"order {order} is not a permutation of range({n})", port="order")
            self.expect(o_used == used, "used-mismatch", f"order reports used={o_used}, {used} identifiers are allocated "
                        f"({lst})", port="order")
            self.expect(order[:used] == lst, "order-mismatch",
                        f"order {order} used {o_used}: allocated identifiers oldest->newest are {lst}", port="order")
            if self.pristine and self.initial is None:
                self.initial = (o_used, order)
            if self.just_cleared and self.initial is not None:
                self.expect((o_used, order) == self.initial, "clear-not-initial",
                            f"after clear: used={o_used} order={order}, initial state was used={self.initial[0]} "
                            f"order={self.initial[1]}", port="clear")
                self.hit("initial_state_checked_after_clear")

        # alloc returns a free identifier
        a_ident = None
        if done["alloc"]:
            a_ident = obs.get("alloc.o.ident", 0)
            self.expect(a_ident < n and a_ident not in lst, "allocated-twice",
                        f"alloc returned identifier {a_ident}, allocated are {lst}", port="alloc")

        # ---- what fired
        freed_pos = None
        if done["free"]:
            freed_pos = lst.index(f_ident)
        elif done["free_idx"]:
            freed_pos = f_idx
        if en["alloc"] and used == n:
            self.hit("alloc_refused_full")
            if freed_pos is not None:
                self.hit("alloc_refused_full_while_freeing")
        if done["alloc"] and done["free"]:
            self.hit("alloc_with_free")
        if done["alloc"] and done["free_idx"]:
            self.hit("alloc_with_free_idx")
        if freed_pos is not None:
            if freed_pos == 0 and used > 1:
                self.hit("free_oldest")
            if freed_pos == used - 1 and used > 1:
                self.hit("free_newest")
            if 0 < freed_pos < used - 1:
                self.hit("free_middle")
            if used == n:
                self.hit("free_at_full")
            if used == 1 and not done["alloc"]:
                self.hit("became_empty")
        if en["free"] and en["free_idx"]:
            self.hit("free_contend")
            if done["free"]:
                self.hit("free_won_contend")
            if done["free_idx"]:
                self.hit("free_idx_won_contend")
        if done["alloc"] and used == n - 1 and freed_pos is None:
            self.hit("became_full")
        if a_ident is not None and a_ident in self.freed_ever:
            self.hit("ident_reused_after_free")
        if done["clear"]:
            self.hit("clear")
            if done["alloc"]:
                self.hit("clear_with_alloc")
            if freed_pos is not None:
                self.hit("clear_with_free")
            if used == n:
                self.hit("clear_at_full")

        calls = tuple(p for p in self.ports if done[p])
        changing = done["alloc"] or freed_pos is not None or done["clear"]
        self.visit((tuple(lst), freed_pos, calls),
                   nontrivial=bool(changing) and (used in (0, 1, n - 1, n) or done["clear"] or
                                                  (done["alloc"] and freed_pos is not None)))

        # ---- step the model: alloc appends, every executed free / free_idx removes the identifier it designates
        # (positions refer to the beginning of the cycle), clear last
        if changing:
            self.pristine = False
        gone = set()
        if done["free"]:
            gone.add(lst.index(f_ident))
        if done["free_idx"]:
            gone.add(f_idx)
        if len(gone) > 1:
            self.hit("free_and_free_idx_removed_two_identifiers")
        if a_ident is not None:
            lst.append(a_ident)
        for pos in sorted(gone, reverse=True):
            self.freed_ever.add(lst[pos])
            del lst[pos]
        self.just_cleared = False
        if done["clear"]:
            lst.clear()
            self.just_cleared = True


class Prop(PropBase):
    ID = "C26"
    tiers = {
        "quick": {"runs": 320, "selftest_runs": 4},
        "thorough": {"runs": 22000, "selftest_runs": 32},
    }
    rule = ("one run = one entry count driven for 80-240 cycles by a seeded phase plan (random / fill / drain / "
            "ping-pong / contend (free and free_idx together, naming the same identifier) / flush / idle) with `order` observed in most cycles; "
            "distinct = distinct (entries, allocated list oldest->newest, freed position, executed call set); "
            "non-trivial = a state-changing call executed with 0, 1, entries-1 or entries identifiers allocated, or "
            "alloc together with a free, or clear ran")
    expected_cov = ["alloc_refused_full", "alloc_refused_full_while_freeing", "alloc_with_free", "alloc_with_free_idx",
                    "free_oldest", "free_newest", "free_middle", "free_at_full", "became_empty", "became_full",
                    "free_contend", "free_won_contend", "free_idx_won_contend", "ident_reused_after_free",
                    "clear_with_alloc", "clear_with_free", "clear_at_full", "initial_state_checked_after_clear"]
    real = ["transactron.lib.allocators.PreservedOrderAllocator", "transactron.lib.adapters.AdapterTrans",
            "TransactionManager + scheduler", "amaranth pysim"]
    stubs = ["cycle driver (stimulus)", "list reference model (oldest -> newest)"]
    assumptions = ["'a free identifier exists' (alloc readiness) and the returned identifier are judged on the allocated set at the "
                   "beginning of the cycle: an identifier freed in a cycle is not available to the alloc of the same cycle; "
                   "order shows the state at the beginning of the cycle; of the calls executed in one cycle clear is applied last",
                   "free and free_idx requested in the same cycle designate the same identifier (the statement does not say "
                   "what two different designations of one cycle do together)"]
    search_space = ("PreservedOrderAllocator entry counts and alloc/free/free_idx/order/clear call histories that free "
                    "only allocated identifiers and indices below the used count")

    def gen_config(self, rng, tier, idx):
        big = tier == "thorough"
        n = rng.choice([1, 2, 3, 4, 5, 6, 7, 8] + ([9, 11, 12, 16] if big else []))
        cycles = rng.randint(80, 400 if big else 240)
        kinds = ["random", "random", "fill", "drain", "pingpong", "contend", "flush", "idle"]
        return {"entries": n, "cycles": cycles, "twin": int(rng.random() < 0.3), "sched": rng.choice(["eager", "eager", "rr"]),
                "plan": make_plan(rng, cycles, kinds)}

    def make(self, cfg):
        return Scen(cfg)

    def features(self, cfg, viol):
        return {"port": (viol.get("info") or {}).get("port")}

    def cfg_signature(self, cfg):
        return [cfg["entries"], cfg["sched"], cfg.get("twin", 0)]

    def shrink_cfg(self, cfg):
        n = cfg["entries"]
        for d in (n - 1, n // 2):
            if 1 <= d < n:
                c = dict(cfg)
                c["entries"] = d
                yield c
        if cfg["sched"] != "eager":
            c = dict(cfg)
            c["sched"] = "eager"
            yield c


PROP = Prop()
