"""C01 — an exclusive method serves at most one active call per cycle."""
from ..coregen.prop import CoreProp


class Prop(CoreProp):
    ID = "C01"
    checks = ['C01']
    tiers = {"quick": {"runs": 400, "selftest_runs": 4}, "thorough": {"runs": 8000, "selftest_runs": 32}}
    feat = {'p_nonex': 0.3, 'p_ctrl': 0.45, 'p_wrap': 0.4}
    rule = 'one run = one generated program (1-3 modules, 1-5 transactions, 0-6 methods, call depth <= 3, nested bodies, If/Switch/FSM around bodies and calls, enable_call, validate_arguments, aliases, nonexclusive methods) under one arbiter and one internal set order, driven for 60-160 cycles by a seeded phase plan (random / all-on contention / single-method stall / flapping / exhaustive valuation sweep when <= 10 one-bit inputs); distinct = distinct (program, arbiter, set of transactions running in a cycle); non-trivial = at least one transaction ran'
    expected_cov = ['exclusive_method_contended_site_active', 'sharing_transactions_run_together_legally', 'concurrent_transactions']


PROP = Prop()
