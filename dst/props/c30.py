"""C30 — InputSampler and OutputBuffer follow their trigger.

The harness owns the plain ports (`trigger`, `data`) and one real AdapterTrans on `get` / `put`.
Reference model: the raw trigger history with initial value 0 (raw[-1] = raw[-2] = 0); the effective
trigger is raw[t] (synchronize=False) or raw[t-1] (synchronize=True: the code has exactly ONE register
stage, `trigger` in BasicIOBase._trigger, and one for `data` in InputSampler); "previous cycle" of the
effective trigger is one cycle further back.
"""

from __future__ import annotations

from ..comp import CompScenario, leaves
from ..propbase import PropBase, make_plan, phase_at


class Scen(CompScenario):
    def build(self):
        from transactron.lib.basicio import InputSampler, OutputBuffer

        from amaranth.hdl import signed
        from amaranth.lib.data import StructLayout

        c = self.cfg
        # layout entries: [name, width] or [name, width, signed]; given as a list of pairs or as a StructLayout object
        self.fdesc = [(e[0], int(e[1]), bool(e[2]) if len(e) > 2 else False) for e in c["layout"]]
        layout = [(n, signed(w) if sg else w) for n, w, sg in self.fdesc]
        if c.get("layout_form", "list") == "struct":
            layout = StructLayout(dict(layout))
        self.fields = [n for n, _, _ in self.fdesc]
        self.is_in = c["comp"] == "in"
        # the three settings are passed as bool or, in a share of the runs, as the plain integers 0 / 1 (what a
        # configuration word or a numeric parameter hands over; the library documents truthiness, seeded change C30-5)
        conv = int if c.get("arg_form", "bool") == "int" else bool
        kw = dict(edge=conv(c["edge"]), polarity=conv(c["polarity"]), synchronize=conv(c["sync"]))
        # arguments left out: only ones whose value is the documented default (False) -- the model keeps using that value
        self.omitted = [a for a in c.get("omit", []) if not c[{"synchronize": "sync"}.get(a, a)]]
        for a in self.omitted:
            del kw[a]
        if self.is_in:
            self.dut = InputSampler(layout, **kw)
            self.port = "get"
            self.caller("get", self.dut.get)
        else:
            self.dut = OutputBuffer(layout, **kw)
            self.port = "put"
            self.caller("put", self.dut.put)
        self.top.add("dut", self.dut)
        self.add_input("trigger", self.dut.trigger)
        for path, sig in leaves(self.dut.data):
            if self.is_in:
                self.add_input(f"data.{path}", sig)
            else:
                self.add_obs(f"data.{path}", sig)
        # model state: raw history (initial 0), data history, output register
        self.raw1 = 0  # raw trigger of the previous cycle
        self.raw2 = 0  # raw trigger two cycles ago
        self.data1 = tuple(0 for _ in self.fields)  # data inputs of the previous cycle
        self.out = tuple(0 for _ in self.fields)  # OutputBuffer: value `data` must show
        self.act_run = 0  # consecutive cycles the effective trigger was at the active level
        self.last_put = -10
        self.tag = 0
        return self.top

    # ---- stimulus -------------------------------------------------------------------------
    def stimulus(self, rng, cyc):
        c = self.cfg
        kind, p = phase_at(c["plan"], cyc)
        if kind == "random":
            trig = int(rng.random() < p)
        elif kind == "high":
            trig = int(rng.random() < 0.95)
        elif kind == "low":
            trig = int(rng.random() < 0.05)
        elif kind == "toggle":
            trig = 1 - self.raw1
        else:  # pulse: single-cycle excursions from the inactive level
            inactive = 0 if c["polarity"] else 1
            trig = (1 - inactive) if (self.raw1 == inactive and rng.random() < 0.35) else inactive
        if cyc == 0:
            trig = int(c["trig0"])
        pen = {"random": 0.6, "high": 0.8, "low": 0.8, "toggle": 1.0, "pulse": 0.9}[kind]
        if c["en_mode"] == "always":
            en = 1
        elif c["en_mode"] == "sparse":
            en = int(rng.random() < 0.25)
        else:
            en = int(rng.random() < pen)
        stim = {"trigger": trig, f"{self.port}.en": en}
        self.tag += 1
        for k, f in enumerate(self.fields):
            name = f"data.{f}" if self.is_in else f"put.i.{f}"
            w = self.widths[name]
            v = self.tag if k == 0 else rng.getrandbits(w)
            r = rng.random()
            if r < 0.08:
                v = rng.choice([0, (1 << w) - 1])
            elif r < 0.16:  # sign bit / high bits of wide fields
                v = rng.choice([1 << (w - 1), (1 << (w - 1)) - 1, (1 << (w - 1)) | self.tag])
            elif k == 0 and w > 12 and r < 0.5:  # a unique value that also occupies the bits above bit 12
                v = (self.tag << (w - 8)) | self.tag
            v &= (1 << w) - 1
            if self.fdesc[k][2] and v >> (w - 1):
                v -= 1 << w  # signed field: the value as the simulator reports it
            stim[name] = v
        return stim

    def vals(self, stim, prefix):
        """The data values of this cycle as the hardware sees them (a replayed / shrunk value outside the range of
        its field is applied truncated by the simulator)."""
        out = []
        for n, w, sg in self.fdesc:
            v = stim.get(prefix + n, 0) & ((1 << w) - 1)
            if sg and v >> (w - 1):
                v -= 1 << w
            out.append(v)
        return tuple(out)

    def count_transfer(self, vals):
        for (n, w, sg), v in zip(self.fdesc, vals):
            if sg:
                self.hit("signed_field_transferred")
                if v < 0:
                    self.hit("negative_value_transferred")
            if w > 12:
                self.hit("wide_field_transferred")
                if (v & ((1 << w) - 1)) >> 12:
                    self.hit("bits_above_12_transferred")
        if self.cfg.get("layout_form", "list") == "struct":
            self.hit("struct_layout_transferred")
        if self.cfg.get("arg_form", "bool") == "int" and not self.cfg["polarity"] and "polarity" not in self.omitted:
            self.hit("negative_polarity_given_as_int_0")
        for a in self.omitted:
            self.hit("called_with_default_" + a)
        if len(self.omitted) == 3:
            self.hit("called_with_all_defaults")

    # ---- oracle -----------------------------------------------------------------------------
    def check(self, cyc, stim, obs):
        c = self.cfg
        p = self.port
        raw = stim.get("trigger", 0)
        if c["sync"]:
            eff, eff_prev = self.raw1, self.raw2
        else:
            eff, eff_prev = raw, self.raw1
        pol = int(bool(c["polarity"]))
        at_level = eff == pol
        if c["edge"]:
            active = at_level and eff_prev != pol  # the configured edge relative to the previous cycle
        else:
            active = at_level
        en = stim.get(f"{p}.en", 0)
        done = obs[f"{p}.done"]
        ctx = f"cfg(edge={c['edge']},pol={c['polarity']},sync={c['sync']}" + \
            (f"; not passed: {','.join(self.omitted)}" if self.omitted else "") + \
            f") raw={raw} prev={self.raw1} prev2={self.raw2}"
        if en:
            self.expect(obs[f"{p}.runnable"] == int(active), "ready-mismatch",
                        f"{p} runnable={obs[f'{p}.runnable']} but trigger active={int(active)}; {ctx}", port=p)
        self.expect(not done or (en and active), "ran-when-not-callable",
                    f"{p}: en={en} active={int(active)} done={done}; {ctx}", port=p)
        if en and active and not done:
            self.hit("blocked_though_ready")
        if self.is_in:
            cur = self.vals(stim, "data.")
            want = self.data1 if c["sync"] else cur
            if done:
                got = tuple(obs[f"get.o.{f}"] for f in self.fields)
                self.expect(got == want, "data-mismatch", f"get returned {got}, expected {want}; {ctx}", port=p)
                self.hit("get_called")
                self.count_transfer(want)
                if c["sync"] and self.data1 != cur:
                    self.hit("sync_data_differs_from_current")
        else:
            got = tuple(obs[f"data.{f}"] for f in self.fields)
            self.expect(got == self.out, "output-mismatch",
                        f"data shows {got}, last executed put wrote {self.out}; {ctx}", port=p)
            if done:
                self.hit("put_called")
                self.count_transfer(self.vals(stim, "put.i."))
                if self.last_put == cyc - 1:
                    self.hit("back_to_back_puts")
                self.last_put = cyc
            elif got != tuple(0 for _ in self.fields):
                self.hit("output_held_without_put")
        # ---- what fired
        if cyc == 0 and raw == pol:
            self.hit("trigger_active_in_cycle0")
        if cyc == 0 and active:
            self.hit("callable_in_cycle0")
            if done:
                self.hit("called_in_cycle0")
        if en and not active:
            self.hit("requested_while_inactive")
        if c["edge"] and at_level and not active:
            self.hit("edge_mode_level_held")  # still at the active level, but no new edge
            if en:
                self.hit("edge_mode_level_held_requested")
        if c["edge"] and active:
            self.hit("edge_seen")
        if c["sync"] and eff != raw:
            self.hit("sync_trigger_differs_from_raw")
        if active and not en:
            self.hit("active_not_requested")
        self.hit(f"cfg_{p}_e{int(c['edge'])}p{pol}s{int(c['sync'])}")
        self.visit((raw, self.raw1, self.raw2, en, done), nontrivial=bool(active))
        # ---- step the model
        if not self.is_in and done:
            self.out = self.vals(stim, "put.i.")
        if self.is_in:
            self.data1 = cur
        self.raw2 = self.raw1
        self.raw1 = raw


_CFG_KEYS = [f"cfg_{p}_e{e}p{q}s{s}" for p in ("get", "put") for e in (0, 1) for q in (0, 1) for s in (0, 1)]


class Prop(PropBase):
    ID = "C30"
    tiers = {
        "quick": {"runs": 2400, "selftest_runs": 4},
        "thorough": {"runs": 40000, "selftest_runs": 32},
    }
    rule = ("one run = one component (InputSampler / OutputBuffer) x (edge, polarity, synchronize; in half of the runs "
            "arguments whose value is the documented default are not passed; in 30 % the settings are given as the integers 0 / 1) x layout (one or two fields of 1-64 bits, "
            "unsigned or signed, given as a list or as a StructLayout), driven "
            "for 40-160 cycles by a seeded phase plan for the trigger (random(p) / held high / held low / toggling / "
            "single-cycle pulses; cycle-0 value part of the configuration) and a request pattern (always / random / "
            "sparse); distinct = distinct (configuration, raw trigger of this and the two previous cycles, request, "
            "executed); non-trivial = the trigger was active in that cycle")
    expected_cov = ["trigger_active_in_cycle0", "callable_in_cycle0", "called_in_cycle0", "requested_while_inactive",
                    "edge_mode_level_held_requested", "edge_seen", "sync_trigger_differs_from_raw",
                    "sync_data_differs_from_current", "get_called", "put_called", "back_to_back_puts",
                    "output_held_without_put", "active_not_requested", "called_with_default_edge",
                    "called_with_default_polarity", "called_with_default_synchronize", "called_with_all_defaults", "negative_polarity_given_as_int_0",
                    "struct_layout_transferred", "signed_field_transferred", "negative_value_transferred",
                    "wide_field_transferred", "bits_above_12_transferred"] + _CFG_KEYS
    real = ["transactron.lib.basicio.InputSampler", "transactron.lib.basicio.OutputBuffer",
            "transactron.lib.adapters.AdapterTrans", "TransactionManager + scheduler", "amaranth pysim"]
    stubs = ["cycle driver (trigger / data / request stimulus)", "shift-register reference model of the trigger history"]
    search_space = "all 16 component x trigger configurations, trigger/data histories and request patterns"
    assumptions = ["`synchronize=True` means exactly one register stage in front of the edge / level detection; the trigger "
                   "history before reset is 0"]
    state_measure = "(raw trigger now, -1, -2, requested, executed) per configuration"

    def gen_config(self, rng, tier, idx):
        big = tier == "thorough"
        comp = "in" if (idx & 1) == 0 else "out"  # both components and all 8 settings in every 16 runs
        bits = (idx >> 1) & 7
        layout = [["data", rng.choice([1, 4, 8, 12]) if rng.random() < 0.7 else rng.choice([13, 16, 24, 32, 33, 64]),
                   int(rng.random() < 0.25)]]
        if rng.random() < 0.4:
            layout.append(["aux", rng.choice([1, 3, 9, 20]), int(rng.random() < 0.25)])
        cycles = rng.randint(40, 400 if big else 160)
        kinds = ["random", "random", "high", "low", "toggle", "pulse"]
        cfg = {"comp": comp, "edge": bits & 1, "polarity": (bits >> 1) & 1, "sync": (bits >> 2) & 1,
               "layout": layout, "trig0": rng.getrandbits(1), "en_mode": rng.choice(["always", "random", "random", "sparse"]),
               "cycles": cycles, "sched": rng.choice(["eager", "eager", "rr"]),
               "plan": make_plan(rng, cycles, kinds, min_len=4, max_len=30)}
        # half of the runs leave out arguments whose value is the documented default (False)
        args = [a for a, k in (("edge", "edge"), ("polarity", "polarity"), ("synchronize", "sync")) if not cfg[k]]
        r = rng.random()
        cfg["omit"] = args if r < 0.25 else [a for a in args if rng.random() < 0.5] if r < 0.5 else []
        cfg["layout_form"] = "struct" if rng.random() < 0.35 else "list"
        cfg["arg_form"] = "int" if rng.random() < 0.3 else "bool"
        return cfg

    def make(self, cfg):
        return Scen(cfg)

    def features(self, cfg, viol):
        return {"comp": cfg["comp"], "edge": cfg["edge"], "polarity": cfg["polarity"], "sync": cfg["sync"],
                "omit": sorted(cfg.get("omit", [])), "layout_form": cfg.get("layout_form", "list"),
                "arg_form": cfg.get("arg_form", "bool"),
                "signed": any(len(e) > 2 and e[2] for e in cfg["layout"]), "wide": any(e[1] > 12 for e in cfg["layout"])}

    def violation_class(self, feats):
        return {"kind": feats["kind"], "comp": feats["comp"]}

    def cfg_signature(self, cfg):
        return [cfg["comp"], cfg["edge"], cfg["polarity"], cfg["sync"], cfg["layout"], cfg["trig0"], cfg["en_mode"],
                cfg["sched"], sorted(cfg.get("omit", [])), cfg.get("layout_form", "list"), cfg.get("arg_form", "bool")]

    def shrink_cfg(self, cfg):
        if len(cfg["layout"]) > 1:
            c = dict(cfg)
            c["layout"] = cfg["layout"][:1]
            yield c
        if cfg["sched"] != "eager":
            c = dict(cfg)
            c["sched"] = "eager"
            yield c
        if cfg.get("layout_form", "list") != "list":
            c = dict(cfg)
            c["layout_form"] = "list"
            yield c
        if cfg.get("omit"):
            c = dict(cfg)
            c["omit"] = []
            yield c
        if any(len(e) > 2 and e[2] for e in cfg["layout"]):
            c = dict(cfg)
            c["layout"] = [[e[0], e[1], 0] for e in cfg["layout"]]
            yield c


PROP = Prop()
