"""C30 — InputSampler and OutputBuffer follow their trigger.

The harness owns the plain ports (`trigger`, `data`) and one real AdapterTrans on `get` / `put`.
Reference model: the raw trigger history with initial value 0 (raw[-1] = raw[-2] = 0); the effective
trigger is raw[t] (synchronize=False) or raw[t-1] (synchronize=True: the code has exactly ONE register
stage, `trigger` in BasicIOBase._trigger, and one for `data` in InputSampler); "previous cycle" of the
effective trigger is one cycle further back.
"""

from __future__ import annotations

from ..comp import CompScenario, leaves
from ..propbase import PropBase, make_plan, phase_at


class Scen(CompScenario):
    def build(self):
        from transactron.lib.basicio import InputSampler, OutputBuffer

        c = self.cfg
        layout = [(n, w) for n, w in c["layout"]]
        self.fields = [n for n, _ in layout]
        self.is_in = c["comp"] == "in"
        kw = dict(edge=bool(c["edge"]), polarity=bool(c["polarity"]), synchronize=bool(c["sync"]))
        if self.is_in:
            self.dut = InputSampler(layout, **kw)
            self.port = "get"
            self.caller("get", self.dut.get)
        else:
            self.dut = OutputBuffer(layout, **kw)
            self.port = "put"
            self.caller("put", self.dut.put)
        self.top.add("dut", self.dut)
        self.add_input("trigger", self.dut.trigger)
        for path, sig in leaves(self.dut.data):
            if self.is_in:
                self.add_input(f"data.{path}", sig)
            else:
                self.add_obs(f"data.{path}", sig)
        # model state: raw history (initial 0), data history, output register
        self.raw1 = 0  # raw trigger of the previous cycle
        self.raw2 = 0  # raw trigger two cycles ago
        self.data1 = tuple(0 for _ in self.fields)  # data inputs of the previous cycle
        self.out = tuple(0 for _ in self.fields)  # OutputBuffer: value `data` must show
        self.act_run = 0  # consecutive cycles the effective trigger was at the active level
        self.last_put = -10
        self.tag = 0
        return self.top

    # ---- stimulus -------------------------------------------------------------------------
    def stimulus(self, rng, cyc):
        c = self.cfg
        kind, p = phase_at(c["plan"], cyc)
        if kind == "random":
            trig = int(rng.random() < p)
        elif kind == "high":
            trig = int(rng.random() < 0.95)
        elif kind == "low":
            trig = int(rng.random() < 0.05)
        elif kind == "toggle":
            trig = 1 - self.raw1
        else:  # pulse: single-cycle excursions from the inactive level
            inactive = 0 if c["polarity"] else 1
            trig = (1 - inactive) if (self.raw1 == inactive and rng.random() < 0.35) else inactive
        if cyc == 0:
            trig = int(c["trig0"])
        pen = {"random": 0.6, "high": 0.8, "low": 0.8, "toggle": 1.0, "pulse": 0.9}[kind]
        if c["en_mode"] == "always":
            en = 1
        elif c["en_mode"] == "sparse":
            en = int(rng.random() < 0.25)
        else:
            en = int(rng.random() < pen)
        stim = {"trigger": trig, f"{self.port}.en": en}
        self.tag += 1
        for k, f in enumerate(self.fields):
            name = f"data.{f}" if self.is_in else f"put.i.{f}"
            w = self.widths[name]
            v = self.tag if k == 0 else rng.getrandbits(w)
            if rng.random() < 0.08:
                v = rng.choice([0, (1 << w) - 1])
            stim[name] = v & ((1 << w) - 1)
        return stim

    # ---- oracle -----------------------------------------------------------------------------
    def check(self, cyc, stim, obs):
        c = self.cfg
        p = self.port
        raw = stim.get("trigger", 0)
        if c["sync"]:
            eff, eff_prev = self.raw1, self.raw2
        else:
            eff, eff_prev = raw, self.raw1
        pol = int(bool(c["polarity"]))
        at_level = eff == pol
        if c["edge"]:
            active = at_level and eff_prev != pol  # the configured edge relative to the previous cycle
        else:
            active = at_level
        en = stim.get(f"{p}.en", 0)
        done = obs[f"{p}.done"]
        ctx = f"cfg(edge={c['edge']},pol={c['polarity']},sync={c['sync']}) raw={raw} prev={self.raw1} prev2={self.raw2}"
        if en:
            self.expect(obs[f"{p}.runnable"] == int(active), "ready-mismatch",
                        f"{p} runnable={obs[f'{p}.runnable']} but trigger active={int(active)}; {ctx}", port=p)
        self.expect(not done or (en and active), "ran-when-not-callable",
                    f"{p}: en={en} active={int(active)} done={done}; {ctx}", port=p)
        if en and active and not done:
            self.hit("blocked_though_ready")
        if self.is_in:
            cur = tuple(stim.get(f"data.{f}", 0) for f in self.fields)
            want = self.data1 if c["sync"] else cur
            if done:
                got = tuple(obs[f"get.o.{f}"] for f in self.fields)
                self.expect(got == want, "data-mismatch", f"get returned {got}, expected {want}; {ctx}", port=p)
                self.hit("get_called")
                if c["sync"] and self.data1 != cur:
                    self.hit("sync_data_differs_from_current")
        else:
            got = tuple(obs[f"data.{f}"] for f in self.fields)
            self.expect(got == self.out, "output-mismatch",
                        f"data shows {got}, last executed put wrote {self.out}; {ctx}", port=p)
            if done:
                self.hit("put_called")
                if self.last_put == cyc - 1:
                    self.hit("back_to_back_puts")
                self.last_put = cyc
            elif got != tuple(0 for _ in self.fields):
                self.hit("output_held_without_put")
        # ---- what fired
        if cyc == 0 and raw == pol:
            self.hit("trigger_active_in_cycle0")
        if cyc == 0 and active:
            self.hit("callable_in_cycle0")
            if done:
                self.hit("called_in_cycle0")
        if en and not active:
            self.hit("requested_while_inactive")
        if c["edge"] and at_level and not active:
            self.hit("edge_mode_level_held")  # still at the active level, but no new edge
            if en:
                self.hit("edge_mode_level_held_requested")
        if c["edge"] and active:
            self.hit("edge_seen")
        if c["sync"] and eff != raw:
            self.hit("sync_trigger_differs_from_raw")
        if active and not en:
            self.hit("active_not_requested")
        self.hit(f"cfg_{p}_e{int(c['edge'])}p{pol}s{int(c['sync'])}")
        self.visit((raw, self.raw1, self.raw2, en, done), nontrivial=bool(active))
        # ---- step the model
        if not self.is_in and done:
            self.out = tuple(stim.get(f"put.i.{f}", 0) for f in self.fields)
        if self.is_in:
            self.data1 = cur
        self.raw2 = self.raw1
        self.raw1 = raw


_CFG_KEYS = [f"cfg_{p}_e{e}p{q}s{s}" for p in ("get", "put") for e in (0, 1) for q in (0, 1) for s in (0, 1)]


class Prop(PropBase):
    ID = "C30"
    tiers = {
        "quick": {"runs": 2400, "selftest_runs": 4},
        "thorough": {"runs": 40000, "selftest_runs": 32},
    }
    rule = ("one run = one component (InputSampler / OutputBuffer) x (edge, polarity, synchronize) x layout, driven "
            "for 40-160 cycles by a seeded phase plan for the trigger (random(p) / held high / held low / toggling / "
            "single-cycle pulses; cycle-0 value part of the configuration) and a request pattern (always / random / "
            "sparse); distinct = distinct (configuration, raw trigger of this and the two previous cycles, request, "
            "executed); non-trivial = the trigger was active in that cycle")
    expected_cov = ["trigger_active_in_cycle0", "callable_in_cycle0", "called_in_cycle0", "requested_while_inactive",
                    "edge_mode_level_held_requested", "edge_seen", "sync_trigger_differs_from_raw",
                    "sync_data_differs_from_current", "get_called", "put_called", "back_to_back_puts",
                    "output_held_without_put", "active_not_requested"] + _CFG_KEYS
    real = ["transactron.lib.basicio.InputSampler", "transactron.lib.basicio.OutputBuffer",
            "transactron.lib.adapters.AdapterTrans", "TransactionManager + scheduler", "amaranth pysim"]
    stubs = ["cycle driver (trigger / data / request stimulus)", "shift-register reference model of the trigger history"]
    search_space = "all 16 component x trigger configurations, trigger/data histories and request patterns"
    assumptions = ["`synchronize=True` means exactly one register stage in front of the edge / level detection; the trigger "
                   "history before reset is 0"]
    state_measure = "(raw trigger now, -1, -2, requested, executed) per configuration"

    def gen_config(self, rng, tier, idx):
        big = tier == "thorough"
        comp = "in" if (idx & 1) == 0 else "out"  # both components and all 8 settings in every 16 runs
        bits = (idx >> 1) & 7
        layout = [["data", rng.choice([1, 4, 8, 12])]]
        if rng.random() < 0.4:
            layout.append(["aux", rng.choice([1, 3, 9])])
        cycles = rng.randint(40, 400 if big else 160)
        kinds = ["random", "random", "high", "low", "toggle", "pulse"]
        return {"comp": comp, "edge": bits & 1, "polarity": (bits >> 1) & 1, "sync": (bits >> 2) & 1,
                "layout": layout, "trig0": rng.getrandbits(1), "en_mode": rng.choice(["always", "random", "random", "sparse"]),
                "cycles": cycles, "sched": rng.choice(["eager", "eager", "rr"]),
                "plan": make_plan(rng, cycles, kinds, min_len=4, max_len=30)}

    def make(self, cfg):
        return Scen(cfg)

    def features(self, cfg, viol):
        return {"comp": cfg["comp"], "edge": cfg["edge"], "polarity": cfg["polarity"], "sync": cfg["sync"]}

    def violation_class(self, feats):
        return {"kind": feats["kind"], "comp": feats["comp"]}

    def cfg_signature(self, cfg):
        return [cfg["comp"], cfg["edge"], cfg["polarity"], cfg["sync"], cfg["layout"], cfg["trig0"], cfg["en_mode"],
                cfg["sched"]]

    def shrink_cfg(self, cfg):
        if len(cfg["layout"]) > 1:
            c = dict(cfg)
            c["layout"] = cfg["layout"][:1]
            yield c
        if cfg["sched"] != "eager":
            c = dict(cfg)
            c["sched"] = "eager"
            yield c


PROP = Prop()
