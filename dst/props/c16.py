"""C16 — Stack behaves as a bounded LIFO."""

from __future__ import annotations

from ..comp import CompScenario, layout_from_spec, spec_leaves, spread, rand_leaf, rand_layout_spec
from ..propbase import PropBase, make_plan, phase_at

PORTS = ("write", "read", "peek", "clear")


class Scen(CompScenario):
    def build(self):
        from transactron.lib.stack import Stack

        c = self.cfg
        # the layout as the list form or as a StructLayout object (both are documented method layouts)
        layout = layout_from_spec(c["layout"], bool(c.get("layout_obj")))
        self.leafs = spec_leaves(c["layout"])  # (path, width, signed) of every scalar leaf; the first is the tag
        self.fields = [path for path, _, _ in self.leafs]
        self.mul = c.get("tagmul", 1)
        self.depth = c["depth"]
        self.dut = Stack(layout, self.depth)
        self.top.add("dut", self.dut)
        self.caller("write", self.dut.write)
        self.caller("read", self.dut.read)
        if c.get("twin"):
            self.twin("read", self.dut.read)
        self.caller("peek", self.dut.peek)
        self.caller("clear", self.dut.clear)
        if c.get("peek2"):  # a second, independent caller of peek (simultaneous calls of one method)
            self.caller("peek2", self.dut.peek)
        self.st: list = []  # reference model: bottom ... top
        self.replaced: set = set()  # tags pushed in a read+write cycle and still on the stack
        self.tag = 0
        self.was_full = False
        return self.top

    # ---- stimulus -------------------------------------------------------------------------
    def stimulus(self, rng, cyc):
        kind, p = phase_at(self.cfg["plan"], cyc)
        level = len(self.st)
        pw, pr, pp, pc = {
            "random": (p, 1 - p if p not in (0.0, 1.0) else p, 0.5, 0.02),
            "fill": (1.0, 0.1, 0.3, 0.0),
            "drain": (0.1, 1.0, 0.3, 0.0),
            "pingpong": (1.0, 1.0, 1.0, 0.0),
            "swap": (0.9, 0.9, 0.5, 0.0),
            "flush": (0.8, 0.5, 0.5, 0.35),
            "idle": (0.05, 0.05, 0.05, 0.01),
        }[kind]
        if kind == "fill" and level == self.depth:
            pr = 0.5  # at the limit: keep bouncing off it
        if kind == "drain" and level == 0:
            pw = 0.5
        if kind == "swap" and level == 0:
            pr = 0.0  # get something onto the stack, then replace the top again and again
        if pc > 0 and level in (0, self.depth):
            pc = min(1.0, pc * 2)  # flush right after the stack became full / empty
        stim = {
            "write.en": int(rng.random() < pw),
            "read.en": int(rng.random() < pr),
            "peek.en": int(rng.random() < pp),
            "clear.en": int(rng.random() < pc),
        }
        if self.cfg.get("peek2"):
            stim["peek2.en"] = int(rng.random() < max(pp, 0.5))
        self.twin_stim(rng, stim)
        # unique tags in the first leaf, spread over its whole width (counter * odd constant modulo 2**width);
        # noise in the others (full width, with all-zeros / all-ones / sign-bit-only patterns mixed in)
        self.tag += 1
        for k, (f, w, sgn) in enumerate(self.leafs):
            stim[f"write.i.{f}"] = spread(self.tag, self.mul, w, sgn) if k == 0 else rand_leaf(rng, w, sgn)
        return stim

    # ---- oracle -----------------------------------------------------------------------------
    def check(self, cyc, stim, obs):
        stim, obs = self.fold_twins(stim, obs)
        depth, st = self.depth, self.st
        level = len(st)
        nonempty, notfull = level > 0, level < depth
        # clear readiness is not stated by the property; only "done implies requested" is demanded of it
        exp_ready = {"write": notfull, "read": nonempty, "peek": nonempty, "clear": True}
        done = {}
        if self.cfg.get("peek2") and stim.get("peek.en") and stim.get("peek2.en") and nonempty:
            # "read/peek are ready iff non-empty", for every caller: two simultaneous peeks are both served
            self.expect(obs["peek.done"] and obs["peek2.done"], "simultaneous-peeks-not-served",
                        f"two callers request peek at level {level}: served {obs['peek.done']}/{obs['peek2.done']}", port="peek")
            self.hit("two_peek_callers_served")
        for p in PORTS:
            en = stim.get(f"{p}.en", 0)
            done[p] = obs[f"{p}.done"]
            if en and p != "clear":
                self.expect(obs[f"{p}.runnable"] == int(exp_ready[p]), "ready-mismatch",
                            f"{p} callable={obs[f'{p}.runnable']} but stack level={level}/{depth}", port=p)
            self.expect(not done[p] or (en and exp_ready[p]), "ran-when-not-callable",
                        f"{p}: en={en} ready={exp_ready[p]} done={done[p]} level={level}/{depth}", port=p)
            if en and exp_ready[p] and not done[p]:
                self.hit("blocked_though_ready")
        for p in ("read", "peek"):
            if done[p]:  # "returns": the value handed to an executed call
                got = tuple(obs[f"{p}.o.{f}"] for f in self.fields)
                self.expect(got == st[-1], "data-mismatch",
                            f"{p} returned {got}, top of stack is {st[-1]} (level {level}/{depth})", port=p)
                if st[-1][0] in self.replaced:
                    self.hit("returned_value_pushed_in_read_write_cycle")
                self.data_cov(got)
        w, r, pk, c = done["write"], done["read"], done["peek"], done["clear"]
        # fault kinds / boundary events that fired
        if stim.get("write.en") and not notfull:
            self.hit("write_refused_at_full")
            if r:
                self.hit("write_refused_at_full_while_read_ran")
        if stim.get("read.en") and not nonempty:
            self.hit("read_refused_at_empty")
        if w and r:
            self.hit("read_and_write_same_cycle")
            if level == 1:
                self.hit("rw_at_level_1")
            if level == depth - 1:
                self.hit("rw_at_depth_minus_1")
        if r and pk:
            self.hit("read_and_peek_same_cycle")
        if c:
            self.hit("clear")
            if w:
                self.hit("clear_with_write")
            if r:
                self.hit("clear_with_read")
            if level == depth:
                self.hit("clear_at_full")
        if w and not r and not c and level == depth - 1:
            self.hit("became_full")
        if r and not w and not c and level == 1:
            self.hit("became_empty")
        if r and not w and self.was_full:
            self.hit("read_right_after_full")
        calls = tuple(p for p in PORTS if done[p])
        self.visit((level, calls), nontrivial=bool(calls) and (level in (0, 1, depth - 1, depth) or bool(c)))
        # step the model: read (pop), then write (push), clear last
        if r:
            self.replaced.discard(st.pop()[0])
        if w:
            item = tuple(stim.get(f"write.i.{f}", 0) for f in self.fields)
            st.append(item)
            if r:
                self.replaced.add(item[0])
        if c:
            st.clear()
            self.replaced.clear()
        self.was_full = len(st) == depth

    def data_cov(self, got):
        """What kind of value came back intact."""
        for (f, w, sgn), v in zip(self.leafs, got):
            if w >= 10 and (v if v >= 0 else v + (1 << w)) >> 9:
                self.hit("returned_value_with_bits_above_9")
            if w > 32 and (v if v >= 0 else v + (1 << w)) >> 32:
                self.hit("returned_value_with_bits_above_32")
            if sgn and v < 0:
                self.hit("returned_negative_signed_field")
            if w == 1 and v:
                self.hit("returned_one_bit_field_set")
        if len(self.leafs) >= 3:
            self.hit("returned_struct_of_3_or_more_leaves")
        if any("." in f for f in self.fields):
            self.hit("returned_nested_or_array_field")


class Prop(PropBase):
    ID = "C16"
    tiers = {
        "quick": {"runs": 480, "selftest_runs": 4},
        "thorough": {"runs": 9000, "selftest_runs": 32},
    }
    rule = ("one run = one (depth, layout) configuration driven for 80-240 cycles by a seeded phase plan (random / fill / "
            "drain / ping-pong / swap (read+write replacing the top) / flush / idle), any subset of read/peek/write/clear "
            "per cycle; layouts: the tag alone or tag + small aux field, or (55 %) wide (up to 64 bit) / signed / 1-bit / "
            "3-4-field / nested-struct / array fields, given as a list or as a StructLayout object; unique tags = counter * "
            "per-run odd constant modulo 2**width (all bits used); distinct = distinct (configuration, stack level, executed call set); non-trivial = a "
            "call executed at level 0, 1, depth-1 or depth, or clear ran")
    expected_cov = ["write_refused_at_full", "write_refused_at_full_while_read_ran", "read_refused_at_empty",
                    "read_and_write_same_cycle", "rw_at_level_1", "rw_at_depth_minus_1",
                    "returned_value_pushed_in_read_write_cycle", "read_and_peek_same_cycle", "clear_with_write",
                    "clear_with_read", "clear_at_full", "became_full", "became_empty", "read_right_after_full", "two_peek_callers_served",
                    "returned_value_with_bits_above_9", "returned_value_with_bits_above_32", "returned_negative_signed_field",
                    "returned_one_bit_field_set", "returned_struct_of_3_or_more_leaves", "returned_nested_or_array_field"]
    real = ["transactron.lib.stack.Stack", "transactron.lib.adapters.AdapterTrans", "TransactionManager + scheduler",
            "amaranth.lib.memory.Memory", "amaranth pysim"]
    stubs = ["cycle driver (stimulus)", "list reference model"]
    search_space = "stack depths/layouts and read/peek/write/clear call histories with boundary and flush faults"
    assumptions = ["fullness / emptiness are judged on the stack content at the beginning of the cycle; of the calls executed in "
                   "one cycle `clear` is applied last"]

    def gen_config(self, rng, tier, idx):
        big = tier == "thorough"
        depth = rng.choice([1, 2, 3, 4, 5, 6, 7, 8, 9] + ([12, 15, 16, 17] if big else []))
        layout = rand_layout_spec(rng, rich=rng.random() < 0.55)
        cycles = rng.randint(80, 400 if big else 240)
        kinds = ["random", "random", "fill", "drain", "pingpong", "swap", "flush", "flush", "idle"]
        cfg = {"depth": depth, "layout": layout, "cycles": cycles, "sched": rng.choice(["eager", "eager", "rr"]),
               "peek2": int(rng.random() < 0.35), "twin": int(rng.random() < 0.3),
               "plan": make_plan(rng, cycles, kinds, min_len=4, max_len=32)}
        cfg["tagmul"] = rng.getrandbits(64) | 1  # tag = counter * odd constant modulo 2**width: unique, all bits used
        cfg["layout_obj"] = int(rng.random() < 0.25)
        return cfg

    def make(self, cfg):
        return Scen(cfg)

    def features(self, cfg, viol):
        return {"port": (viol.get("info") or {}).get("port")}

    def cfg_signature(self, cfg):
        return [cfg["depth"], cfg["layout"], cfg["sched"], cfg.get("peek2", 0), cfg.get("twin", 0), cfg.get("layout_obj", 0)]

    def shrink_cfg(self, cfg):
        for d in (1, 2, cfg["depth"] // 2, cfg["depth"] - 1):
            if 1 <= d < cfg["depth"]:
                c = dict(cfg)
                c["depth"] = d
                yield c
        if len(cfg["layout"]) > 1:
            c = dict(cfg)
            c["layout"] = cfg["layout"][:1]
            yield c
        if cfg.get("layout_obj"):
            c = dict(cfg)
            c["layout_obj"] = 0
            yield c
        if cfg["sched"] != "eager":
            c = dict(cfg)
            c["sched"] = "eager"
            yield c


PROP = Prop()
