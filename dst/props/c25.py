"""C25 — PriorityEncoderAllocator: multi-way allocation from a free mask."""

from __future__ import annotations

from ..comp import CompScenario
from ..propbase import PropBase, make_plan, phase_at


def bits(mask, n):
    return [i for i in range(n) if (mask >> i) & 1]


class Scen(CompScenario):
    def build(self):
        from transactron.lib.allocators import PriorityEncoderAllocator

        c = self.cfg
        self.n = c["entries"]
        self.aw = c["alloc_ways"]
        self.fw = c["free_ways"]
        self.full = (1 << self.n) - 1
        self.init_mask = c["init"] & self.full  # init = -1: every identifier free
        self.dut = PriorityEncoderAllocator(self.n, self.aw, self.fw, init=c["init"])
        self.top.add("dut", self.dut)
        for i in range(self.aw):
            self.caller(f"alloc{i}", self.dut.alloc[i])
        if c.get("twin"):  # a second, independent caller of alloc way 0 (two units sharing one way)
            self.caller("alloctwin", self.dut.alloc[0])
        for i in range(self.fw):
            self.caller(f"free{i}", self.dut.free[i])
        self.caller("peek", self.dut.peek)
        self.caller("replace", self.dut.replace)
        self.caller("clear", self.dut.clear)
        # model: mask of free identifiers
        self.free = self.init_mask
        self.freed_ever = 0
        self.replaced = False
        return self.top

    # ---- stimulus -------------------------------------------------------------------------
    def stimulus(self, rng, cyc):
        kind, p = phase_at(self.cfg["plan"], cyc)
        pa, pf, pp, pr, pc = {
            "random": (p, 1 - p if p not in (0.0, 1.0) else p, 0.5, 0.02, 0.02),
            "fill": (1.0, 0.1, 0.3, 0.0, 0.0),
            "drain": (0.1, 1.0, 0.3, 0.0, 0.0),
            "pingpong": (1.0, 1.0, 1.0, 0.0, 0.0),
            "gap": (0.5, 0.5, 0.3, 0.01, 0.01),
            "replace": (0.7, 0.5, 0.6, 0.3, 0.05),
            "flush": (0.8, 0.7, 0.5, 0.1, 0.3),
            "contend": (0.5, 0.5, 0.5, 0.6, 0.6),
            "idle": (0.05, 0.05, 0.05, 0.01, 0.01),
        }[kind]
        stim = {}
        for i in range(self.aw):
            stim[f"alloc{i}.en"] = int(rng.random() < pa)
        if self.cfg.get("twin"):
            stim["alloctwin.en"] = int(rng.random() < max(pa, 0.5))
        if kind == "gap" and self.aw > 1 and rng.random() < 0.7:
            # only higher ways request: way i must hand out an identifier although way 0 is idle
            lo = rng.randint(1, self.aw - 1)
            for i in range(lo):
                stim[f"alloc{i}.en"] = 0
            stim[f"alloc{lo}.en"] = 1
        # frees: only identifiers that are allocated at the start of this cycle, each at most once
        used = bits(~self.free & self.full, self.n)
        rng.shuffle(used)
        for i in range(self.fw):
            if used and rng.random() < pf:
                stim[f"free{i}.en"] = 1
                stim[f"free{i}.i.ident"] = used.pop()
                if i and stim.get(f"free{i - 1}.en") and rng.random() < 0.1:
                    # two ways releasing the same allocated identifier in one cycle (it is allocated: within the premise)
                    stim[f"free{i}.i.ident"] = stim[f"free{i - 1}.i.ident"]
        stim["peek.en"] = int(rng.random() < pp)
        stim["replace.en"] = int(rng.random() < pr)
        r = rng.random()
        if r < 0.15:
            mask = 0
        elif r < 0.3:
            mask = self.full
        elif r < 0.45:
            mask = 1 << rng.randrange(self.n)
        elif r < 0.55:
            mask = self.full ^ (1 << rng.randrange(self.n))
        else:
            mask = rng.getrandbits(self.n)
        stim["replace.i.mask"] = mask
        stim["clear.en"] = int(rng.random() < pc)
        if stim["replace.en"] and stim["clear.en"]:
            # the statement does not say what the mask is after replace and clear of one cycle: never both
            # (each of them still coincides with alloc / free / peek)
            stim["replace.en" if rng.random() < 0.5 else "clear.en"] = 0
        return stim

    # ---- oracle -----------------------------------------------------------------------------
    def check(self, cyc, stim, obs):
        n, F = self.n, self.free
        free_ids = bits(F, n)
        nfree = len(free_ids)

        # premise: frees name identifiers allocated in earlier cycles (two ways may name the same one)
        freeing = []
        for i in range(self.fw):
            if stim.get(f"free{i}.en", 0):
                ident = stim.get(f"free{i}.i.ident", 0)
                self.premise(ident < n and not (F >> ident) & 1, f"free of identifier {ident} which is not allocated")
                if ident in freeing:
                    self.hit("same_identifier_freed_on_two_ways")
                freeing.append(ident)

        # alloc ways
        got = {}
        refused = 0
        for i in range(self.aw):
            p = f"alloc{i}"
            en, done = stim.get(f"{p}.en", 0), obs[f"{p}.done"]
            ready = nfree >= i + 1
            if en:
                self.expect(obs[f"{p}.runnable"] == int(ready), "ready-mismatch",
                            f"alloc way {i} callable={obs[f'{p}.runnable']} with {nfree} identifiers free "
                            f"(mask {F:0{n}b})", port="alloc", way=i)
                if not ready:
                    refused += 1
            self.expect(not done or (en and ready), "ran-when-not-callable",
                        f"alloc way {i}: en={en} done={done} with {nfree} free", port="alloc", way=i)
            if en and ready and not done:
                self.hit("blocked_though_ready")
            if done:
                ident = obs.get(f"{p}.o.ident", 0)
                self.expect(ident < n and (F >> ident) & 1, "allocated-twice",
                            f"alloc way {i} returned identifier {ident} which is not free (free mask {F:0{n}b})",
                            port="alloc", way=i)
                self.expect(ident not in got.values(), "not-distinct",
                            f"alloc way {i} returned identifier {ident} also returned by another way this cycle "
                            f"({got})", port="alloc", way=i)
                got[i] = ident

        if self.cfg.get("twin"):
            # the twin caller of way 0: whatever it is handed must be free and distinct from everything else
            # returned in this cycle (it can only be served in a cycle where the other caller of way 0 is not)
            if obs["alloctwin.done"]:
                ident = obs.get("alloctwin.o.ident", 0)
                self.expect(stim.get("alloctwin.en", 0) and nfree >= 1, "ran-when-not-callable",
                            f"twin caller of alloc way 0 done with {nfree} free", port="alloc", way=0)
                self.expect(ident < n and (F >> ident) & 1, "allocated-twice",
                            f"twin caller of alloc way 0 got identifier {ident} which is not free (mask {F:0{n}b})", port="alloc", way=0)
                self.expect(ident not in got.values(), "not-distinct",
                            f"twin caller of alloc way 0 got identifier {ident}, also returned to another caller this cycle ({got})",
                            port="alloc", way=0)
                got["twin"] = ident
                self.hit("twin_caller_served")
            if stim.get("alloctwin.en", 0) and stim.get("alloc0.en", 0) and nfree >= 1:
                self.hit("two_callers_contend_for_one_way")

        # free ways, peek, replace, clear: the statement gives no readiness -- a refusal is counted
        self.premise(not (stim.get("replace.en", 0) and stim.get("clear.en", 0)),
                     "replace and clear are not requested in one cycle")
        done_free = []
        for i in range(self.fw):
            p = f"free{i}"
            en, done = stim.get(f"{p}.en", 0), obs[f"{p}.done"]
            if en and not obs[f"{p}.runnable"]:
                self.hit("free_not_callable")
            self.expect(not done or en, "ran-when-not-callable", f"free way {i} done without request", port="free", way=i)
            if en and not done:
                self.hit("blocked_though_ready")
            if done:
                done_free.append(stim.get(f"{p}.i.ident", 0))
        for p in ("peek", "replace", "clear"):
            en, done = stim.get(f"{p}.en", 0), obs[f"{p}.done"]
            if en and not obs[f"{p}.runnable"]:
                self.hit(f"{p}_not_callable")
            self.expect(not done or en, "ran-when-not-callable", f"{p} done without request", port=p)
        pk, rp, cl = obs["peek.done"], obs["replace.done"], obs["clear.done"]
        if stim.get("peek.en", 0) and not pk:
            self.hit("blocked_though_ready")
        if (stim.get("replace.en", 0) or stim.get("clear.en", 0)) and not (rp or cl):
            self.hit("blocked_though_ready")
        if pk:
            self.expect(obs["peek.o.mask"] == F, "peek-mismatch",
                        f"peek returned {obs['peek.o.mask']:0{n}b}, free mask is {F:0{n}b}", port="peek")

        # ---- what fired
        nreq = sum(stim.get(f"alloc{i}.en", 0) for i in range(self.aw))
        if nreq and nfree == 0:
            self.hit("alloc_refused_none_free")
        if refused and got:
            self.hit("alloc_some_ways_refused")
        if len(got) == self.aw and self.aw > 1:
            self.hit("alloc_all_ways_ran")
        if got and len(got) == nfree:
            self.hit("alloc_took_last_free")
        if got and 0 not in got:
            self.hit("alloc_high_way_only")
        if got and done_free:
            self.hit("alloc_and_free_same_cycle")
        if len(done_free) > 1:
            self.hit("free_several_same_cycle")
        if any((self.freed_ever >> v) & 1 for v in got.values()):
            self.hit("ident_reused_after_free")
        if got and self.replaced:
            self.hit("alloc_after_replace")
        if got and self.init_mask not in (0, self.full) and not self.replaced:
            self.hit("alloc_from_partial_init")
        if rp:
            self.hit("replace")
            if got:
                self.hit("replace_with_alloc")
            if done_free:
                self.hit("replace_with_free")
        if cl:
            self.hit("clear")
            if got:
                self.hit("clear_with_alloc")
            if done_free:
                self.hit("clear_with_free")
        if pk and (got or done_free or rp or cl):
            self.hit("peek_with_update")

        calls = (tuple(sorted(map(str, got))), len(done_free), pk, rp, cl)
        self.visit((F, calls), nontrivial=bool(got or done_free or rp or cl) and
                   (nfree <= self.aw or nfree >= n - 1 or bool(rp or cl) or bool(refused)))

        # ---- step the model (alloc and free touch disjoint identifiers; replace / clear set the mask last)
        for v in got.values():
            F &= ~(1 << v)
        for v in done_free:
            F |= 1 << v
            self.freed_ever |= 1 << v
        if rp:
            F = stim.get("replace.i.mask", 0) & self.full
            self.replaced = True
        if cl:
            F = self.init_mask
        self.free = F & self.full


class Prop(PropBase):
    ID = "C25"
    tiers = {
        "quick": {"runs": 320, "selftest_runs": 4},
        "thorough": {"runs": 18000, "selftest_runs": 32},
    }
    rule = ("one run = one (entries, alloc_ways, free_ways, init mask) configuration driven for 80-240 cycles by a seeded "
            "phase plan (random / fill / drain / ping-pong / gap (only higher ways request) / replace / flush / contend / "
            "idle; replace and clear never in one cycle); distinct = distinct (configuration, free mask, executed call set); non-trivial = a state-changing "
            "call executed while at most alloc_ways or at least entries-1 identifiers are free, or a way was refused, "
            "or replace / clear ran")
    expected_cov = ["alloc_refused_none_free", "alloc_some_ways_refused", "alloc_all_ways_ran", "alloc_took_last_free",
                    "alloc_high_way_only", "alloc_and_free_same_cycle", "free_several_same_cycle", "ident_reused_after_free",
                    "alloc_after_replace", "alloc_from_partial_init", "replace_with_alloc", "replace_with_free",
                    "clear_with_alloc", "clear_with_free", "peek_with_update", "same_identifier_freed_on_two_ways", "twin_caller_served", "two_callers_contend_for_one_way"]
    real = ["transactron.lib.allocators.PriorityEncoderAllocator",
            "transactron.utils.amaranth_ext.elaboratables.MultiPriorityEncoder", "transactron.lib.adapters.AdapterTrans",
            "TransactionManager + scheduler", "amaranth pysim"]
    stubs = ["cycle driver (stimulus)", "free-mask reference model"]
    assumptions = ["'free' identifiers (way readiness, returned identifiers, peek) are judged on the free mask at the beginning "
                   "of the cycle: an identifier freed in a cycle is not available to an alloc of the same cycle; of the calls "
                   "executed in one cycle replace / clear set the mask last",
                   "replace and clear are never requested in the same cycle (the statement does not say which one wins)"]
    search_space = ("PriorityEncoderAllocator configurations (entries, alloc_ways, free_ways, init mask) and "
                    "alloc/free/peek/replace/clear call histories that free only allocated identifiers")

    def gen_config(self, rng, tier, idx):
        big = tier == "thorough"
        n = rng.choice([1, 2, 3, 4, 5, 6, 7, 8] + ([9, 12, 13, 16] if big else []))
        aw = rng.randint(1, 3)
        fw = rng.randint(1, 3)
        r = rng.random()
        if r < 0.4:
            init = -1
        elif r < 0.5:
            init = 0
        elif r < 0.6:
            init = 1 << rng.randrange(n)
        elif r < 0.65:
            init = (1 << n) - 1
        else:
            init = rng.getrandbits(n)
        if rng.random() < 0.15:
            init = ~(~init & ((1 << n) - 1))  # the same mask written as a negative number (like the default -1)
        cycles = rng.randint(80, 400 if big else 240)
        kinds = ["random", "random", "fill", "drain", "pingpong", "gap", "replace", "flush", "contend", "idle"]
        return {"entries": n, "alloc_ways": aw, "free_ways": fw, "init": init, "cycles": cycles, "twin": int(rng.random() < 0.3),
                "sched": rng.choice(["eager", "eager", "rr"]), "plan": make_plan(rng, cycles, kinds)}

    def make(self, cfg):
        return Scen(cfg)

    def features(self, cfg, viol):
        info = viol.get("info") or {}
        return {"port": info.get("port"), "multiway": cfg["alloc_ways"] > 1}

    def cfg_signature(self, cfg):
        return [cfg["entries"], cfg["alloc_ways"], cfg["free_ways"], cfg["init"], cfg["sched"], cfg.get("twin", 0)]

    def shrink_cfg(self, cfg):
        # entries stay (recorded identifiers / masks refer to them); fewer ways, simpler init, eager scheduler
        if cfg["free_ways"] > 1:
            c = dict(cfg)
            c["free_ways"] -= 1
            yield c
        if cfg["alloc_ways"] > 1:
            c = dict(cfg)
            c["alloc_ways"] -= 1
            yield c
        if cfg["init"] != -1:
            c = dict(cfg)
            c["init"] = -1
            yield c
        if cfg["sched"] != "eager":
            c = dict(cfg)
            c["sched"] = "eager"
            yield c


PROP = Prop()
