"""C12 — condition() picks one admissible branch."""
import random

from ..coregen.prop import CoreProp
from ..coregen.gen import generate_cond
from ..kernel import h64
from ..propbase import make_plan


class Prop(CoreProp):
    ID = "C12"
    checks = ["C12"]
    scheds = ["eager"]
    tiers = {"quick": {"runs": 2000, "selftest_runs": 4}, "thorough": {"runs": 12000, "selftest_runs": 32}}
    rule = ("one run = one generated design with 1-2 condition() blocks (1-4 branches with free, overlapping conditions, optional "
            "default, blocking / nonblocking, priority on/off, one level of nesting) inside a transaction or a single- or two-caller "
            "method; branches call 0-2 methods of a shared pool (free readiness, validate_arguments) that outside transactions call "
            "too; 60-160 cycles; distinct = distinct (program, set of running transactions/branches); non-trivial = a transaction ran")
    expected_cov = ["cond_branch_ran", "cond_overlapping_conditions_one_chosen", "cond_default_ran", "cond_nonblocking_fallthrough",
                    "cond_first_true_branch_inadmissible", "cond_no_condition_true", "cond_all_conditions_true",
                    "cond_later_branch_ran_with_priority", "cond_nested_block_evaluated"]

    def gen_config(self, rng, tier, idx):
        prng = random.Random(h64(self.master_seed, self.ID, "program", idx // 2))
        prog = generate_cond(prng)
        cycles = rng.randint(*self.cycles) * (2 if tier == "thorough" else 1)
        return {"prog": prog, "sched": "eager", "cycles": cycles, "checks": ["C12"],
                "plan": make_plan(rng, cycles, self.phase_kinds, 6, 24)}


PROP = Prop()
