"""C33 — the event log captures and decodes events faithfully.

A stub design (dst/models/ctxprog.py: real TModule / Transaction / Method / def_method) places 2..5
`EventSource.emit` sites in transaction bodies, method bodies and under m.If / m.Switch.  The
library's own capture process (`transactron.testing.evlog.capture_evlog`) and tick counter run next
to the cycle driver.  The oracle computes, from the applied inputs and the observed `run` signals,
the set {(cycle, site, values) : trigger ∧ context active} and compares it with what was captured;
after the simulation the same list must come out of save→load, EventLogWriter→EventLogReader and a
GeneratedEvLogSampler (packed and per-site triggers) replaying the recorded site signals, and
EventConsumer.run must dispatch in non-decreasing cycle order.

A share of the sites calls `EventSource.top_emit` directly (documented: "ignores m.If etc."): such a site is
expected to fire in exactly the cycles where its `when` holds (any bit of a multi-bit `when`; always when
`when` is left at its default), whatever the enclosing context does.  Contexts include m.AvoidedIf and
m.FSM / m.State in a share of the runs; dynamic fields are up to 64 bits wide; some designs have no emission
site at all; capture_evlog is also called without metadata.

NOTE: no `from __future__ import annotations` here -- the @event decorator resolves the field
annotations of the event classes, which are defined inside a function (lazily, once per process).
"""

import os
import random
import shutil
from enum import Enum, IntEnum

from ..comp import CompScenario
from ..kernel import VERIF_DIR, Inconclusive, h64
from ..models.ctxprog import CtxDesign, CtxEval, gen_ctx_stim, gen_prog, running_arg, to_signed
from ..propbase import PropBase, make_plan, phase_at


class Kind3(IntEnum):
    LOAD = 0
    STORE = 1
    ALU = 2


class SKind(IntEnum):
    NEG2 = -2
    NEG1 = -1
    POS1 = 1


class Wide5(IntEnum):
    A = 0
    B = 7
    C = 19
    D = 31


class UnitS(Enum):
    ALU = "alu"
    MEM = "mem unit"
    ODD = 'q"uo\\te'


ENUMS = {"Kind3": Kind3, "SKind": SKind, "Wide5": Wide5, "UnitS": UnitS}

# event class key -> (dynamic fields [(name, type tag)], static fields [(name, type tag, has default)])
CLASSES = {
    "plain": ([("a", "int"), ("b", "int")], []),
    "lane": ([("tag", "int")], [("lane", "int", False)]),
    "kind": ([("kind", "enum:Kind3"), ("x", "int")], [("unit", "enum:UnitS", False)]),
    "flag": ([("flag", "bool"), ("v", "int")], [("on", "bool", False), ("note", "str", True)]),
    "sgn": ([("s", "int"), ("sk", "enum:SKind"), ("ok", "bool")], []),
    "none": ([], [("idx", "int", False), ("name", "str", False)]),
    "wide": ([(f"f{i}", "int") for i in range(6)], []),
    "stat": ([("v", "int"), ("w5", "enum:Wide5")], [("k", "enum:Kind3", False), ("neg", "int", False)]),
}
HANDLED = {"plain": "on_plain", "kind": "on_kind", "wide": "on_wide", "sgn": "on_sgn"}  # others: on_unhandled

_DEFS = None


def defs():
    """Event classes are registered globally by name: define them once per process, fixed names."""
    global _DEFS
    if _DEFS is not None:
        return _DEFS
    from transactron.evlog import Event, EventConsumer, Static, event, handles

    @event("verif.c33.plain")
    class EvPlain(Event):
        a: int
        b: int

    @event("verif.c33.lane")
    class EvLane(Event):
        tag: int
        lane: Static[int]

    @event("verif.c33.kind")
    class EvKind(Event):
        kind: Kind3
        x: int
        unit: Static[UnitS]

    @event("verif.c33.flag")
    class EvFlag(Event):
        flag: bool
        v: int
        on: Static[bool]
        note: Static[str] = "n/a"

    @event("verif.c33.sgn")
    class EvSgn(Event):
        s: int
        sk: SKind
        ok: bool

    @event("verif.c33.none")
    class EvNone(Event):
        idx: Static[int]
        name: Static[str]

    @event("verif.c33.wide")
    class EvWide(Event):
        f0: int
        f1: int
        f2: int
        f3: int
        f4: int
        f5: int

    @event("verif.c33.stat")
    class EvStat(Event):
        v: int
        w5: Wide5
        k: Static[Kind3]
        neg: Static[int]

    class Collector(EventConsumer):
        def __init__(self):
            self.seq = []

        @handles(EvPlain)
        def on_plain(self, rec):
            self.seq.append(("on_plain", rec))

        @handles(EvKind)
        def on_kind(self, rec):
            self.seq.append(("on_kind", rec))

        @handles(EvWide)
        def on_wide(self, rec):
            self.seq.append(("on_wide", rec))

        def on_unhandled(self, rec):
            self.seq.append(("on_unhandled", rec))

    class Derived(Collector):
        @handles(EvSgn)
        def on_sgn(self, rec):
            self.seq.append(("on_sgn", rec))

    _DEFS = {
        "cls": {"plain": EvPlain, "lane": EvLane, "kind": EvKind, "flag": EvFlag, "sgn": EvSgn, "none": EvNone,
                "wide": EvWide, "stat": EvStat},
        "consumer": Derived,
    }
    return _DEFS


_WORK_SEQ = [0]


def is_top(site):
    return site.get("api") == "top"


class Scen(CompScenario):
    # ---- design ---------------------------------------------------------------------------------
    def build(self):
        from amaranth import Signal, signed, unsigned
        from transactron.evlog import EventSource, EvLogEnabledKey
        from transactron.utils.dependencies import DependencyContext

        c = self.cfg
        self.d = defs()
        self.dm = DependencyContext.get()
        self.dm.add_dependency(EvLogEnabledKey(), True)
        self.sites = c["sites"]
        self.order: list = []  # site ids in emission (= registration) order
        self.field_values: dict = {}  # site id -> [Value passed to emit, in field order]
        self.sources = [EventSource(n) for n in c["sources"]]

        self.site_sig: dict = {}
        for k, s in enumerate(self.sites):
            if s["when"] != "always":
                sig = Signal(s["whenw"], name=f"s{k}_trig")
                self.site_sig[f"s{k}.trig"] = sig
                self.add_input(f"s{k}.trig", sig)
            for f in s["fields"]:
                src = f["src"]
                if src["kind"] in ("sig", "add", "slice"):
                    sig = Signal(signed(src["w"]) if src["signed"] else unsigned(src["w"]), name=f"s{k}_{f['name']}")
                elif src["kind"] == "enum":
                    sig = Signal(ENUMS[src["enum"]], name=f"s{k}_{f['name']}")
                else:
                    continue
                self.site_sig[f"s{k}.{f['name']}"] = sig
                self.add_input(f"s{k}.{f['name']}", sig)

        self.ev = CtxEval(c["prog"])
        self.design = CtxDesign(c["prog"], self._emit)
        for name, sig in self.design.sig.items():
            self.add_input(name, sig)
        for i, mod in enumerate(self.design.mods):
            self.top.add(f"mod{i}", mod)
        for j, meth in enumerate(self.design.meths):
            self.add_obs(f"m{j}.run", meth.run)

        self.pending: list = []  # expected raw records of the previous cycle
        self.expected_raw: list = []
        self.seen = 0
        self.samples: list = []  # per cycle: (trigger bits, field values) as read from the site signals
        return self.top

    def _emit(self, m, k, env):
        from amaranth import Const

        s = self.sites[k]
        cls = self.d["cls"][s["cls"]]
        kw = {}
        vals = []
        for f in s["fields"]:
            src = f["src"]
            sig = self.site_sig.get(f"s{k}.{f['name']}")
            kind = src["kind"]
            if kind in ("sig", "enum"):
                v = sig
            elif kind == "add":
                v = sig + src["k"]
            elif kind == "slice":
                v = sig[src["lo"]:src["hi"]]
            elif kind == "const":
                v = src["k"] if src.get("py") else Const(src["k"])
            elif kind == "arg":
                v = env["arg"].x
            elif kind == "sarg":
                v = env["arg"].x.as_signed()
            else:
                raise ValueError(kind)
            kw[f["name"]] = v
            vals.append(v)
        for name, val in s["statics"].items():
            tag = next(t for n, t, _ in CLASSES[s["cls"]][1] if n == name)
            kw[name] = ENUMS[tag[5:]][val] if tag.startswith("enum:") else val
        self.order.append(k)
        self.field_values[k] = vals
        ev = cls.hw(**kw)
        opts = {}
        if not s.get("defloc"):  # otherwise the default src_loc (the location of this call; not judged)
            opts["src_loc"] = (f"c33_site_{k}.py", 100 + k)
        if s["when"] != "always":  # otherwise the default when=1
            opts["when"] = self.site_sig[f"s{k}.trig"]
        src_obj = self.sources[s["source"]]
        if is_top(s):  # no module: not gated by the context; a multi-bit `when` is passed as it is
            src_obj.top_emit(ev, **opts)
        else:
            src_obj.emit(m, ev, **opts)

    def post_elab(self, tm):
        from amaranth import Value
        from transactron.evlog import EvLogSchema, EventFieldSchema, get_emitted_events
        from transactron.testing.evlog import capture_evlog
        from transactron.testing.tick_count import make_tick_count_process
        from transactron.utils.dependencies import DependencyContext

        super().post_elab(tm)
        # the library's processes look the dependency manager up while the simulation runs; the kernel
        # has left its `with DependencyContext(dm)` by then (install_seams() empties the stack afterwards)
        DependencyContext.stack.append(self.dm)
        for i, tr in sorted(self.design.trans.items()):
            self.add_obs(f"t{i}.run", tr.run)
        tick = make_tick_count_process()
        meta = self.cfg.get("meta", "dict")
        if meta == "dict":
            self.metadata = {"verif": "C33", "nsites": len(self.sites), "nested": {"a": [1, 2, {"b": None}]}}
            self.log, proc = capture_evlog(dict(self.metadata))
        else:  # documented as optional: the schema then carries no metadata
            self.metadata = {}
            try:
                self.log, proc = capture_evlog() if meta == "none" else capture_evlog({})
            except Exception as e:
                self.expect(False, "capture-failed", f"capture_evlog({'' if meta == 'none' else '{}'}) raised "
                            f"{type(e).__name__}: {e}", meta=meta)
            self.hit("capture_without_metadata")
        if not self.sites:
            self.hit("design_without_emission_sites")
        self.extra_processes = [("process", proc), ("process", tick)]

        # -- the schema is the decoding contract: one site per emit call, in registration order
        records = get_emitted_events()
        self.expect(len(records) == len(self.sites) == len(self.order), "schema-mismatch",
                    f"{len(records)} registered sites for {len(self.order)} emit calls")
        schema = self.log.schema
        self.expect(isinstance(schema, EvLogSchema) and schema.metadata == self.metadata, "schema-mismatch",
                    f"metadata {schema.metadata!r}")
        for idx, k in enumerate(self.order):
            s = self.sites[k]
            site = schema.sites[idx]
            want_fields = []
            for f, v in zip(s["fields"], self.field_values[k]):
                shp = Value.cast(v).shape()
                want_fields.append(EventFieldSchema(name=f["name"], width=shp.width, signed=bool(shp.signed)))
            statics = {}
            for name, tag, has_default in CLASSES[s["cls"]][1]:
                if name in s["statics"]:
                    val = s["statics"][name]
                    statics[name] = ENUMS[tag[5:]][val].value if tag.startswith("enum:") else val
                else:
                    statics[name] = "n/a"  # the only static with a default
            ok = (site.source_name == self.cfg["sources"][s["source"]]
                  and site.event_name == f"verif.c33.{s['cls']}"
                  and (s.get("defloc") or tuple(site.location) == (f"c33_site_{k}.py", 100 + k))
                  and site.fields == want_fields and site.statics == statics)
            self.expect(ok, "schema-mismatch", f"site {idx} (cfg site {k}): {site!r}, wanted fields {want_fields!r} "
                        f"statics {statics!r}", site=k)
            self.add_obs(f"site{idx}.trig", records[idx].trigger)
            for n, v in enumerate(records[idx].fields.values()):
                self.add_obs(f"site{idx}.f{n}", v)

    # ---- stimulus ------------------------------------------------------------------------------
    def stimulus(self, rng, cyc):
        kind, p = phase_at(self.cfg["plan"], cyc)
        ctx_kind = {"random": "random", "on": "on", "off": "off", "quiet": "on", "flap": "flap"}[kind]
        stim = gen_ctx_stim(rng, self.cfg["prog"], ctx_kind, p)
        ptrig = {"random": p, "on": 0.9, "off": 0.9, "quiet": 0.06, "flap": 0.5}[kind]
        for k, s in enumerate(self.sites):
            if s["when"] != "always":
                if rng.random() < ptrig:
                    stim[f"s{k}.trig"] = rng.randrange(1, 1 << s["whenw"])
                else:
                    stim[f"s{k}.trig"] = 0
            for f in s["fields"]:
                src = f["src"]
                name = f"s{k}.{f['name']}"
                if src["kind"] == "enum":
                    member = rng.choice(list(ENUMS[src["enum"]]))
                    stim[name] = member.value & ((1 << self.widths[name]) - 1)
                elif name in self.widths:
                    stim[name] = self.rnd(rng, name) if rng.random() < 0.8 else (1 << (self.widths[name] - 1))
        return stim

    # ---- oracle --------------------------------------------------------------------------------
    def _field_value(self, k, f, stim, obs, meth):
        src = f["src"]
        kind = src["kind"]
        name = f"s{k}.{f['name']}"
        if kind in ("sig", "add", "slice"):
            raw = stim.get(name, 0) & ((1 << src["w"]) - 1)
            v = to_signed(raw, src["w"]) if src["signed"] else raw
            if kind == "add":
                return v + src["k"]
            if kind == "slice":
                return (raw >> src["lo"]) & ((1 << (src["hi"] - src["lo"])) - 1)
            return v
        if kind == "enum":
            cls = ENUMS[src["enum"]]
            w = self.widths[name]
            raw = stim.get(name, 0) & ((1 << w) - 1)
            v = to_signed(raw, w) if any(m.value < 0 for m in cls) else raw
            self.premise(any(m.value == v for m in cls), f"{name}={v} is not a member of {cls.__name__}")
            return v
        if kind == "const":
            return int(src["k"])
        if kind in ("arg", "sarg"):
            a = running_arg(self.cfg["prog"], meth, stim, obs)
            if a is None:
                raise Inconclusive(f"method m{meth} runs without exactly one running caller")
            w = self.cfg["prog"]["meths"][meth]["argw"]
            return to_signed(a, w) if kind == "sarg" else a
        raise ValueError(kind)

    def _compare_captured(self, upto_cycle):
        """Everything the library's capture process reported since the last look must be exactly
        the expected records of cycle `upto_cycle`."""
        new = [tuple([r[0], r[1], list(r[2])]) for r in self.log.raw[self.seen:]]
        self.seen = len(self.log.raw)
        got = sorted(new, key=lambda r: (r[0], r[1]))
        want = sorted(self.pending, key=lambda r: (r[0], r[1]))
        self.expect(got == want, "capture-mismatch",
                    f"cycle {upto_cycle}: captured {got!r}, trigger∧context gives {want!r}")
        self.pending = []

    def check(self, cyc, stim, obs):
        if cyc > 0:
            self._compare_captured(cyc - 1)
        ctx = self.ev.step(stim, obs)
        trig_bits = []
        field_obs = []
        fired = []
        ctxsig = []
        for idx, k in enumerate(self.order):
            s = self.sites[k]
            c = ctx[k]
            active = c["body"] and c["cond"]
            top = is_top(s)  # documented: top_emit "ignores m.If etc."
            trig = True if s["when"] == "always" else bool(stim.get(f"s{k}.trig", 0) & ((1 << s["whenw"]) - 1))
            fire = trig and (active or top)
            got_t = obs[f"site{idx}.trig"]
            self.expect(got_t == int(fire), "trigger-mismatch",
                        f"site {idx}{' (top_emit: not gated by its context)' if top else ''}: trigger signal {got_t}, "
                        f"but when={int(trig)} body-runs={int(c['body'])} branches-selected={int(c['cond'])}", site=k,
                        where=self.cfg["where"][str(k)][0], api="top_emit" if top else "emit")
            got_f = [obs[f"site{idx}.f{n}"] for n in range(len(s["fields"]))]
            if fire:
                vals = [self._field_value(k, f, stim, obs, c["meth"]) for f in s["fields"]]
                self.expect(got_f == vals, "field-mismatch", f"site {idx}: field signals {got_f}, inputs give {vals}",
                            site=k)
                self.pending.append((cyc, idx, vals))
                self.expected_raw.append((cyc, idx, vals))
                fired.append(idx)
                if top:
                    self.hit("top_emit_fired")
                    if not active:
                        self.hit("top_emit_fires_outside_context")
                    if s["when"] == "wide":
                        self.hit("top_emit_multibit_when")
                    elif s["when"] == "always":
                        self.hit("top_emit_default_when")
                if s.get("defloc"):
                    self.hit("default_src_loc")
                if active and c["fsm"]:
                    self.hit("fired_in_fsm_state")
                if active and c["av"]:
                    self.hit("fired_under_avoided_if")
                for f, v in zip(s["fields"], vals):
                    if v < 0:
                        self.hit("signed_negative_value")
                        if v < -(1 << 31):
                            self.hit("negative_value_wider_than_32_bits")
                    if v.bit_length() > 32:
                        self.hit("value_wider_than_32_bits")
                    if f["type"] == "bool" and v > 1:
                        self.hit("bool_field_from_wide_value")
                    if f["src"]["kind"] in ("arg", "sarg"):
                        self.hit("method_argument_field")
                if not active:
                    pass
                elif c["meth"] is not None:
                    self.hit("fired_in_method_body")
                elif self.cfg["where"][str(k)][0] == "trans":
                    self.hit("fired_in_transaction_body")
                if s["when"] == "always" and not top:
                    self.hit("fired_by_context_alone")
            elif trig:
                self.hit("context_blocks_trigger")
                if not c["body"]:
                    self.hit("body_not_running_blocks")
                else:
                    self.hit("branch_not_selected_blocks")
                if c["fsm"] is False:
                    self.hit("fsm_state_blocks")
                if c["av"] is False:
                    self.hit("avoided_if_blocks")
            trig_bits.append(got_t)
            field_obs.append(got_f)
            ctxsig.append((int(c["body"]), int(c["cond"]), int(trig)))
        self.samples.append((trig_bits, field_obs))
        if len(fired) >= 2:
            self.hit("several_sites_same_cycle")
        if not fired:
            self.hit("cycle_without_record")
        for i in range(self.cfg["prog"]["ntrans"]):
            if stim.get(f"t{i}.req") and not obs[f"t{i}.run"]:
                self.hit("requested_transaction_not_run")
        self.visit((tuple(ctxsig), tuple(fired)), nontrivial=len(fired) >= 2 or any(t and not (b and c) for b, c, t in ctxsig))

    def finish(self):
        self._compare_captured(len(self.samples) - 1)

    # ---- after the simulation: every way of storing / replaying the log gives the same events ------
    def _key(self, schema, d):
        idx = [i for i, s in enumerate(schema.sites) if s == d.site]
        self.expect(len(idx) == 1, "decode-mismatch", f"decoded record does not name one site of its schema: {d!r}")
        return (d.cycle, idx[0])

    def _same_events(self, kind, what, schema, got, ref):
        """got: decoded events of some path; ref: {(cycle, site): event} the oracle computed."""
        seen = {}
        for d in got:
            key = self._key(schema, d)
            self.expect(key not in seen, kind, f"{what}: record {key} appears twice")
            seen[key] = d.event
        self.expect(seen == ref, kind, f"{what}: decoded events differ from the oracle's: "
                    f"{self._diff(seen, ref)}")

    @staticmethod
    def _diff(a, b):
        for k in sorted(set(a) | set(b)):
            if a.get(k) != b.get(k):
                return f"at (cycle, site) {k}: got {a.get(k)!r}, want {b.get(k)!r}"
        return "?"

    def after_sim(self):
        from transactron.evlog import (EventLog, EventLogReader, EventLogWriter, EventSiteLocation, GeneratedEvLog,
                                       GeneratedEvLogSampler)

        log = self.log
        schema = log.schema
        # (1) the oracle's event list
        ref = {}
        for cyc, idx, vals in self.expected_raw:
            s = self.sites[self.order[idx]]
            kw = {}
            for f, v in zip(s["fields"], vals):
                if f["type"] == "bool":
                    kw[f["name"]] = bool(v)
                elif f["type"].startswith("enum:"):
                    kw[f["name"]] = ENUMS[f["type"][5:]](v)
                else:
                    kw[f["name"]] = v
            for name, tag, has_default in CLASSES[s["cls"]][1]:
                if name in s["statics"]:
                    val = s["statics"][name]
                    kw[name] = ENUMS[tag[5:]][val] if tag.startswith("enum:") else val
            ref[(cyc, idx)] = self.d["cls"][s["cls"]](**kw)
        decoded = log.decoded()
        self._same_events("decode-mismatch", "EventLog.decoded()", schema, decoded, ref)
        for d in decoded:
            for name, tag in [(f["name"], f["type"]) for f in self.sites[self.order[self._key(schema, d)[1]]]["fields"]]:
                v = getattr(d.event, name)
                ok = (type(v) is bool) if tag == "bool" else isinstance(v, ENUMS[tag[5:]]) if tag.startswith("enum:") \
                    else (type(v) is int)
                self.expect(ok, "decode-mismatch", f"field {name} decoded as {type(v).__name__}, declared {tag}")
        if decoded:
            self.hit("nonempty_log")

        _WORK_SEQ[0] += 1
        work = os.path.join(VERIF_DIR, ".work", f"C33-{os.getpid()}-{h64(repr(self.cfg)):016x}-{_WORK_SEQ[0]}")
        os.makedirs(work, exist_ok=True)
        try:
            # (2) save -> load
            p1 = os.path.join(work, "saved.jsonl")
            log.save(p1)
            loaded = EventLog.load(p1)
            self.expect(loaded.schema == schema, "saveload-mismatch", "schema changed by save -> load")
            self.expect([(c, s, list(v)) for c, s, v in loaded.raw] == [(c, s, list(v)) for c, s, v in log.raw],
                        "saveload-mismatch", "raw records changed by save -> load")
            self._same_events("saveload-mismatch", "save -> load", loaded.schema, loaded.decoded(), ref)
            reader = EventLogReader(p1)
            self.expect(reader.schema == schema, "stream-mismatch", "EventLogReader schema differs")
            self._same_events("stream-mismatch", "save -> EventLogReader", reader.schema, list(reader), ref)
            # several iterations over the one reader object, advanced in a seeded interleaving: every one of them
            # streams the whole log (readers that are consumed by two loops, zip(reader, reader), nested scans)
            irng = random.Random(self.cfg["perm"] ^ 0x5EED)
            its = [iter(reader) for _ in range(irng.choice([2, 2, 3]))]
            outs = [[] for _ in its]
            live = list(range(len(its)))
            switches, last = 0, None
            while live:
                k = irng.choice(live)
                for _ in range(irng.choice([1, 1, 2, 5])):
                    try:
                        outs[k].append(next(its[k]))
                    except StopIteration:
                        live.remove(k)
                        break
                switches += int(last is not None and last != k)
                last = k
            for k, got in enumerate(outs):
                self._same_events("stream-mismatch", f"iteration {k} of {len(its)} interleaved iterations over one EventLogReader",
                                  reader.schema, got, ref)
            if switches > 1 and len(ref) > 2:
                self.hit("reader_iterations_interleaved")

            # (3) sampler over the recorded site signals: packed trigger vector -> in-memory log,
            #     per-site triggers -> EventLogWriter -> EventLogReader
            nsite = len(self.order)
            locs = [EventSiteLocation(trigger=["top", f"t{i}"],
                                      fields=[["top", f"s{i}f{n}"] for n in range(len(self.sites[self.order[i]]["fields"]))])
                    for i in range(nsite)]
            cur: dict = {}
            resolved = []

            def resolve(handle):
                key = ".".join(handle)
                resolved.append(key)
                return lambda: cur[key]

            def load_cycle(trig_bits, field_obs):
                cur.clear()
                cur["top.triggers"] = sum(b << i for i, b in enumerate(trig_bits))
                for i, b in enumerate(trig_bits):
                    cur[f"top.t{i}"] = b
                    for n, v in enumerate(field_obs[i]):
                        cur[f"top.s{i}f{n}"] = v

            gen_packed = GeneratedEvLog(schema=schema, site_locations=locs, triggers_location=["top", "triggers"])
            sampler = GeneratedEvLogSampler(gen_packed, resolve)
            sink = EventLog(schema)
            for cyc, (tb, fo) in enumerate(self.samples):
                load_cycle(tb, fo)
                sampler.sample(cyc, sink)
            self._same_events("sampler-mismatch", "GeneratedEvLogSampler (packed triggers)", schema, sink.decoded(), ref)
            self.hit("sampler_packed")

            gen_sites = GeneratedEvLog(schema=schema, site_locations=locs, triggers_location=None)
            sampler2 = GeneratedEvLogSampler(gen_sites, resolve)
            p2 = os.path.join(work, "stream.jsonl")
            with EventLogWriter(p2, schema) as wr:
                for cyc, (tb, fo) in enumerate(self.samples):
                    load_cycle(tb, fo)
                    cur["top.triggers"] = 0  # must not be consulted in this mode
                    sampler2.sample(cyc, wr)
            reader2 = EventLogReader(p2)
            self.expect(reader2.schema == schema, "stream-mismatch", "EventLogWriter -> EventLogReader schema differs")
            streamed = list(reader2)
            self._same_events("sampler-mismatch", "GeneratedEvLogSampler (per-site triggers) -> EventLogWriter -> "
                              "EventLogReader", reader2.schema, streamed, ref)
            self.hit("sampler_per_site")

            # (4) EventConsumer.run: any input order, dispatched in non-decreasing cycle order
            shuffled = list(decoded)
            random.Random(self.cfg["perm"]).shuffle(shuffled)
            if any(a.cycle > b.cycle for a, b in zip(shuffled, shuffled[1:])):
                self.hit("consumer_input_out_of_order")
            for what, records, sch in (("shuffled list", shuffled, schema), ("EventLogReader", EventLogReader(p2), reader2.schema)):
                cons = self.d["consumer"]()
                cons.run(records)
                cycles = [rec.cycle for _, rec in cons.seq]
                self.expect(all(a <= b for a, b in zip(cycles, cycles[1:])), "consumer-order",
                            f"EventConsumer.run({what}) dispatched cycles {cycles}")
                self._same_events("consumer-dispatch", f"EventConsumer.run({what})", sch, [rec for _, rec in cons.seq], ref)
                for handler, rec in cons.seq:
                    cls_key = self.sites[self.order[self._key(sch, rec)[1]]]["cls"]
                    self.expect(handler == HANDLED.get(cls_key, "on_unhandled"), "consumer-dispatch",
                                f"{cls_key} event went to {handler}")
        finally:
            shutil.rmtree(work, ignore_errors=True)
        self.notes["records"] = len(self.expected_raw)


# ---------------------------------------------------------------------------------------------------


def _gen_src(rng, ftype, in_meth_argw):
    if ftype.startswith("enum:"):
        return {"kind": "enum", "enum": ftype[5:]}
    if ftype == "bool":
        r = rng.random()
        if r < 0.6:
            return {"kind": "sig", "w": 1, "signed": 0}
        if r < 0.9:
            return {"kind": "sig", "w": rng.randint(2, 4), "signed": int(rng.random() < 0.3)}
        return {"kind": "const", "k": rng.choice([0, 1]), "py": 1}
    r = rng.random()
    if in_meth_argw and r < 0.3:
        return {"kind": rng.choice(["arg", "sarg"])}
    if r < 0.7:
        w = rng.randint(1, 9)
        if rng.random() < 0.25:  # wider than a small counter: up to 64 bits
            w = rng.choice([rng.randint(10, 31), 32, 33, rng.randint(34, 63), 64, 64])
        return {"kind": "sig", "w": w, "signed": int(rng.random() < 0.45)}
    if r < 0.8:
        return {"kind": "add", "w": rng.randint(1, 8), "signed": int(rng.random() < 0.5), "k": rng.choice([-5, -1, 1, 3, 200])}
    if r < 0.9:
        w = rng.randint(3, 9)
        lo = rng.randrange(0, w - 1)
        return {"kind": "slice", "w": w, "signed": int(rng.random() < 0.3), "lo": lo, "hi": rng.randint(lo + 1, w)}
    return {"kind": "const", "k": rng.choice([0, 1, 5, 255, -1, -7]), "py": int(rng.random() < 0.5)}


def _gen_static(rng, tag):
    if tag == "int":
        return rng.choice([0, 1, 2, 3, -1, 2 ** 40 + 3, rng.randrange(100)])
    if tag == "bool":
        return bool(rng.getrandbits(1))
    if tag == "str":
        return rng.choice(["", "lane0", "ünï", 'a "quoted" \\ name', "two\nlines", "x" * 40])
    return rng.choice([m.name for m in ENUMS[tag[5:]]])


class Prop(PropBase):
    ID = "C33"
    tiers = {
        "quick": {"runs": 1200, "selftest_runs": 4},
        "thorough": {"runs": 30000, "selftest_runs": 32},
    }
    rule = ("one run = one generated design (1-2 TModules, 0-3 transactions, 0-2 methods with ready inputs and "
            "arguments, 2-5 (3%: no) emission sites -- EventSource.emit or, 22%, top_emit with a 1-4 bit or default "
            "`when` -- under nested If/Elif/Else/Switch/AvoidedIf/FSM-State inside or outside bodies; event classes with "
            "int/bool/enum dynamic and int/str/bool/enum static fields; field signals of width 1-64, signed, sliced, "
            "summed, constant or a method argument; capture with or without metadata) driven for 30-140 cycles by a "
            "phase plan; distinct = distinct "
            "(design, per-site (body runs, branches selected, trigger) vector, fired set); non-trivial = two or more "
            "sites fire or a raised trigger is blocked by its context")
    expected_cov = ["context_blocks_trigger", "body_not_running_blocks", "branch_not_selected_blocks",
                    "several_sites_same_cycle", "cycle_without_record", "signed_negative_value",
                    "bool_field_from_wide_value", "method_argument_field", "fired_in_method_body",
                    "fired_in_transaction_body", "fired_by_context_alone", "requested_transaction_not_run",
                    "nonempty_log", "sampler_packed", "reader_iterations_interleaved", "sampler_per_site", "consumer_input_out_of_order",
                    "top_emit_fired", "top_emit_fires_outside_context", "top_emit_multibit_when", "top_emit_default_when",
                    "fired_in_fsm_state", "fsm_state_blocks", "fired_under_avoided_if", "avoided_if_blocks",
                    "value_wider_than_32_bits", "negative_value_wider_than_32_bits", "design_without_emission_sites",
                    "capture_without_metadata", "default_src_loc"]
    real = ["transactron.evlog.emit.EventSource (emit, top_emit)", "transactron.evlog.event (@event, Event.from_raw)",
            "transactron.evlog.schema.schema_from_records / GeneratedEvLog", "transactron.testing.evlog.capture_evlog",
            "transactron.testing.tick_count.make_tick_count_process", "transactron.evlog.log.EventLog / EventLogWriter / "
            "EventLogReader / EventDecoder", "transactron.evlog.sampler.GeneratedEvLogSampler",
            "transactron.evlog.consumer.EventConsumer", "TModule / Transaction / Method / def_method",
            "TransactionManager + scheduler", "amaranth pysim", "the file system under /verif/.work"]
    stubs = ["cycle driver (stimulus)", "host design that carries the emission sites",
             "signal resolver of the sampler (replays the site signals recorded by the driver)"]
    search_space = "emission-site sets, module contexts and trigger / field / request histories"
    assumptions = ["emission sites are matched to the registered event records by registration order; the raw record format is taken "
                   "as the library's capture process produces it",
                   "enum-typed fields carry member values only (a non-member cannot be decoded and is outside the statement)",
                   "the cycle of a record is the library's tick counter (TicksKey), which counts clock edges from 0",
                   "no I/O faults are injected: the property states none",
                   "top_emit: 'surrounding context' is read with the library's documentation of that function ('ignores "
                   "m.If etc.'): the record is expected whenever `when` holds",
                   "blank lines in a log file are not part of the documented format (header line + one line per event): "
                   "not generated"]

    def gen_config(self, rng, tier, idx):
        big = tier == "thorough"
        nsites = 0 if rng.random() < 0.03 else rng.randint(2, 5)  # 0: a design that emits nothing
        prog, where = gen_prog(rng, nsites, ext=rng.random() < 0.5)
        sources = ["verif.c33", "verif.c33.sub"]
        sites = []
        for k in range(nsites):
            cls = rng.choice(list(CLASSES))
            w = where[str(k)]
            top = rng.random() < 0.22  # EventSource.top_emit: no module, not gated (and no method argument at hand)
            argw = prog["meths"][w[1]]["argw"] if w[0] == "meth" and not top else 0
            fields = [{"name": n, "type": t, "src": _gen_src(rng, t, argw)} for n, t in CLASSES[cls][0]]
            statics = {}
            for n, t, has_default in CLASSES[cls][1]:
                if has_default and rng.random() < 0.5:
                    continue
                statics[n] = _gen_static(rng, t)
            when = rng.choice(["bit", "bit", "wide", "wide", "always"] if top else ["bit", "bit", "bit", "wide", "always"])
            site = {"cls": cls, "source": rng.randrange(2), "when": when,
                    "whenw": 1 if when == "bit" else rng.randint(2, 4), "fields": fields, "statics": statics}
            if top:
                site["api"] = "top"
            if rng.random() < 0.2:
                site["defloc"] = 1  # src_loc left at its default
            sites.append(site)
        cycles = rng.randint(30, 140 if big else 90) if nsites else rng.randint(4, 24)
        return {"prog": prog, "where": where, "sites": sites, "sources": sources, "cycles": cycles,
                "meta": rng.choice(["dict", "dict", "dict", "dict", "none", "none", "empty"]),
                "perm": rng.getrandbits(32), "sched": rng.choice(["eager", "eager", "rr"]),
                "plan": make_plan(rng, cycles, ["random", "random", "on", "off", "quiet", "flap"], min_len=5, max_len=30)}

    def make(self, cfg):
        return Scen(cfg)

    def features(self, cfg, viol):
        info = viol.get("info") or {}
        return {"where": info.get("where"), "api": info.get("api")}

    def cfg_signature(self, cfg):
        return [cfg["prog"], cfg["sites"], cfg["sched"], cfg.get("meta", "dict")]


PROP = Prop()
