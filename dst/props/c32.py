"""C32 — latency measurers record true latencies.

One run = one measurer (FIFOLatencyMeasurer / WideFIFOLatencyMeasurer / TaggedLatencyMeasurer) in one
configuration.  Every `start[k]` / `stop[k]` method is called through a real AdapterTrans whose request
bit and argument the cycle driver owns.  The model remembers the cycle in which every event started
(a queue per way, or a slot table); when a stop executes, the finished events' latencies (stop cycle −
start cycle) are added to a reference histogram, which is compared with the measurer's histogram
registers every cycle.

Premise kept by the generator and re-checked on the applied stimulus: latencies stay within
`max_latency` (events are stopped at their deadline at the latest), a stop never asks for more events
than are in flight, slot tags are started only when free and stopped only when taken."""

from __future__ import annotations

from collections import deque

from ..comp import CompScenario
from ..propbase import PropBase, make_plan, phase_at
from ..models.metrics_model import HistModel, compare_hist, hist_obs_names, bucket_of


def must_stop(q, now, C, L):
    """Smallest number of oldest events that have to be stopped in cycle `now` so that every remaining
    event can still be stopped (at most C per cycle, in order) no later than `max_latency` after its start."""
    n = len(q)
    for c in range(0, min(C, n) + 1):
        if all((now + 1) + (j - c) // C <= q[j] + L for j in range(c, n)):
            return c
    return min(C, n)


class Scen(CompScenario):
    def build(self):
        from transactron.lib.metrics import (FIFOLatencyMeasurer, WideFIFOLatencyMeasurer, TaggedLatencyMeasurer,
                                             HwMetricsEnabledKey)
        from transactron.utils.dependencies import DependencyContext

        DependencyContext.get().add_dependency(HwMetricsEnabledKey(), True)
        c = self.cfg
        self.cls = c["cls"]
        self.ways = c["ways"]
        self.L = c["max_latency"]
        self.A = self.C = 1
        if self.cls == "fifo":
            self.dut = FIFOLatencyMeasurer("dut.lat", "measurer under test", slots_number=c["slots"],
                                           max_latency=self.L, ways=self.ways)
        elif self.cls == "wide":
            self.A = c["max_start"]
            self.C = c["max_stop"] if c["max_stop"] is not None else c["max_start"]
            kw = {} if c["max_stop"] is None else {"max_stop_count": c["max_stop"]}
            self.dut = WideFIFOLatencyMeasurer("dut.lat", "measurer under test", slots_number=c["slots"],
                                               max_latency=self.L, max_start_count=self.A, ways=self.ways, **kw)
        else:
            self.dut = TaggedLatencyMeasurer("dut.lat", "measurer under test", slots_number=c["slots"],
                                             max_latency=self.L, ways=self.ways)
        self.top.add("dut", self.dut)
        for k in range(self.ways):
            self.caller(f"start{k}", self.dut.start[k])
            self.caller(f"stop{k}", self.dut.stop[k])
        h = self.dut.histogram
        for n, s in hist_obs_names(h).items():
            self.add_obs(f"h.{n}", s)
        # the layout of the histogram (how many buckets) is the measurer's choice; what the buckets mean
        # is the documented exponential scheme
        self.m_hist = HistModel(h.bucket_count, h.sample_width, 32)
        self.q = [deque() for _ in range(self.ways)]  # fifo / wide: start cycles per way
        self.slots = {}  # tagged: slot -> start cycle
        # capacity per way as the documentation gives it (wide: rounded up to a multiple of the larger count);
        # used only to aim the stimulus (fill, refuse), never by the oracle
        mc = max(self.A, self.C)
        self.cap = (c["slots"] + mc - 1) // mc * mc if self.cls == "wide" else c["slots"]
        self.arg = {"fifo": None, "wide": "count", "tagged": "slot"}[self.cls]
        return self.top

    # ---- stimulus -------------------------------------------------------------------------------
    def stimulus(self, rng, cyc):
        kind, p = phase_at(self.cfg["plan"], cyc)
        ps, pt = {"random": (p, 0.5), "hold": (0.7, 0.0), "fast": (0.6, 1.0), "burst": (1.0, 0.04),
                  "drain": (0.05, 1.0), "idle": (0.05, 0.05), "pingpong": (1.0, 1.0)}[kind]
        stim = {}
        L = self.L
        if self.cls == "tagged":
            nslots = self.cfg["slots"]
            forced = sorted(s for s, t0 in self.slots.items() if t0 + L <= cyc)
            optional = sorted(s for s in self.slots if s not in forced)
            rng.shuffle(optional)
            free = sorted(s for s in range(nslots) if s not in self.slots)
            rng.shuffle(free)
            order = list(range(self.ways))
            rng.shuffle(order)
            for k in order:
                slot = None
                if forced:
                    slot = forced.pop(0)
                elif optional and rng.random() < pt:
                    slot = optional.pop()
                if slot is not None:
                    stim[f"stop{k}.en"] = 1
                    stim[f"stop{k}.i.slot"] = slot
                if free and rng.random() < ps:
                    stim[f"start{k}.en"] = 1
                    stim[f"start{k}.i.slot"] = free.pop()
            return {n: v for n, v in stim.items() if n in self.inp}
        A, C = self.A, self.C
        for k in range(self.ways):
            q = self.q[k]
            lvl = len(q)
            need = must_stop(q, cyc, C, L)
            c = 0
            if lvl and rng.random() < pt:
                c = rng.randint(1, min(C, lvl))
            c = max(c, need)
            if c or (lvl == 0 and rng.random() < 0.15 * pt):  # also ask an empty measurer now and then
                stim[f"stop{k}.en"] = 1
                if self.cls == "wide":
                    stim[f"stop{k}.i.count"] = c if lvl else rng.randint(0, C)
            elif self.cls == "wide" and lvl and rng.random() < 0.05:
                stim[f"stop{k}.en"] = 1  # a call that registers zero events
                stim[f"stop{k}.i.count"] = 0
            # starts: never more than can still be stopped in time
            amax = min(A, C * L - (lvl - c))
            if amax >= 1 and rng.random() < ps:
                a = rng.randint(1, amax)
                room = self.cap - lvl  # free slots at the beginning of the cycle
                if a > room and rng.random() < 0.7:
                    a = room  # mostly fit exactly; otherwise ask for more than the free slots (must be refused)
                if a > 0 or (self.cls == "wide" and rng.random() < 0.3):
                    stim[f"start{k}.en"] = 1
                    if self.cls == "wide":
                        stim[f"start{k}.i.count"] = a
        return stim

    # ---- oracle ---------------------------------------------------------------------------------
    def check(self, cyc, stim, obs):
        L = self.L
        # 1. histogram registers == histogram of the true latencies of all events finished so far
        compare_hist(self, self.m_hist, obs, "h.")

        done = {}
        for k in range(self.ways):
            for p in (f"start{k}", f"stop{k}"):
                en = stim.get(f"{p}.en", 0)
                done[p] = obs[f"{p}.done"]
                self.expect(not done[p] or en, "ran-when-not-requested", f"{p}: en={en} done={done[p]}", port=p)

        samples = []
        if self.cls == "tagged":
            seen_start, seen_stop = set(), set()
            for k in range(self.ways):
                if stim.get(f"stop{k}.en", 0):
                    s = stim.get(f"stop{k}.i.slot", 0)
                    self.premise(s in self.slots and s not in seen_stop, f"stop of slot {s} which is not taken")
                    seen_stop.add(s)
                if stim.get(f"start{k}.en", 0):
                    s = stim.get(f"start{k}.i.slot", 0)
                    self.premise(0 <= s < self.cfg["slots"] and s not in self.slots and s not in seen_start,
                                 f"start of slot {s} which is taken")
                    seen_start.add(s)
            for k in range(self.ways):
                if stim.get(f"stop{k}.en", 0) and not done[f"stop{k}"]:
                    self.hit("blocked_though_ready")
                if stim.get(f"start{k}.en", 0) and not done[f"start{k}"]:
                    self.hit("blocked_though_ready")
            for k in range(self.ways):
                if done[f"stop{k}"]:
                    s = stim.get(f"stop{k}.i.slot", 0)
                    t0 = self.slots.pop(s)
                    samples.append((cyc - t0, self.epoch_wrap(t0, cyc)))
            for k in range(self.ways):
                if done[f"start{k}"]:
                    s = stim.get(f"start{k}.i.slot", 0)
                    self.slots[s] = cyc
            if len(self.slots) == self.cfg["slots"]:
                self.hit("all_slots_taken")
            levels = (len(self.slots),)
        else:
            for k in range(self.ways):
                q = self.q[k]
                lvl = len(q)
                sp, st = f"stop{k}", f"start{k}"
                cnt = stim.get(f"{sp}.i.count", 0) if self.cls == "wide" else 1
                if stim.get(f"{sp}.en", 0):
                    if lvl:
                        self.premise(cnt <= lvl, f"{sp} asks for {cnt} events, {lvl} in flight")
                        if not done[sp]:
                            self.hit("blocked_though_ready")
                    else:
                        self.hit("stop_requested_when_empty")
                if done[sp]:
                    if cnt > lvl:
                        # only possible with lvl == 0 (premise above).  The statement does not say that stop refuses
                        # without an event in flight: counted, no event finishes in the model -- a sample the
                        # measurer records for it shows through the histogram comparison
                        self.hit("stop_ran_without_event")
                        cnt = min(cnt, lvl)
                    elif lvl == 0:
                        self.hit("stop_ran_without_event")
                    if cnt == 0:
                        self.hit("zero_count_call")
                    if cnt >= 2:
                        self.hit("wide_stop_count_ge2")
                    for _ in range(cnt):
                        t0 = q.popleft()
                        samples.append((cyc - t0, self.epoch_wrap(t0, cyc)))
                if stim.get(f"{st}.en", 0):
                    a = stim.get(f"{st}.i.count", 0) if self.cls == "wide" else 1
                    if not done[st]:
                        self.hit("start_refused_no_slots" if lvl + max(a, 1) > self.cap else "blocked_though_ready")
                    else:
                        if a == 0:
                            self.hit("zero_count_call")
                        if a >= 2:
                            self.hit("wide_start_count_ge2")
                        if done[sp]:
                            self.hit("start_and_stop_same_cycle")
                        for _ in range(a):
                            q.append(cyc)
                        if len(q) >= self.cap:
                            self.hit("all_slots_taken")
            levels = tuple(len(q) for q in self.q)

        lat = [v for v, _ in samples]
        for v, wrapped in samples:
            # premise of the statement: "for latencies within max_latency"
            self.premise(v <= L, f"an event finished after {v} cycles, max_latency is {L}")
            if v == 1:
                self.hit("latency_1")
            if v == L:
                self.hit("latency_exactly_max")
            if wrapped:
                self.hit("epoch_counter_wrapped_during_event")
        if len(lat) >= 2:
            self.hit("multi_stop_same_cycle")
            if len(set(lat)) >= 2:
                self.hit("different_latencies_same_cycle")
        ev = self.m_hist.add_cycle(lat)
        for name in ev:
            self.hit("hist_" + name)
        bc = self.m_hist.bucket_count
        self.visit((self.cls, self.ways, levels, tuple(sorted(bucket_of(v, bc) for v in lat)),
                    tuple(sorted(p for p, d in done.items() if d))),
                   nontrivial=bool(lat) and (1 in lat or L in lat or len(lat) >= 2 or any(w for _, w in samples)))

    def epoch_wrap(self, t0, t1):
        w = self.m_hist.sample_width
        return (t0 >> w) != (t1 >> w)


LATENCIES = [1, 2, 3, 4, 5, 6, 7, 8, 9, 12, 15, 16, 17, 24, 31, 32, 33, 50, 63, 64, 100]


class Prop(PropBase):
    ID = "C32"
    tiers = {
        "quick": {"runs": 700, "selftest_runs": 4, "run_budget_s": 120},
        "thorough": {"runs": 16000, "selftest_runs": 32},
    }
    rule = ("one run = one measurer class (FIFO / WideFIFO / Tagged) in one configuration (ways 1-4, slots 1-8, "
            "max_latency 1-100 incl. powers of two and their neighbours, start/stop widths 1-4) driven for 80-260 cycles "
            "by a seeded phase plan (random / hold-until-deadline / fast / burst / drain / ping-pong / idle); distinct = "
            "distinct (class, ways, in-flight levels, buckets of the latencies finished in the cycle, executed call set); "
            "non-trivial = an event finished with latency 1 or exactly max_latency, two or more events finished in "
            "one cycle, or the epoch counter wrapped while the event was in flight")
    expected_cov = ["latency_1", "latency_exactly_max", "epoch_counter_wrapped_during_event", "multi_stop_same_cycle",
                    "different_latencies_same_cycle", "wide_stop_count_ge2", "wide_start_count_ge2", "zero_count_call",
                    "start_and_stop_same_cycle", "all_slots_taken", "start_refused_no_slots", "stop_requested_when_empty",
                    "hist_new_min", "hist_new_max", "hist_last_bucket", "hist_bucket_lower_bound", "hist_bucket_upper_bound",
                    "hist_same_bucket_multi", "hist_multi_minmax"]
    real = ["transactron.lib.metrics.FIFOLatencyMeasurer", "transactron.lib.metrics.WideFIFOLatencyMeasurer",
            "transactron.lib.metrics.TaggedLatencyMeasurer", "transactron.lib.metrics.HwExpHistogram",
            "transactron.lib.fifo.WideFifo", "transactron.lib.memory.AsyncMemoryBank", "transactron.lib.adapters.AdapterTrans",
            "TransactionManager + scheduler", "amaranth pysim"]
    stubs = ["cycle driver (stimulus with deadline-aware stops)", "queue / slot-table of start cycles + reference histogram"]
    assumptions = ["a start / stop executed in cycle t is visible in the histogram registers from cycle t+1; latency = stop "
                   "cycle - start cycle; bucket boundaries, min / max / sum / count as documented in the HwExpHistogram "
                   "class docstring"]
    search_space = "measurer configurations and start/stop histories within the slot counts and within max_latency"

    def gen_config(self, rng, tier, idx):
        big = tier == "thorough"
        r = rng.random()
        cls = "fifo" if r < 0.33 else "wide" if r < 0.68 else "tagged"
        cfg = {"cls": cls, "ways": rng.randint(1, 4 if cls == "tagged" else 3), "slots": rng.randint(1, 8),
               "max_latency": rng.choice(LATENCIES) if rng.random() < 0.85 else rng.randint(1, 130)}
        if cls == "wide":
            cfg["max_start"] = rng.randint(1, 4)
            cfg["max_stop"] = None if rng.random() < 0.4 else rng.randint(1, 4)
        cycles = rng.randint(80, 400 if big else 260)
        cfg["cycles"] = cycles
        cfg["sched"] = rng.choice(["eager", "eager", "rr"])
        cfg["plan"] = make_plan(rng, cycles, ["random", "random", "hold", "hold", "fast", "burst", "drain", "pingpong", "idle"])
        return cfg

    def make(self, cfg):
        return Scen(cfg)

    def features(self, cfg, viol):
        info = viol.get("info") or {}
        return {"kind": viol.get("kind"), "cls": cfg["cls"], "reg": info.get("reg"), "port": info.get("port"),
                "multi_way": cfg["ways"] > 1, "exc": info.get("exc")}

    def cfg_signature(self, cfg):
        return {k: v for k, v in cfg.items() if k not in ("plan", "cycles")}

    def shrink_cfg(self, cfg):
        if cfg["sched"] != "eager":
            c = dict(cfg)
            c["sched"] = "eager"
            yield c
        if cfg["ways"] > 1:
            c = dict(cfg)
            c["ways"] = cfg["ways"] - 1
            yield c
        if cfg["cls"] == "wide" and cfg["max_stop"] is not None and cfg["max_stop"] == cfg["max_start"]:
            c = dict(cfg)
            c["max_stop"] = None
            yield c


PROP = Prop()
