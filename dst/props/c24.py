"""C24 — ContentAddressableMemory behaves as a bounded key -> data dictionary."""

from __future__ import annotations

from ..comp import CompScenario, layout_from_spec, spec_leaves, to_leaf, spread, rand_leaf, rand_layout_spec, rand_shape_spec
from ..propbase import PropBase, make_plan, phase_at


class Scen(CompScenario):
    def build(self):
        from transactron.lib.storage import ContentAddressableMemory

        c = self.cfg
        self.n = c["entries"]
        # layouts: specs as in comp.layout_from_spec (the old [[name, width], ...] form included); keys are handled as
        # bit patterns over all address leaves (first leaf = least significant bits)
        self.aleafs = spec_leaves(c["addr_layout"])
        self.dleafs = spec_leaves(c["data_layout"])
        self.kbits = sum(w for _, w, _ in self.aleafs)
        self.mul = c.get("tagmul", 1)
        # the keys of this run: a small pool of (wide) random keys, so that the memory fills up although the key space is large
        self.pool = list(c.get("keys") or range(1 << min(self.kbits, 3)))
        obj = bool(c.get("layout_obj"))
        self.dut = ContentAddressableMemory(layout_from_spec(c["addr_layout"], obj), layout_from_spec(c["data_layout"], obj), self.n)
        self.top.add("dut", self.dut)
        for name in ("push", "write", "read", "remove"):
            self.caller(name, getattr(self.dut, name))
        self.ports = ["push", "write", "read", "remove"]
        self.d: dict = {}  # key -> tuple of data leaves
        self.tag = 0
        self.removed_ever: set = set()
        self.sweep = 0
        return self.top

    # ---- argument encoding ----------------------------------------------------------------
    def _put_key(self, stim, port, key):
        sh = 0
        for nm, w, sgn in self.aleafs:
            stim[f"{port}.i.addr.{nm}"] = to_leaf(key >> sh, w, sgn)
            sh += w

    def _get_key(self, stim, port):
        key, sh = 0, 0
        for nm, w, sgn in self.aleafs:
            v = stim.get(f"{port}.i.addr.{nm}", 0)
            self.premise(-(1 << (w - 1)) <= v < (1 << (w - 1)) if sgn else 0 <= v < (1 << w), "address field out of range")
            key |= (v & ((1 << w) - 1)) << sh
            sh += w
        return key

    def _put_data(self, rng, stim, port):
        self.tag += 1
        for k, (nm, w, sgn) in enumerate(self.dleafs):
            stim[f"{port}.i.data.{nm}"] = spread(self.tag, self.mul, w, sgn) if k == 0 else rand_leaf(rng, w, sgn)

    def _get_data(self, stim, port):
        return tuple(stim.get(f"{port}.i.data.{nm}", 0) for nm, _, _ in self.dleafs)

    # ---- stimulus -------------------------------------------------------------------------
    def _near(self, rng, key):
        """A key differing from `key` in one bit (any position: a comparator that ignores a bit takes it for `key`)."""
        return key ^ (1 << rng.randrange(self.kbits))

    def _key(self, rng, p_present):
        present = sorted(self.d)
        if present and rng.random() < p_present:
            return rng.choice(present)
        r = rng.random()
        if present and r < 0.3:
            return self._near(rng, rng.choice(present))
        if r < 0.4:
            return rng.getrandbits(self.kbits)
        absent = [k for k in self.pool if k not in self.d]
        if absent:
            return rng.choice(absent)
        return rng.choice(present) if present else rng.getrandbits(self.kbits)

    def stimulus(self, rng, cyc):
        kind, p = phase_at(self.cfg["plan"], cyc)
        pp, pw, pr, pm = {
            "random": (p, 0.5, 0.7, 1 - p if p not in (0.0, 1.0) else p),
            "fill": (1.0, 0.3, 0.7, 0.08),
            "drain": (0.1, 0.3, 0.7, 0.9),
            "churn": (1.0, 0.6, 1.0, 0.8),
            "samekey": (0.7, 0.9, 0.9, 0.9),
            "sweep": (0.15, 0.15, 1.0, 0.15),
            "idle": (0.05, 0.05, 0.2, 0.05),
        }[kind]
        stim = {}
        # push: never a key that is present (premise of the property); also requested while full
        absent = [k for k in self.pool if k not in self.d]
        if self.d and rng.random() < 0.25:  # a key one bit away from a stored one: two nearly equal keys side by side
            near = self._near(rng, rng.choice(sorted(self.d)))
            if near not in self.d:
                absent = [near]
        push_key = None
        if absent and rng.random() < pp:
            # prefer keys that were stored before (re-use) now and then
            again = [k for k in absent if k in self.removed_ever]
            push_key = rng.choice(again) if again and rng.random() < 0.5 else rng.choice(absent)
            stim["push.en"] = 1
            self._put_key(stim, "push", push_key)
            self._put_data(rng, stim, "push")
        write_key = None
        if rng.random() < pw:
            write_key = self._key(rng, 0.7)
            if push_key is not None and rng.random() < 0.1:
                write_key = push_key  # write of the key being pushed in this cycle: absent, so not_found
            stim["write.en"] = 1
            self._put_key(stim, "write", write_key)
            self._put_data(rng, stim, "write")
        remove_key = None
        if rng.random() < pm:
            remove_key = self._key(rng, 0.75)
            if write_key is not None and rng.random() < (0.6 if kind == "samekey" else 0.15):
                remove_key = write_key  # simultaneous write + remove of one key
            elif push_key is not None and rng.random() < 0.1:
                remove_key = push_key  # absent key: nothing to remove, the push still inserts it
            stim["remove.en"] = 1
            self._put_key(stim, "remove", remove_key)
        if rng.random() < pr:
            r = rng.random()
            touched = [k for k in (push_key, write_key, remove_key) if k is not None]
            if kind == "sweep":
                self.sweep = (self.sweep + 1) % len(self.pool)
                read_key = self.pool[self.sweep] if r < 0.7 else self._near(rng, self.pool[self.sweep])
            elif touched and r < (0.7 if kind == "samekey" else 0.35):
                read_key = rng.choice(touched)  # read of a key pushed / written / removed in this very cycle
            else:
                read_key = self._key(rng, 0.75)
            stim["read.en"] = 1
            self._put_key(stim, "read", read_key)
        return stim

    # ---- oracle -----------------------------------------------------------------------------
    def check(self, cyc, stim, obs):
        n, d = self.n, self.d
        level = len(d)
        en = {p: stim.get(f"{p}.en", 0) for p in self.ports}
        done = {p: obs[f"{p}.done"] for p in self.ports}
        key = {p: self._get_key(stim, p) for p in self.ports}
        if en["push"]:
            self.premise(key["push"] not in d, f"push of key {key['push']} which is already present")

        ready = {"push": level < n, "write": True, "read": True, "remove": True}
        for p in self.ports:
            if en[p] and p == "push":  # the statement gives the readiness of push only
                self.expect(obs[f"{p}.runnable"] == int(ready[p]), "ready-mismatch",
                            f"{p} callable={obs[f'{p}.runnable']} with {level}/{n} slots in use", port=p)
            elif en[p] and not obs[f"{p}.runnable"]:
                self.hit(f"{p}_not_callable")
            self.expect(not done[p] or (en[p] and ready[p]), "ran-when-not-callable",
                        f"{p}: en={en[p]} done={done[p]} with {level}/{n} slots in use", port=p)
            if en[p] and ready[p] and not done[p]:
                self.hit("blocked_though_ready")

        # read / write answer for the content at the start of the cycle
        if done["read"]:
            k = key["read"]
            nf = obs["read.o.not_found"]
            self.expect(nf == int(k not in d), "read-not-found-mismatch",
                        f"read({k}) not_found={nf}, stored keys {sorted(d)}", port="read")
            if k in d:
                got = tuple(obs[f"read.o.data.{nm}"] for nm, _, _ in self.dleafs)
                self.expect(got == d[k], "read-data-mismatch", f"read({k}) returned {got}, stored is {d[k]}", port="read")
        if done["write"]:
            k = key["write"]
            nf = obs["write.o.not_found"]
            self.expect(nf == int(k not in d), "write-not-found-mismatch",
                        f"write({k}) not_found={nf}, stored keys {sorted(d)}", port="write")

        # ---- what fired
        kp, kw, kr, km = key["push"], key["write"], key["read"], key["remove"]
        if en["push"] and level == n:
            self.hit("push_refused_full")
            if done["remove"] and km in d:
                self.hit("push_refused_full_while_removing")
        if done["push"] and level == n - 1:
            self.hit("push_took_last_slot")
        if done["push"] and kp in self.removed_ever:
            self.hit("key_reused_after_remove")
        if done["write"]:
            self.hit("write_present" if kw in d else "write_absent")
        if done["remove"]:
            self.hit("remove_present" if km in d else "remove_absent")
        if done["read"]:
            self.hit("read_present" if kr in d else "read_absent")
        if done["write"] and done["remove"] and kw == km and kw in d:
            self.hit("write_and_remove_same_key")
        if done["push"] and done["remove"] and km in d:
            self.hit("push_with_remove_of_other_key")
        if done["push"] and done["remove"] and km == kp:
            self.hit("push_with_remove_of_pushed_key")
        if done["push"] and done["write"] and kw == kp:
            self.hit("push_with_write_of_pushed_key")
        if done["read"] and done["push"] and kr == kp:
            self.hit("read_key_pushed_same_cycle")
        if done["read"] and done["remove"] and kr == km and kr in d:
            self.hit("read_key_removed_same_cycle")
        if done["read"] and done["write"] and kr == kw and kr in d:
            self.hit("read_key_written_same_cycle")
        if all(done.values()):
            self.hit("all_four_same_cycle")
        # wide comparators: a key that differs from a stored one in a single bit / only above bit 8 / only below bit 8
        for p in ("read", "write", "remove"):
            if done[p] and key[p] not in d:
                k = key[p]
                if any(bin(k ^ s).count("1") == 1 for s in d):
                    self.hit("absent_key_one_bit_from_stored_key")
                if any((k ^ s) & 0xFF == 0 for s in d):
                    self.hit("absent_key_differs_only_above_bit_7")
        if done["read"] and kr in d:
            if any(bin(kr ^ s).count("1") == 1 for s in d):
                self.hit("read_present_next_to_key_one_bit_away")
            if kr >> 8:
                self.hit("read_present_key_wider_than_8_bits")
            self.data_cov(d[kr])
        if done["push"] and self.kbits > 3 and level == n - 1:
            self.hit("full_with_wide_keys")
        if done["push"] and n >= 7 and level == n - 1:
            self.hit("full_with_7_or_8_entries")

        mask = tuple(sorted(d))
        calls = tuple(p for p in self.ports if done[p])
        changing = done["push"] or (done["write"] and kw in d) or (done["remove"] and km in d)
        samekey = len({key[p] for p in calls}) < len(calls)
        self.visit((mask, calls, samekey), nontrivial=bool(changing) and (level in (0, 1, n - 1, n) or samekey))

        # ---- step the model: write updates, remove deletes, push inserts
        if done["write"] and kw in d:
            d[kw] = self._get_data(stim, "write")
        if done["remove"] and km in d:
            del d[km]
            self.removed_ever.add(km)
        if done["push"]:
            d[kp] = self._get_data(stim, "push")

    def data_cov(self, got):
        for (f, w, sgn), v in zip(self.dleafs, got):
            if w >= 10 and (v if v >= 0 else v + (1 << w)) >> 9:
                self.hit("returned_value_with_bits_above_9")
            if sgn and v < 0:
                self.hit("returned_negative_signed_field")
        if len(self.dleafs) >= 3:
            self.hit("returned_struct_of_3_or_more_leaves")
        if any("." in f for f, _, _ in self.dleafs):
            self.hit("returned_nested_or_array_field")
        if any(sgn for _, _, sgn in self.aleafs):
            self.hit("signed_key_field")
        if any("." in f for f, _, _ in self.aleafs):
            self.hit("nested_or_array_key_field")


class Prop(PropBase):
    ID = "C24"
    tiers = {
        "quick": {"runs": 320, "selftest_runs": 4},
        "thorough": {"runs": 14000, "selftest_runs": 32},
    }
    rule = ("one run = one (entries 1-8, address layout of 1-20 key bits: one field / two fields / signed / nested struct / "
            "array, data layout: narrow tag or wide / signed / nested fields) configuration with a per-run pool of entries+1..+4 "
            "random keys (plus keys one bit away from stored ones and fully random keys) driven for 80-240 cycles "
            "by a seeded phase plan (random / fill / drain / churn / samekey / sweep / idle); any subset of push, write, "
            "read, remove per cycle, push never with a present key; distinct = distinct (configuration, set of stored "
            "keys, executed call set, whether two calls name one key); non-trivial = a content-changing call executed "
            "with 0, 1, entries-1 or entries slots in use, or two executed calls naming one key")
    expected_cov = ["push_refused_full", "push_refused_full_while_removing", "push_took_last_slot", "key_reused_after_remove",
                    "write_present", "write_absent", "remove_present", "remove_absent", "read_present", "read_absent",
                    "write_and_remove_same_key", "push_with_remove_of_other_key", "push_with_remove_of_pushed_key",
                    "push_with_write_of_pushed_key", "read_key_pushed_same_cycle", "read_key_removed_same_cycle",
                    "read_key_written_same_cycle", "all_four_same_cycle",
                    "absent_key_one_bit_from_stored_key", "absent_key_differs_only_above_bit_7",
                    "read_present_next_to_key_one_bit_away", "read_present_key_wider_than_8_bits", "full_with_wide_keys",
                    "full_with_7_or_8_entries", "returned_value_with_bits_above_9", "returned_negative_signed_field",
                    "returned_struct_of_3_or_more_leaves", "returned_nested_or_array_field", "signed_key_field",
                    "nested_or_array_key_field"]
    real = ["transactron.lib.storage.ContentAddressableMemory",
            "transactron.utils.amaranth_ext.elaboratables.MultiPriorityEncoder", "transactron.lib.adapters.AdapterTrans",
            "TransactionManager + scheduler", "amaranth pysim"]
    stubs = ["cycle driver (stimulus)", "dict reference model"]
    assumptions = ["'a slot is free' (push readiness) is judged on the content at the beginning of the cycle: a remove executed "
                   "in the same cycle does not make room for the push; read / write answer for the content at the beginning "
                   "of the cycle; of the calls executed in one cycle write is applied first, then remove, then push"]
    search_space = ("ContentAddressableMemory configurations (entries 1-8, 1-20 key bits in struct layouts, data layouts) and "
                    "push/write/read/remove call histories that never push a present key")

    def gen_config(self, rng, tier, idx):
        big = tier == "thorough"
        n = rng.choice([1, 2, 3, 4, 5, 6, 2, 3, 4, 5, 6, 7, 8] + ([7, 8] if big else []))
        r = rng.random()
        if r < 0.25:  # the narrow keys the check always used: the whole key space is in play
            kb = rng.choice([2, 3, 3])
            if rng.random() < 0.3:
                lo = rng.randint(1, kb - 1)
                addr = [["lo", lo], ["hi", kb - lo]]
            else:
                addr = [["key", kb]]
        elif r < 0.55:
            addr = [["key", rng.choice([1, 4, 5, 8, 9, 11, 12, 16, 16])]]
        elif r < 0.7:
            kb = rng.choice([6, 9, 12, 16])
            lo = rng.randint(1, kb - 1)
            addr = [["lo", lo], ["hi", kb - lo]]
        elif r < 0.82:
            addr = [["key", ["s", rng.choice([1, 2, 7, 10, 16])]]] + ([["x", rng.choice([1, 3])]] if rng.random() < 0.5 else [])
        else:
            addr = [["k", [["a", rng.choice([1, 3, 8])], ["b", rng.choice([2, 5, ["s", 4]])]]],
                    ["c", rng.choice([1, 4, ["a", 3, 2], ["s", 6]])]]
        if rng.random() < 0.55:
            data = [["tag", rng.randint(4, 8)]]
            if rng.random() < 0.3:
                data.append(["aux", rng.choice([1, 2, 5])])
        else:
            # no array fields in the data layout: ContentAddressableMemory does not elaborate with them (AttributeError in
            # transactron.utils.assign.arrayproxy_fields) -- reported, outside the statement
            data = rand_layout_spec(rng, rich=True, arrays=False)
        cycles = rng.randint(80, 400 if big else 240)
        kinds = ["random", "random", "fill", "drain", "churn", "samekey", "sweep", "idle"]
        cfg = {"entries": n, "addr_layout": addr, "data_layout": data, "cycles": cycles,
               "sched": rng.choice(["eager", "eager", "rr"]), "plan": make_plan(rng, cycles, kinds)}
        kbits = sum(w for _, w, _ in spec_leaves(addr))
        size = min(1 << kbits, n + rng.randint(1, 4))
        keys = rng.sample(range(1 << kbits), size)
        if kbits > 3 and rng.random() < 0.5:  # the extreme patterns
            keys[0] = rng.choice([0, (1 << kbits) - 1, 1 << (kbits - 1)])
            keys = sorted(set(keys))
            rng.shuffle(keys)
        cfg["keys"] = keys
        cfg["tagmul"] = rng.getrandbits(64) | 1
        cfg["layout_obj"] = int(rng.random() < 0.25)
        return cfg

    def make(self, cfg):
        return Scen(cfg)

    def features(self, cfg, viol):
        return {"port": (viol.get("info") or {}).get("port")}

    def cfg_signature(self, cfg):
        return [cfg["entries"], cfg["addr_layout"], cfg["data_layout"], cfg["sched"], cfg.get("keys"), cfg.get("layout_obj", 0)]

    def shrink_cfg(self, cfg):
        n = cfg["entries"]
        for d in (n - 1, n // 2):
            if 1 <= d < n:
                c = dict(cfg)
                c["entries"] = d
                yield c
        if len(cfg["data_layout"]) > 1:
            c = dict(cfg)
            c["data_layout"] = cfg["data_layout"][:1]
            yield c
        if cfg.get("layout_obj"):
            c = dict(cfg)
            c["layout_obj"] = 0
            yield c
        if cfg["sched"] != "eager":
            c = dict(cfg)
            c["sched"] = "eager"
            yield c


PROP = Prop()
