"""C24 — ContentAddressableMemory behaves as a bounded key -> data dictionary."""

from __future__ import annotations

from ..comp import CompScenario
from ..propbase import PropBase, make_plan, phase_at


class Scen(CompScenario):
    def build(self):
        from transactron.lib.storage import ContentAddressableMemory

        c = self.cfg
        self.n = c["entries"]
        self.afields = [(nm, w) for nm, w in c["addr_layout"]]
        self.dfields = [(nm, w) for nm, w in c["data_layout"]]
        self.kbits = sum(w for _, w in self.afields)
        self.nkeys = 1 << self.kbits
        self.dut = ContentAddressableMemory(self.afields, self.dfields, self.n)
        self.top.add("dut", self.dut)
        for name in ("push", "write", "read", "remove"):
            self.caller(name, getattr(self.dut, name))
        self.ports = ["push", "write", "read", "remove"]
        self.d: dict = {}  # key -> tuple of data fields
        self.tag = 0
        self.removed_ever: set = set()
        self.sweep = 0
        return self.top

    # ---- argument encoding ----------------------------------------------------------------
    def _put_key(self, stim, port, key):
        sh = 0
        for nm, w in self.afields:
            stim[f"{port}.i.addr.{nm}"] = (key >> sh) & ((1 << w) - 1)
            sh += w

    def _get_key(self, stim, port):
        key, sh = 0, 0
        for nm, w in self.afields:
            v = stim.get(f"{port}.i.addr.{nm}", 0)
            self.premise(0 <= v < (1 << w), "address field out of range")
            key |= v << sh
            sh += w
        return key

    def _put_data(self, rng, stim, port):
        self.tag += 1
        for k, (nm, w) in enumerate(self.dfields):
            stim[f"{port}.i.data.{nm}"] = (self.tag if k == 0 else rng.getrandbits(w)) & ((1 << w) - 1)

    def _get_data(self, stim, port):
        return tuple(stim.get(f"{port}.i.data.{nm}", 0) for nm, _ in self.dfields)

    # ---- stimulus -------------------------------------------------------------------------
    def _key(self, rng, p_present):
        present = sorted(self.d)
        absent = [k for k in range(self.nkeys) if k not in self.d]
        if present and (not absent or rng.random() < p_present):
            return rng.choice(present)
        if absent:
            return rng.choice(absent)
        return rng.randrange(self.nkeys)

    def stimulus(self, rng, cyc):
        kind, p = phase_at(self.cfg["plan"], cyc)
        pp, pw, pr, pm = {
            "random": (p, 0.5, 0.7, 1 - p if p not in (0.0, 1.0) else p),
            "fill": (1.0, 0.3, 0.7, 0.08),
            "drain": (0.1, 0.3, 0.7, 0.9),
            "churn": (1.0, 0.6, 1.0, 0.8),
            "samekey": (0.7, 0.9, 0.9, 0.9),
            "sweep": (0.15, 0.15, 1.0, 0.15),
            "idle": (0.05, 0.05, 0.2, 0.05),
        }[kind]
        stim = {}
        # push: never a key that is present (premise of the property); also requested while full
        absent = [k for k in range(self.nkeys) if k not in self.d]
        push_key = None
        if absent and rng.random() < pp:
            # prefer keys that were stored before (re-use) now and then
            again = [k for k in absent if k in self.removed_ever]
            push_key = rng.choice(again) if again and rng.random() < 0.5 else rng.choice(absent)
            stim["push.en"] = 1
            self._put_key(stim, "push", push_key)
            self._put_data(rng, stim, "push")
        write_key = None
        if rng.random() < pw:
            write_key = self._key(rng, 0.7)
            if push_key is not None and rng.random() < 0.1:
                write_key = push_key  # write of the key being pushed in this cycle: absent, so not_found
            stim["write.en"] = 1
            self._put_key(stim, "write", write_key)
            self._put_data(rng, stim, "write")
        remove_key = None
        if rng.random() < pm:
            remove_key = self._key(rng, 0.75)
            if write_key is not None and rng.random() < (0.6 if kind == "samekey" else 0.15):
                remove_key = write_key  # simultaneous write + remove of one key
            elif push_key is not None and rng.random() < 0.1:
                remove_key = push_key  # absent key: nothing to remove, the push still inserts it
            stim["remove.en"] = 1
            self._put_key(stim, "remove", remove_key)
        if rng.random() < pr:
            r = rng.random()
            touched = [k for k in (push_key, write_key, remove_key) if k is not None]
            if kind == "sweep":
                self.sweep = (self.sweep + 1) % self.nkeys
                read_key = self.sweep
            elif touched and r < (0.7 if kind == "samekey" else 0.35):
                read_key = rng.choice(touched)  # read of a key pushed / written / removed in this very cycle
            else:
                read_key = self._key(rng, 0.75)
            stim["read.en"] = 1
            self._put_key(stim, "read", read_key)
        return stim

    # ---- oracle -----------------------------------------------------------------------------
    def check(self, cyc, stim, obs):
        n, d = self.n, self.d
        level = len(d)
        en = {p: stim.get(f"{p}.en", 0) for p in self.ports}
        done = {p: obs[f"{p}.done"] for p in self.ports}
        key = {p: self._get_key(stim, p) for p in self.ports}
        if en["push"]:
            self.premise(key["push"] not in d, f"push of key {key['push']} which is already present")

        ready = {"push": level < n, "write": True, "read": True, "remove": True}
        for p in self.ports:
            if en[p] and p == "push":  # the statement gives the readiness of push only
                self.expect(obs[f"{p}.runnable"] == int(ready[p]), "ready-mismatch",
                            f"{p} callable={obs[f'{p}.runnable']} with {level}/{n} slots in use", port=p)
            elif en[p] and not obs[f"{p}.runnable"]:
                self.hit(f"{p}_not_callable")
            self.expect(not done[p] or (en[p] and ready[p]), "ran-when-not-callable",
                        f"{p}: en={en[p]} done={done[p]} with {level}/{n} slots in use", port=p)
            if en[p] and ready[p] and not done[p]:
                self.hit("blocked_though_ready")

        # read / write answer for the content at the start of the cycle
        if done["read"]:
            k = key["read"]
            nf = obs["read.o.not_found"]
            self.expect(nf == int(k not in d), "read-not-found-mismatch",
                        f"read({k}) not_found={nf}, stored keys {sorted(d)}", port="read")
            if k in d:
                got = tuple(obs[f"read.o.data.{nm}"] for nm, _ in self.dfields)
                self.expect(got == d[k], "read-data-mismatch", f"read({k}) returned {got}, stored is {d[k]}", port="read")
        if done["write"]:
            k = key["write"]
            nf = obs["write.o.not_found"]
            self.expect(nf == int(k not in d), "write-not-found-mismatch",
                        f"write({k}) not_found={nf}, stored keys {sorted(d)}", port="write")

        # ---- what fired
        kp, kw, kr, km = key["push"], key["write"], key["read"], key["remove"]
        if en["push"] and level == n:
            self.hit("push_refused_full")
            if done["remove"] and km in d:
                self.hit("push_refused_full_while_removing")
        if done["push"] and level == n - 1:
            self.hit("push_took_last_slot")
        if done["push"] and kp in self.removed_ever:
            self.hit("key_reused_after_remove")
        if done["write"]:
            self.hit("write_present" if kw in d else "write_absent")
        if done["remove"]:
            self.hit("remove_present" if km in d else "remove_absent")
        if done["read"]:
            self.hit("read_present" if kr in d else "read_absent")
        if done["write"] and done["remove"] and kw == km and kw in d:
            self.hit("write_and_remove_same_key")
        if done["push"] and done["remove"] and km in d:
            self.hit("push_with_remove_of_other_key")
        if done["push"] and done["remove"] and km == kp:
            self.hit("push_with_remove_of_pushed_key")
        if done["push"] and done["write"] and kw == kp:
            self.hit("push_with_write_of_pushed_key")
        if done["read"] and done["push"] and kr == kp:
            self.hit("read_key_pushed_same_cycle")
        if done["read"] and done["remove"] and kr == km and kr in d:
            self.hit("read_key_removed_same_cycle")
        if done["read"] and done["write"] and kr == kw and kr in d:
            self.hit("read_key_written_same_cycle")
        if all(done.values()):
            self.hit("all_four_same_cycle")

        mask = sum(1 << k for k in d)
        calls = tuple(p for p in self.ports if done[p])
        changing = done["push"] or (done["write"] and kw in d) or (done["remove"] and km in d)
        samekey = len({key[p] for p in calls}) < len(calls)
        self.visit((mask, calls, samekey), nontrivial=bool(changing) and (level in (0, 1, n - 1, n) or samekey))

        # ---- step the model: write updates, remove deletes, push inserts
        if done["write"] and kw in d:
            d[kw] = self._get_data(stim, "write")
        if done["remove"] and km in d:
            del d[km]
            self.removed_ever.add(km)
        if done["push"]:
            d[kp] = self._get_data(stim, "push")


class Prop(PropBase):
    ID = "C24"
    tiers = {
        "quick": {"runs": 320, "selftest_runs": 4},
        "thorough": {"runs": 14000, "selftest_runs": 32},
    }
    rule = ("one run = one (entries, address layout of 2-3 key bits, data layout) configuration driven for 80-240 cycles "
            "by a seeded phase plan (random / fill / drain / churn / samekey / sweep / idle); any subset of push, write, "
            "read, remove per cycle, push never with a present key; distinct = distinct (configuration, set of stored "
            "keys, executed call set, whether two calls name one key); non-trivial = a content-changing call executed "
            "with 0, 1, entries-1 or entries slots in use, or two executed calls naming one key")
    expected_cov = ["push_refused_full", "push_refused_full_while_removing", "push_took_last_slot", "key_reused_after_remove",
                    "write_present", "write_absent", "remove_present", "remove_absent", "read_present", "read_absent",
                    "write_and_remove_same_key", "push_with_remove_of_other_key", "push_with_remove_of_pushed_key",
                    "push_with_write_of_pushed_key", "read_key_pushed_same_cycle", "read_key_removed_same_cycle",
                    "read_key_written_same_cycle", "all_four_same_cycle"]
    real = ["transactron.lib.storage.ContentAddressableMemory",
            "transactron.utils.amaranth_ext.elaboratables.MultiPriorityEncoder", "transactron.lib.adapters.AdapterTrans",
            "TransactionManager + scheduler", "amaranth pysim"]
    stubs = ["cycle driver (stimulus)", "dict reference model"]
    assumptions = ["'a slot is free' (push readiness) is judged on the content at the beginning of the cycle: a remove executed "
                   "in the same cycle does not make room for the push; read / write answer for the content at the beginning "
                   "of the cycle; of the calls executed in one cycle write is applied first, then remove, then push"]
    search_space = ("ContentAddressableMemory configurations (entries 1-6, 2-3 key bits, data layouts) and "
                    "push/write/read/remove call histories that never push a present key")

    def gen_config(self, rng, tier, idx):
        big = tier == "thorough"
        n = rng.choice([1, 2, 3, 4, 5, 6] + ([7, 8] if big else []))
        kb = rng.choice([2, 3, 3])
        if rng.random() < 0.3:
            lo = rng.randint(1, kb - 1)
            addr = [["lo", lo], ["hi", kb - lo]]
        else:
            addr = [["key", kb]]
        data = [["tag", rng.randint(4, 8)]]
        if rng.random() < 0.3:
            data.append(["aux", rng.choice([1, 2, 5])])
        cycles = rng.randint(80, 400 if big else 240)
        kinds = ["random", "random", "fill", "drain", "churn", "samekey", "sweep", "idle"]
        return {"entries": n, "addr_layout": addr, "data_layout": data, "cycles": cycles,
                "sched": rng.choice(["eager", "eager", "rr"]), "plan": make_plan(rng, cycles, kinds)}

    def make(self, cfg):
        return Scen(cfg)

    def features(self, cfg, viol):
        return {"port": (viol.get("info") or {}).get("port")}

    def cfg_signature(self, cfg):
        return [cfg["entries"], cfg["addr_layout"], cfg["data_layout"], cfg["sched"]]

    def shrink_cfg(self, cfg):
        n = cfg["entries"]
        for d in (n - 1, n // 2):
            if 1 <= d < n:
                c = dict(cfg)
                c["entries"] = d
                yield c
        if len(cfg["data_layout"]) > 1:
            c = dict(cfg)
            c["data_layout"] = cfg["data_layout"][:1]
            yield c
        if cfg["sched"] != "eager":
            c = dict(cfg)
            c["sched"] = "eager"
            yield c


PROP = Prop()
