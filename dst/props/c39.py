"""C39 — RoundRobin / OneHotRoundRobin grant fairly.

Plain Amaranth modules (no Transactron manager): the cycle driver owns `requests` and samples
`grant` / `valid`.  The oracle is the statement only:

* OneHotRoundRobin (combinational grant): any request present -> `valid`, `grant` one-hot and inside
  the current request vector; no request -> `valid` low (the *effective* grant `grant & valid` is
  empty; the raw `grant` output keeps the register value, which every user gates with `valid`).
* RoundRobin (registered grant): `valid` -> `grant` < count and designates a requester of the previous
  or of the current cycle's request vector (the statement does not say which cycle "active" refers to).
* both: an input that requests continuously is served within `count` cycles, i.e. it never collects
  `count` consecutive requesting cycles whose arbitration decision went to somebody else.  (Derived
  from the code: after a grant the granted input has the lowest priority, all others are served in
  cyclic order, so the worst case is count-1 lost decisions; the bound is reached, see `wait_at_bound`.)

No model of the selection policy is used by the oracle.  A prediction of the next grant (documented
policy "next active request with a greater number, wrapping") only *aims* the stimulus (drop-outs in
the granted cycle, steering towards unvisited (state, request) pairs).
"""

from __future__ import annotations

from ..comp import CompScenario
from ..propbase import PropBase, make_plan, phase_at


def _popcount(x: int) -> int:
    return bin(x).count("1")


def _predict(state: int, req: int, count: int) -> int:
    """Documented policy: first requester after `state` in cyclic order; `state` itself last."""
    for d in range(1, count + 1):
        j = (state + d) % count
        if (req >> j) & 1:
            return j
    return state


class _Wrap:
    """The arbiter plus a dummy register, so that a `sync` domain exists whatever the arbiter contains."""

    def __new__(cls, dut):
        from amaranth import Elaboratable, Module, Signal

        class Wrap(Elaboratable):
            def elaborate(self, platform):
                m = Module()
                dummy = Signal(name="verif_dummy_sync")
                m.d.sync += dummy.eq(~dummy)
                m.submodules.dut = dut
                return m

        return Wrap()


class Scen(CompScenario):
    transactional = False

    def build(self):
        from transactron.utils.amaranth_ext.elaboratables import OneHotRoundRobin, RoundRobin

        c = self.cfg
        self.n = c["count"]
        self.onehot = c["cls"] == "OneHotRoundRobin"
        self.dut = OneHotRoundRobin(self.n) if self.onehot else RoundRobin(count=self.n)
        self.add_input("req", self.dut.requests)
        self.add_obs("grant", self.dut.grant)
        self.add_obs("valid", self.dut.valid)
        self.mask = (1 << self.n) - 1
        self.wait = [0] * self.n  # consecutive requesting cycles whose decision went elsewhere
        self.prev_req = 0
        self.state = 0  # observed arbiter state: index of the last grant (reset: 0 for both)
        self.pred = 0  # predicted state, stimulus aiming only
        self.always_on = c.get("hog", 0) % self.n
        self.single = 0
        self.pairs: set = set()
        return _Wrap(self.dut)

    # ---- stimulus -------------------------------------------------------------------------
    def stimulus(self, rng, cyc):
        n = self.n
        kind, p = phase_at(self.cfg["plan"], cyc)
        if kind == "steer" and n > 4:
            kind = "random"
        if kind == "none":
            req = 0
        elif kind == "all":
            req = self.mask
        elif kind == "single":
            if rng.random() < 0.15:
                self.single = rng.randrange(n)
            req = 1 << self.single
        elif kind == "hog":  # one requester always on, the others flapping
            req = 1 << self.always_on
            for j in range(n):
                if rng.random() < p:
                    req |= 1 << j
        elif kind == "dropout":
            # everybody asks, except the input that is about to be / has just been granted
            req = self.mask if rng.random() < 0.8 else rng.getrandbits(n)
            if self.onehot:
                victim = _predict(self.pred, req, n)  # would be granted in this very cycle
            else:
                victim = self.pred  # its grant becomes visible in this cycle
            if rng.random() < 0.85:
                req &= ~(1 << victim)
        elif kind == "steer":  # small count: aim at (state, request) pairs not visited yet
            todo = [r for r in range(1 << n) if (self.pred, r) not in self.pairs]
            req = todo[rng.randrange(len(todo))] if todo else rng.getrandbits(n)
        else:  # random
            req = 0
            for j in range(n):
                if rng.random() < p:
                    req |= 1 << j
        req &= self.mask
        self.pred = _predict(self.pred, req, n) if req else self.pred
        return {"req": req}

    # ---- oracle -----------------------------------------------------------------------------
    def check(self, cyc, stim, obs):
        n = self.n
        req = stim.get("req", 0) & self.mask
        grant, valid = obs["grant"], obs["valid"]
        if self.onehot:
            state = self.state
            if req:
                self.expect(valid == 1, "valid-low-with-request", f"requests={req:#b} but valid=0", cls="onehot")
                self.expect(_popcount(grant) == 1, "grant-not-onehot", f"requests={req:#b} grant={grant:#b}",
                            cls="onehot")
                self.expect(grant & req, "grant-not-a-requester", f"requests={req:#b} grant={grant:#b}", cls="onehot")
                served = grant.bit_length() - 1
            else:
                self.expect(valid == 0, "valid-high-without-request", f"requests=0 valid=1 grant={grant:#b}",
                            cls="onehot")
                served = None
                if grant:
                    self.hit("idle_raw_grant_held")  # gated by valid in every user; not a grant
            # drop-out in the granted cycle: an input that was waiting withdrew exactly when it was next in line
            for k in range(n):
                if (self.prev_req >> k) & 1 and not (req >> k) & 1 and self.wait[k] > 0 \
                        and _predict(state, req | (1 << k), n) == k:
                    self.hit("dropout_at_grant")
            self._fair(req, served, cyc)
            self._cover(state, req, served)
            if served is not None:
                self.state = served
            self.pred = self.state
            self.prev_req = req
        else:
            # the decision taken on (state, prev_req) in the previous cycle is visible now
            if valid:
                active = self.prev_req | req  # "an active requester": of the deciding or of the current cycle
                self.expect(active != 0, "valid-without-previous-request",
                            f"valid=1 grant={grant} but nobody requested in the previous or in this cycle", cls="rr")
                self.expect(grant < n and (active >> grant) & 1, "grant-not-a-requester",
                            f"valid=1 grant={grant} previous requests={self.prev_req:#b} current requests={req:#b}", cls="rr")
                if not (self.prev_req >> grant) & 1:
                    self.hit("rr_grant_designates_requester_of_current_cycle_only")
                served = grant
                if not (req >> grant) & 1:
                    self.hit("dropout_at_grant")
            else:
                served = None
                if self.prev_req:
                    self.hit("rr_valid_low_after_request")  # only fairness can object to this
            if cyc > 0:
                self._fair(self.prev_req, served, cyc)
                self._cover(self.state, self.prev_req, served)
            self.state = grant
            self.pred = _predict(grant, req, n) if req else grant
            self.prev_req = req

    def _fair(self, req, served, cyc):
        n = self.n
        for k in range(n):
            if (req >> k) & 1 and served != k:
                self.wait[k] += 1
                self.expect(self.wait[k] < n, "starved",
                            f"input {k} has requested for {self.wait[k]} consecutive cycles without a grant "
                            f"(count={n})", cls="onehot" if self.onehot else "rr", input=k)
                if n >= 2 and self.wait[k] == n - 1:
                    self.hit("wait_at_bound")
            else:
                self.wait[k] = 0

    def _cover(self, state, req, served):
        n = self.n
        nreq = _popcount(req)
        if nreq == 0:
            self.hit("idle_cycle")
        elif nreq == 1:
            self.hit("single_requester")
        else:
            self.hit("contended")
        if nreq == n and n >= 2:
            self.hit("all_requesting")
        if served is not None:
            if served == state:
                self.hit("regrant_same_input")
            elif served < state:
                self.hit("wrap_around")
        self.pairs.add((state, req))
        self.visit((state, req), nontrivial=nreq >= 2)

    def finish(self):
        n = self.n
        if n <= 4:
            total = n * (1 << n)
            self.notes["pairs"] = f"{len(self.pairs)}/{total}"
            if len(self.pairs) == total:
                self.hit("small_count_all_pairs_covered")
            else:
                self.hit("small_count_pairs_missed")
        else:
            self.hit("large_count_run")


class Prop(PropBase):
    ID = "C39"
    tiers = {
        "quick": {"runs": 1600, "selftest_runs": 4},
        "thorough": {"runs": 60000, "selftest_runs": 32},
    }
    rule = ("one run = one (class, count) arbiter driven for 150-400 cycles through its request port by a seeded "
            "phase plan (random(p) / one requester always on + others flapping / all on / drop-out in the granted "
            "cycle / single requester / none / steering towards unvisited pairs); distinct = distinct (class, count, "
            "arbiter state = index of the last grant, request vector) pairs; non-trivial = at least two requesters. "
            "For count <= 4 every run is steered until all count*2^count (state, request) pairs were visited: "
            "counter small_count_all_pairs_covered counts such runs, small_count_pairs_missed must stay 0 "
            "(fault_kinds_fired).  wait_at_bound counts cycles in which an input had lost count-1 consecutive "
            "decisions, i.e. the fairness bound of the statement is reached exactly, never exceeded")
    expected_cov = ["idle_cycle", "single_requester", "contended", "all_requesting", "regrant_same_input",
                    "wrap_around", "dropout_at_grant", "wait_at_bound", "small_count_all_pairs_covered",
                    "large_count_run", "idle_raw_grant_held"]
    real = ["transactron.utils.amaranth_ext.elaboratables.OneHotRoundRobin",
            "transactron.utils.amaranth_ext.elaboratables.RoundRobin", "amaranth pysim"]
    stubs = ["cycle driver (request vector)", "per-input wait counters (no policy model in the oracle)"]
    search_space = "arbiter class x count 1..8 (thorough: ..12) x request histories from every reachable arbiter state"
    state_measure = "(arbiter state = last granted index, request vector) pairs, per class and count"
    assumptions = ["'grants none' for OneHotRoundRobin without requests is read as valid low (grant & valid empty): "
                   "the raw grant output keeps the last one-hot value, every user in the library gates it with valid",
                   "RoundRobin is registered: an 'active requester' is an input requesting in the previous cycle (on which the "
                   "visible decision was taken) or in the current one; fairness is counted on the deciding cycle's requests"]

    def gen_config(self, rng, tier, idx):
        big = tier == "thorough"
        cls = rng.choice(["OneHotRoundRobin", "RoundRobin"])
        counts = [1, 2, 3, 4, 5, 6, 7, 8] + ([9, 10, 11, 12] if big else [])
        count = rng.choice(counts)
        cycles = rng.randint(150, 400)
        kinds = ["random", "random", "hog", "all", "dropout", "single", "none"]
        if count <= 4:
            cycles = max(cycles, 220)
            kinds += ["steer", "steer", "steer"]
        plan = make_plan(rng, cycles, kinds, min_len=4, max_len=30)
        if count <= 4:  # the tail of a small-count run mops up the pairs that are still missing
            tail = cycles - 90
            plan = [e for e in plan if e[0] < tail] + [[tail, "steer", 0.5]]
        return {"cls": cls, "count": count, "hog": rng.randrange(count), "cycles": cycles, "plan": plan}

    def make(self, cfg):
        return Scen(cfg)

    def features(self, cfg, viol):
        return {"cls": cfg["cls"]}

    def cfg_signature(self, cfg):
        return [cfg["cls"], cfg["count"]]

    def shrink_cfg(self, cfg):
        for n in (2, 3, cfg["count"] - 1):
            if 1 <= n < cfg["count"]:
                c = dict(cfg)
                c["count"] = n
                c["hog"] = cfg["hog"] % n
                yield c


PROP = Prop()
