"""C31 — hardware counters and histograms count exactly.

One run = one metric (HwCounter / TaggedCounter / HwExpHistogram) in one configuration, called by a
small stub: transactions whose request bits, per-call `enable_call` bits and arguments the cycle
driver owns.  A call is *executed* when its transaction runs and its `enable_call` is 1 — the
property's own words; the oracle never looks at the metric's internal `run` signals."""

from __future__ import annotations

from ..comp import CompScenario
from ..kernel import Violation
from ..propbase import PropBase, make_plan, phase_at
from ..models.metrics_model import HistModel, compare_hist, hist_obs_names


# --------------------------------------------------------------------------------------------
# tag sets (JSON description -> what the constructor receives)


def tag_values(t: dict) -> list:
    if t["form"] == "range":
        return list(range(*t["args"]))
    if t["form"] == "list":
        return list(t["values"])
    return [v for _, v in t["members"]]


def make_tags(t: dict):
    import enum
    import types

    if t["form"] == "range":
        return range(*t["args"])
    if t["form"] == "list":
        return list(t["values"])
    members = [(n, v) for n, v in t["members"]]
    fl = t["flavor"]
    if fl == "py_int":
        return enum.IntEnum("Tags", members)
    if fl == "py_intflag":
        return enum.IntFlag("Tags", members)
    if fl == "py_enum":  # a plain (non-int) enum.Enum with integer values: the signature says type[Enum]
        return enum.Enum("Tags", members)
    if fl == "py_flag":
        return enum.Flag("Tags", members)
    from amaranth.hdl import signed, unsigned
    from amaranth.lib import enum as aenum

    base = {"am_int": aenum.IntEnum, "am_intflag": aenum.IntFlag, "am_enum": aenum.Enum, "am_flag": aenum.Flag}[fl]
    kw = {}
    if t.get("shape") is not None:
        sg, w = t["shape"]
        kw["shape"] = signed(w) if sg else unsigned(w)

    def body(ns):
        for n, v in members:
            ns[n] = v

    return types.new_class("Tags", (base,), kw, body)


def tag_bits(t: dict) -> int:
    """Width of the tag argument (documented: the shape of the range / enum / min..max of the list)."""
    from amaranth.hdl import Shape

    if t["form"] == "enum" and t.get("shape") is not None:
        return t["shape"][1]
    if t["form"] == "list":
        return Shape.cast(range(min(t["values"]), max(t["values"]) + 1)).width
    return Shape.cast(make_tags(t)).width


def tag_facts(t: dict) -> dict:
    vals = sorted(set(tag_values(t)))
    one_hot = all(v > 0 and v & (v - 1) == 0 for v in vals)
    dense = vals == [1 << i for i in range(len(vals))]
    bits = tag_bits(t)
    return {"tag_form": t["form"], "flavor": t.get("flavor"), "one_hot": one_hot, "gaps": one_hot and not dense,
            "sparse": one_hot and len(vals) < bits, "n_tags": len(vals), "tag_bits": bits}


# --------------------------------------------------------------------------------------------
# the stub


def make_harness(metric, kind, groups, contend, arg_shape, via=()):
    from amaranth import Elaboratable, Signal
    from amaranth.lib.data import StructLayout
    from transactron import TModule, Transaction, Method, def_method

    via = list(via) + [0] * (len(groups) - len(via))

    nways = sum(len(g) for g in groups)

    class Harness(Elaboratable):
        """Callers of the metric: transaction j calls the ways of groups[j]; optionally one more
        transaction calls way 0 too (so the two contend for an exclusive method).  via[j] = d > 0: the calls
        of transaction j are made from the body of a Method, d levels below the transaction ("should be called in
        the body of either a transaction or a method")."""

        def __init__(self):
            self.en = [Signal(name=f"t{j}_en") for j in range(len(groups))]
            self.done = [Signal(name=f"t{j}_done") for j in range(len(groups))]
            self.ec = [Signal(name=f"w{k}_ec") for k in range(nways)]
            self.arg = [Signal(StructLayout({"a": arg_shape}), name=f"w{k}_arg") for k in range(nways)] if arg_shape is not None else []
            self.x_en = Signal()
            self.x_done = Signal()
            self.x_ec = Signal()
            self.x_arg = Signal(StructLayout({"a": arg_shape})) if arg_shape is not None else None
            self.relay = {(j, d): Method(name=f"relay{j}_{d}") for j in range(len(groups)) for d in range(via[j])}

        def calls_of(self, m, grp):
            for k in grp:
                self.call(m, k, self.ec[k], self.arg[k] if self.arg else None)

        def define_relay(self, m, j, d, grp):
            @def_method(m, self.relay[(j, d)])
            def _():
                if d + 1 < via[j]:
                    self.relay[(j, d + 1)](m)
                else:
                    self.calls_of(m, grp)

        def call(self, m, k, ec, arg):
            if kind == "counter":
                metric.incr[k](m, enable_call=ec)
            elif kind == "tagged":
                metric.incr[k](m, tag=arg.a, enable_call=ec)
            else:
                metric.add[k](m, sample=arg.a, enable_call=ec)

        def elaborate(self, platform):
            m = TModule()
            m.submodules.dut_metric = metric
            for j, grp in enumerate(groups):
                for d in range(via[j]):
                    self.define_relay(m, j, d, grp)
                with Transaction(name=f"caller{j}").body(m, ready=self.en[j]):
                    m.d.comb += self.done[j].eq(1)
                    if via[j]:
                        self.relay[(j, 0)](m)
                    else:
                        self.calls_of(m, grp)
            if contend:
                with Transaction(name="contender").body(m, ready=self.x_en):
                    m.d.comb += self.x_done.eq(1)
                    self.call(m, 0, self.x_ec, self.x_arg)
            return m

    return Harness()


class Scen(CompScenario):
    def build(self):
        from transactron.lib.metrics import HwCounter, TaggedCounter, HwExpHistogram, HwMetricsEnabledKey
        from transactron.utils.dependencies import DependencyContext

        c = self.cfg
        self.kind = c["metric"]
        self.enabled = c["enabled"]
        if self.enabled:
            DependencyContext.get().add_dependency(HwMetricsEnabledKey(), True)
        elif c.get("explicit_key"):
            DependencyContext.get().add_dependency(HwMetricsEnabledKey(), False)
        self.ways = c["ways"]
        self.groups = [list(g) for g in c["groups"]]
        self.contend = bool(c.get("contend"))
        # None: the argument is not passed -- the constructor's documented default (32 bits) is in force
        self.width = 32 if c["width"] is None else c["width"]
        arg_shape = None
        if self.kind == "counter":
            kw = {} if c["width"] is None else {"width_bits": c["width"]}
            self.dut = HwCounter("dut.counter", "counter under test", ways=self.ways, **kw)
        elif self.kind == "tagged":
            kw = {} if c["width"] is None else {"registers_width": c["width"]}
            self.tagvals = sorted(set(tag_values(c["tags"])))
            self.dut = TaggedCounter("dut.tagged", "tagged counter under test", tags=make_tags(c["tags"]),
                                     ways=self.ways, **kw)
            arg_shape = self.dut.tag_shape
        else:
            kw = {} if c["width"] is None else {"registers_width": c["width"]}
            self.sw = 32 if c["sample_width"] is None else c["sample_width"]
            if c["sample_width"] is not None:
                kw["sample_width"] = c["sample_width"]
            self.dut = HwExpHistogram("dut.hist", "histogram under test", bucket_count=c["bucket_count"],
                                      ways=self.ways, **kw)
            arg_shape = self.sw  # what a user of the documented interface connects
        self.via = list(c.get("via_method") or [])
        self.via += [0] * (len(self.groups) - len(self.via))
        self.h = make_harness(self.dut, self.kind, self.groups, self.contend, arg_shape, self.via)
        self.top.add("harness", self.h)
        if self.enabled:
            self.check_register_widths()

        for j in range(len(self.groups)):
            self.add_input(f"t{j}.en", self.h.en[j])
            self.add_obs(f"t{j}.done", self.h.done[j])
        for k in range(self.ways):
            self.add_input(f"w{k}.ec", self.h.ec[k])
            if self.kind == "hist":
                self.add_input(f"w{k}.arg", self.h.arg[k].as_value())
        if self.contend:
            self.add_input("x.en", self.h.x_en)
            self.add_input("x.ec", self.h.x_ec)
            self.add_obs("x.done", self.h.x_done)
            if self.kind == "hist":
                self.add_input("x.arg", self.h.x_arg.as_value())
        # tags are given in the stimulus as an index into the sorted tag set (so that shrinking a value
        # never leaves the premise "the tag is a member of the tag set"); driven in pre_observe
        self.tag_ports = []
        if self.kind == "tagged":
            self.tag_ports = [(f"w{k}.tagi", self.h.arg[k].as_value()) for k in range(self.ways)]
            if self.contend:
                self.tag_ports.append(("x.tagi", self.h.x_arg.as_value()))
            self.tag_mask = (1 << len(self.h.arg[0].as_value())) - 1
        self.tag_last = {}

        if self.enabled:
            if self.kind == "counter":
                self.add_obs("r.count", self.dut.count.value)
            elif self.kind == "tagged":
                for t in self.tagvals:
                    self.add_obs(f"r.tag{t}", self.dut.counters[t].value)
            else:
                for n, s in hist_obs_names(self.dut).items():
                    self.add_obs(f"r.{n}", s)

        # models (unbounded integers; compared modulo the register width)
        self.m_count = 0
        self.m_tags = {t: 0 for t in getattr(self, "tagvals", [])}
        if self.kind == "hist":
            self.m_hist = HistModel(c["bucket_count"], self.sw, self.width)
        self.way_group = {}
        for j, g in enumerate(self.groups):
            for k in g:
                self.way_group[k] = j
        self.hit("cfg_" + self.kind + ("" if self.enabled else "_disabled"))
        return self.top

    # ---- "modulo register width": the counting registers have the width given / the documented default -------
    def check_register_widths(self):
        """The registers a user reads (metric.regs: MetricRegisterModel.width and the Signal behind it) are as wide
        as `width_bits` / `registers_width` says -- 32 when the argument is not passed ("Defaults to 32 bits").
        The histogram's min / max hold samples, not counts: they are left to the behavioural comparison."""
        dflt = self.cfg["width"] is None
        for name, reg in self.dut.regs.items():
            if self.kind == "hist" and name in ("min", "max"):
                continue
            w_decl, w_sig = reg.width, len(reg.value)
            if w_decl != self.width or w_sig != self.width:
                raise Violation("default-register-width-mismatch" if dflt else "register-width-mismatch",
                                f"register `{name}` of the {self.kind}: declared width {w_decl}, signal width {w_sig}; "
                                f"{'documented default' if dflt else 'requested'} {self.width}", reg=name)
        self.hit("default_register_width_checked" if dflt else "register_width_checked")

    # ---- disabled metrics produce no hardware ---------------------------------------------------
    def post_elab(self, tm):
        super().post_elab(tm)
        if self.enabled:
            return
        d = self.sim._design
        frag = d.elaboratables.get(self.dut)
        if frag is None:
            raise Violation("disabled-metric-not-elaborated", "the disabled metric is not part of the design")

        def walk(f):
            yield f
            for sub, _name, _loc in f.subfragments:
                yield from walk(sub)

        for f in walk(frag):
            nst = sum(len(s) for s in f.statements.values())
            used = [s.name for s in d.fragments[f].used_signals]
            if nst or used:
                raise Violation("disabled-metric-has-hardware",
                                f"disabled {self.kind}: {nst} statement(s), signals {used[:6]} inside the metric")
        regs = [s.name for s in self.dut.signals.values() if s in d.signal_lca]
        if regs:
            raise Violation("disabled-metric-has-hardware", f"registers {regs[:6]} of the disabled metric are in the design")
        self.hit("disabled_no_hardware_checked")

    def pre_observe(self, ctx, cyc, stim):
        for name, sig in self.tag_ports:
            idx = stim.get(name, 0)
            self.premise(0 <= idx < len(self.tagvals), f"{name}={idx} is not a member of the tag set")
            raw = self.tagvals[idx] & self.tag_mask
            if self.tag_mask and self.tag_last.get(name) != raw:
                ctx.set(sig, raw)
                self.tag_last[name] = raw

    # ---- stimulus -------------------------------------------------------------------------------
    def _arg(self, rng, kind, cyc, same):
        c = self.cfg
        if self.kind == "tagged":
            n = len(self.tagvals)
            if same is not None:
                return same
            if kind == "extremes":
                return rng.choice([0, n - 1])
            return rng.randrange(n)
        w = self.sw
        mx = (1 << w) - 1
        r = rng.random()
        if kind == "extremes" or r < 0.3:
            i = rng.randrange(w + 1)
            v = rng.choice([0, 1, mx, (1 << i) & mx, ((1 << i) - 1) & mx, ((1 << i) + 1) & mx])
        elif r < 0.5:
            v = rng.randrange(min(4, mx + 1))
        else:
            v = rng.randrange(mx + 1)
        drift, T = c.get("drift", "none"), c.get("drift_len", 0)
        if drift != "none" and cyc < T:
            rem = (mx * (T - cyc)) // T  # shrinks to 0: the window opens
            lo, hi = {"down": (rem, mx), "up": (0, mx - rem), "spread": (rem // 2, mx - rem // 2)}[drift]
            v = min(max(v, lo), hi)
        return v

    def stimulus(self, rng, cyc):
        kind, p = phase_at(self.cfg["plan"], cyc)
        ng = len(self.groups)
        stim = {}
        pen, pec = {"random": (p, 0.75), "burst": (1.0, 1.0), "idle": (0.05, 0.8), "single": (0.0, 1.0),
                    "extremes": (max(p, 0.3), 0.9)}[kind]
        only = rng.randrange(ng + (1 if self.contend else 0)) if kind == "single" else None
        for j in range(ng):
            stim[f"t{j}.en"] = int(rng.random() < pen or only == j)
        same = None
        if self.kind == "tagged" and rng.random() < (0.6 if kind in ("burst", "extremes") else 0.2):
            same = rng.randrange(len(self.tagvals))  # all ways hit one tag in this cycle
        argname = "tagi" if self.kind == "tagged" else "arg"
        for k in range(self.ways):
            stim[f"w{k}.ec"] = int(rng.random() < pec)
            if self.kind != "counter":
                stim[f"w{k}.{argname}"] = self._arg(rng, kind, cyc, same)
        if self.contend:
            stim["x.en"] = int(rng.random() < max(pen, 0.3) or only == ng)
            stim["x.ec"] = int(rng.random() < pec)
            if self.kind != "counter":
                stim[f"x.{argname}"] = self._arg(rng, kind, cyc, same)
        return stim

    # ---- oracle ---------------------------------------------------------------------------------
    def check(self, cyc, stim, obs):
        ng = len(self.groups)
        mask = (1 << self.width) - 1
        ports = [f"t{j}" for j in range(ng)] + (["x"] if self.contend else [])
        done = {}
        for p in ports:
            en = stim.get(f"{p}.en", 0)
            done[p] = obs[f"{p}.done"]
            self.expect(not done[p] or en, "ran-when-not-requested", f"{p}: en={en} done={done[p]}", port=p)
            if en and not done[p]:
                if not self.enabled:
                    # "with metrics disabled the calls are accepted": nothing may hold a caller back
                    self.expect(False, "disabled-call-not-accepted", f"{p} requested but did not run", port=p)
                self.hit("blocked_though_ready")
            if en and done[p] and not self.enabled:
                self.hit("disabled_call_accepted")
        if self.contend and stim.get("x.en") and stim.get(f"t{self.way_group[0]}.en"):
            self.hit("contention_both_requested")

        # 1. registers against the model (state at the beginning of this cycle)
        if self.enabled:
            if self.kind == "counter":
                self.expect(obs["r.count"] == self.m_count & mask, "count-mismatch",
                            f"count register = {obs['r.count']}, executed calls {self.m_count} mod 2**{self.width} = {self.m_count & mask}")
            elif self.kind == "tagged":
                for t in self.tagvals:
                    self.expect(obs[f"r.tag{t}"] == self.m_tags[t] & mask, "tag-count-mismatch",
                                f"counter of tag {t} = {obs[f'r.tag{t}']}, executed calls with that tag {self.m_tags[t]} "
                                f"mod 2**{self.width} = {self.m_tags[t] & mask}; all: {self.m_tags}", tag=t)
            else:
                compare_hist(self, self.m_hist, obs, "r.")

        # 2. the calls executed in this cycle: transaction ran and enable_call was 1
        calls = []
        argname = "tagi" if self.kind == "tagged" else "arg"
        for j, grp in enumerate(self.groups):
            if done[f"t{j}"]:
                for k in grp:
                    if stim.get(f"w{k}.ec", 0):
                        calls.append((k, stim.get(f"w{k}.{argname}", 0)))
                        if self.enabled and self.via[j]:
                            self.hit("call_from_method_body")
                            if self.via[j] > 1:
                                self.hit("call_from_nested_method_body")
                    else:
                        self.hit("ec_masked_call")
        if self.contend and done["x"]:
            if stim.get("x.ec", 0):
                calls.append((0, stim.get(f"x.{argname}", 0)))
            else:
                self.hit("ec_masked_call")
        n = len(calls)
        if self.enabled:
            if n and self.cfg["width"] is None:
                self.hit("default_width_counted")
            if n and self.width <= 2:
                self.hit("narrow_register_counted")
        if n >= 2:
            self.hit("multi_way_same_cycle")
        if n == self.ways and n >= 2:
            self.hit("all_ways_same_cycle")

        # 3. step the model, count what fired
        if self.kind == "counter":
            wrap = (self.m_count & mask) + n > mask
            if wrap:
                self.hit("counter_wrap")
            self.visit(("counter", self.ways, self.width, self.m_count & mask, n), nontrivial=n >= 2 or wrap)
            self.m_count += n
        elif self.kind == "tagged":
            tags = [self.tagvals[a] for _, a in calls]
            wrap = False
            for t in sorted(set(tags)):
                if (self.m_tags[t] & mask) + tags.count(t) > mask:
                    wrap = True
                    self.hit("tag_wrap")
            if len(tags) != len(set(tags)):
                self.hit("same_tag_multi_way")
            if len(set(tags)) >= 2:
                self.hit("diff_tags_same_cycle")
            if tags and self.enabled:
                f = self.facts
                self.hit(f"form_{f['tag_form']}_counted")
                if f["flavor"] in ("py_enum", "py_flag", "py_intflag", "am_intflag", "am_flag"):
                    self.hit(f"flavor_{f['flavor']}_counted")
                if f["tag_form"] == "range" and self.tagvals[0] != 0:
                    self.hit("range_nonzero_start_counted")
                if any(t < 0 for t in tags):
                    self.hit("negative_tag_counted")
                if f["one_hot"]:
                    self.hit("onehot_sparse_counted" if f["sparse"] else "onehot_dense_counted")
            for t in tags:
                self.m_tags[t] += 1
            self.visit(("tagged", len(self.tagvals), tuple(sorted(a for _, a in calls)), wrap),
                       nontrivial=n >= 2 or wrap)
        else:
            samples = [a for _, a in calls]
            for a in samples:
                self.premise(0 <= a < (1 << self.sw), "sample does not fit the sample width")
            ev = self.m_hist.add_cycle(samples)
            for name in ev:
                self.hit("hist_" + name)
            if samples and self.enabled:
                bc, csw = self.cfg["bucket_count"], self.cfg["sample_width"]
                if bc <= 2:
                    self.hit("hist_one_bucket_sampled" if bc == 1 else "hist_two_buckets_sampled")
                    if bc == 1 and any(samples):
                        self.hit("hist_one_bucket_nonzero_sample")
                if csw is None:
                    self.hit("hist_default_sample_width_sampled")
                    if max(samples) >> 16:
                        self.hit("hist_sample_above_16_bits")
                elif csw <= 2:
                    self.hit("hist_sample_width_1_2_sampled")
                elif csw >= 7:
                    self.hit("hist_sample_width_7_16_sampled")
                if bc > self.sw + 1:
                    self.hit("hist_more_buckets_than_sample_bits")
                if self.ways > 3:
                    self.hit("hist_ways_gt3_sampled")
                    if len(samples) > 3:
                        self.hit("hist_more_than_3_samples_same_cycle")
            from ..models.metrics_model import bucket_of

            self.visit(("hist", self.cfg["bucket_count"], self.cfg["sample_width"],
                        tuple(sorted(bucket_of(a, self.cfg["bucket_count"]) for a in samples)), tuple(sorted(ev))),
                       nontrivial=bool(ev))

    @property
    def facts(self):
        if not hasattr(self, "_facts"):
            self._facts = tag_facts(self.cfg["tags"])
        return self._facts


# --------------------------------------------------------------------------------------------
# configuration generator


def _members(vals):
    return [[f"T{v}" if v >= 0 else f"TM{-v}", v] for v in vals]


# enum flavours for sets of powers of two (Flag / IntFlag classes list only single-bit members when iterated)
_ONEHOT_FLAVORS = ["py_int", "py_intflag", "am_int", "am_intflag", "am_flag", "am_enum", "py_enum", "py_flag"]


def gen_tags(rng):
    r = rng.random()
    cls = "sparse" if r < 0.10 else "dense" if r < 0.35 else "generic"
    form = rng.choice(["range", "enum", "list"])
    if cls == "dense":  # {1, 2, 4, ...} without gaps: the one-hot path as the repository's tests use it
        n = rng.randint(1, 4)
        vals = [1 << i for i in range(n)]
        if form == "range" and n > 2:
            form = rng.choice(["enum", "list"])
        if form == "range":
            return {"form": "range", "args": [1, n + 1, 1]}
        if form == "list":
            rng.shuffle(vals)
            return {"form": "list", "values": vals}
        fl = rng.choice(_ONEHOT_FLAVORS)
        t = {"form": "enum", "flavor": fl, "members": _members(vals), "shape": None}
        if fl in ("am_flag", "am_enum") and rng.random() < 0.6:
            t["shape"] = [0, n]
        return t
    if cls == "sparse":  # only powers of two, but fewer tags than tag bits (gaps, or a wider declared shape)
        if form == "range":
            return {"form": "range", "args": rng.choice([[2, 3, 1], [4, 5, 1], [2, 5, 2], [4, 9, 4], [8, 17, 8], [8, 9, 1]])}
        while True:
            vals = [1 << i for i in range(5) if rng.random() < 0.45]
            if vals and vals != [1 << i for i in range(len(vals))]:
                break
            if vals and form == "enum" and rng.random() < 0.5:
                break  # a dense set, declared with a wider shape below
        if form == "list":
            rng.shuffle(vals)
            return {"form": "list", "values": vals}
        dense = vals == [1 << i for i in range(len(vals))]
        if dense:
            return {"form": "enum", "flavor": rng.choice(["am_flag", "am_enum"]), "members": _members(vals),
                    "shape": [0, len(vals) + rng.randint(1, 2)]}
        fl = rng.choice(_ONEHOT_FLAVORS)
        t = {"form": "enum", "flavor": fl, "members": _members(vals), "shape": None}
        if fl in ("am_flag", "am_enum") and rng.random() < 0.4:
            t["shape"] = [0, max(vals).bit_length() + rng.randint(0, 1)]
        return t
    # generic: anything that is not made of powers of two only
    for _ in range(100):
        if form == "range":
            start, ln, step = rng.randint(-9, 9), rng.randint(1, 6), rng.randint(1, 3)
            t = {"form": "range", "args": [start, start + ln * step, step]}
        else:
            pool = list(range(-20, 41))
            vals = rng.sample(pool, rng.randint(1, 6))
            if rng.random() < 0.3:  # zero / a negative value next to powers of two: must not take the one-hot path
                vals = rng.sample([1, 2, 4, 8, 16], rng.randint(1, 3)) + [rng.choice([0, 0, -1, -4, 3, 6])]
                rng.shuffle(vals)
            if form == "list":
                t = {"form": "list", "values": vals}
            else:
                neg = min(vals) < 0
                fl = rng.choice(["py_int", "am_int", "am_enum", "py_enum"])
                t = {"form": "enum", "flavor": fl, "members": _members(vals), "shape": None}
                # (an amaranth Enum with an explicit *signed* shape cannot be a struct field at all in amaranth
                # 0.5.9 -- "EnumView target must have the same shape" -- so explicit shapes are unsigned only)
                if fl == "am_enum" and not neg and rng.random() < 0.5:
                    t["shape"] = [0, tag_bits(t) + rng.randint(0, 2)]
        if not tag_facts(t)["one_hot"]:
            return t
    return {"form": "range", "args": [0, 3, 1]}


def gen_groups(rng, ways):
    groups = [[0]]
    for k in range(1, ways):
        if rng.random() < 0.5:
            groups[-1].append(k)
        else:
            groups.append([k])
    return groups


class Prop(PropBase):
    ID = "C31"
    tiers = {
        "quick": {"runs": 4000, "selftest_runs": 4, "run_budget_s": 120},
        "thorough": {"runs": 40000, "selftest_runs": 32},
    }
    rule = ("one run = one metric kind (HwCounter / TaggedCounter / HwExpHistogram) in one configuration (ways 1-4, histogram "
            "up to 6; register width 1-6 mostly so registers wrap, 8 / 32, or not passed = the documented default of 32 bits, "
            "which is also checked on the registers themselves; tag set of one of the three documented forms incl. negative "
            "values, one-hot sets with and without gaps, int / plain / flag enums of the standard library and of amaranth; "
            "bucket count 1-17 x sample width 1-16 or the default 32; metrics enabled or disabled, grouping of the "
            "ways into calling transactions, calls made from a transaction body or from a method body one or two levels "
            "below it, optional second caller of way 0) driven for 50-200 cycles by a seeded phase "
            "plan (random / burst / idle / single / extremes); distinct = distinct (metric, configuration class, register "
            "state class, multiset of executed calls); non-trivial = two or more calls in one cycle, a register wrapped, "
            "or a histogram boundary event (new min/max, bucket boundary sample, last bucket, sum wrap)")
    expected_cov = ["counter_wrap", "multi_way_same_cycle", "all_ways_same_cycle", "ec_masked_call", "tag_wrap",
                    "same_tag_multi_way", "diff_tags_same_cycle", "negative_tag_counted", "form_range_counted",
                    "form_enum_counted", "form_list_counted", "onehot_dense_counted", "hist_sum_wrap", "hist_count_wrap",
                    "hist_bucket_wrap", "hist_new_min", "hist_new_max", "hist_multi", "hist_multi_minmax",
                    "hist_same_bucket_multi", "hist_last_bucket", "hist_beyond_last_bucket_start", "hist_zero_sample",
                    "hist_bucket_lower_bound", "hist_bucket_upper_bound", "hist_max_sample", "contention_both_requested",
                    "disabled_call_accepted", "disabled_no_hardware_checked", "cfg_counter_disabled",
                    "cfg_tagged_disabled", "cfg_hist_disabled", "call_from_method_body", "call_from_nested_method_body",
                    "default_register_width_checked", "default_width_counted", "register_width_checked",
                    "narrow_register_counted", "flavor_py_enum_counted", "flavor_py_flag_counted", "flavor_py_intflag_counted",
                    "range_nonzero_start_counted", "onehot_sparse_counted", "hist_one_bucket_sampled",
                    "hist_one_bucket_nonzero_sample", "hist_two_buckets_sampled", "hist_default_sample_width_sampled",
                    "hist_sample_above_16_bits", "hist_sample_width_1_2_sampled", "hist_sample_width_7_16_sampled",
                    "hist_more_buckets_than_sample_bits", "hist_ways_gt3_sampled", "hist_more_than_3_samples_same_cycle"]
    real = ["transactron.lib.metrics.HwCounter", "transactron.lib.metrics.TaggedCounter",
            "transactron.lib.metrics.HwExpHistogram", "HwMetricsEnabledKey via the run's DependencyManager",
            "Transaction / Method / def_methods", "TransactionManager + scheduler", "amaranth pysim"]
    stubs = ["calling transactions (request bit, enable_call bit and argument per call driven by the cycle driver)",
             "integer models modulo register width"]
    assumptions = ["a call executed in cycle t is visible in the metric registers from cycle t+1; histogram bucket boundaries, "
                   "min / max / sum / count as documented in the class docstrings"]
    search_space = ("metric configurations (ways, widths, tag sets of all documented forms, bucket layouts, enabled/disabled) "
                    "and per-cycle sets of executed calls with their tags / samples")

    def gen_config(self, rng, tier, idx):
        big = tier == "thorough"
        r = rng.random()
        metric = "counter" if r < 0.2 else "tagged" if r < 0.62 else "hist"
        enabled = rng.random() < 0.88
        ways = rng.randint(1, 3 if metric == "hist" else 4)
        if metric == "hist" and rng.random() < 0.12:
            ways = rng.randint(4, 6)
        # register width: 1-2 bits (wraps every other call), 3-6 (wraps within a run), 8 / 32 explicit, or the argument
        # is not passed at all (None: the documented default of 32 bits)
        r = rng.random()
        width = rng.choice([1, 2]) if r < 0.12 else rng.choice([3, 4, 5, 6]) if r < 0.75 else rng.choice([8, 32]) if r < 0.85 \
            else None
        groups = gen_groups(rng, ways)
        cfg = {"metric": metric, "enabled": enabled, "explicit_key": bool(rng.random() < 0.5), "ways": ways, "width": width,
               "groups": groups, "contend": bool(rng.random() < 0.2)}
        # a share of the calling transactions call the metric from the body of a Method (1 or 2 levels down)
        via = [0] * len(groups)
        if rng.random() < 0.3:
            via = [rng.choice([0, 1, 1, 2]) for _ in groups]
        cfg["via_method"] = via
        if metric == "tagged":
            cfg["tags"] = gen_tags(rng)
        if metric == "hist":
            r = rng.random()
            cfg["bucket_count"] = 1 if r < 0.08 else 2 if r < 0.16 else rng.randint(2, 6) if r < 0.92 else rng.choice([7, 8, 12, 17])
            r = rng.random()
            cfg["sample_width"] = rng.randint(1, 2) if r < 0.14 else rng.randint(3, 6) if r < 0.62 else \
                rng.randint(7, 16) if r < 0.9 else None  # None: not passed, the default of 32 bits
            cfg["drift"] = rng.choice(["none", "down", "up", "spread"])
            cfg["drift_len"] = rng.randint(10, 80)
        cycles = rng.randint(*((100, 600) if big else (50, 200))) if enabled else rng.randint(10, 40)
        cfg["cycles"] = cycles
        cfg["sched"] = rng.choice(["eager", "eager", "rr"])
        cfg["plan"] = make_plan(rng, cycles, ["random", "random", "burst", "idle", "single", "extremes"])
        return cfg

    def make(self, cfg):
        return Scen(cfg)

    def features(self, cfg, viol):
        info = viol.get("info") or {}
        f = {"kind": viol.get("kind"), "metric": cfg["metric"], "enabled": cfg["enabled"], "ways": cfg["ways"],
             "tag_form": None, "flavor": None, "one_hot": False, "gaps": False, "sparse": False,
             "exc": info.get("exc"), "where": info.get("where"), "reg": info.get("reg")}
        if cfg["metric"] == "tagged":
            f.update(tag_facts(cfg["tags"]))
        if cfg["metric"] == "hist":
            f.update({"bucket_count": cfg["bucket_count"], "sample_width": cfg["sample_width"]})
        f["default_width"] = cfg["width"] is None
        f["via_method"] = any(cfg.get("via_method") or [])
        return f

    def violation_class(self, feats):
        return {k: feats.get(k) for k in ("kind", "metric", "enabled", "tag_form", "one_hot", "gaps", "sparse", "exc")}

    def cfg_signature(self, cfg):
        return {k: v for k, v in cfg.items() if k not in ("plan", "cycles", "drift_len")}

    def shrink_cfg(self, cfg):
        via = list(cfg.get("via_method") or [])
        via += [0] * (len(cfg["groups"]) - len(via))
        if any(via):  # all calls made from transaction bodies
            c = dict(cfg)
            c["via_method"] = [0] * len(cfg["groups"])
            yield c
        if cfg["ways"] > 1:  # drop the last way
            c = dict(cfg)
            c["ways"] = cfg["ways"] - 1
            gs = [[k for k in g if k < c["ways"]] for g in cfg["groups"]]
            c["groups"] = [g for g in gs if g]
            c["via_method"] = [v for g, v in zip(gs, via) if g]
            yield c
        if len(cfg["groups"]) > 1:  # one transaction calls everything
            c = dict(cfg)
            c["groups"] = [list(range(cfg["ways"]))]
            c["via_method"] = [max(via)]
            yield c
        if cfg.get("contend"):
            c = dict(cfg)
            c["contend"] = False
            yield c
        if cfg["sched"] != "eager":
            c = dict(cfg)
            c["sched"] = "eager"
            yield c
        if cfg["metric"] == "tagged":
            t = cfg["tags"]
            vals = tag_values(t)
            if t["form"] != "range" and len(vals) > 1:
                for drop in range(len(vals)):
                    c = dict(cfg)
                    t2 = dict(t)
                    if t["form"] == "list":
                        t2["values"] = vals[:drop] + vals[drop + 1:]
                    else:
                        t2["members"] = t["members"][:drop] + t["members"][drop + 1:]
                    c["tags"] = t2
                    yield c
            if t["form"] == "enum" and t.get("flavor") != "py_int" and t.get("shape") is None:
                c = dict(cfg)
                c["tags"] = dict(t, flavor="py_int")
                yield c
        if cfg["metric"] == "hist" and cfg.get("drift", "none") != "none":
            c = dict(cfg)
            c["drift"] = "none"
            yield c


PROP = Prop()
