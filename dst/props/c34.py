"""C34 — hardware logs and assertions fire exactly when triggered.

A stub design (dst/models/ctxprog.py: real TModule / Transaction / Method / def_method) places 2..5
HardwareLogger sites (debug / info / warning / error / assertion, method and module-level short
forms) in transaction bodies, method bodies and under m.If / m.Switch; format strings come from a
table of PEP-3101 specifications; triggers, asserted values and fields are free inputs.  The
library's own simulation logging process (`transactron.testing.logging.make_logging_process`) runs
next to the cycle driver with a capturing Python `logging` handler.

Oracle, per cycle: reported records == {site : trigger ∧ module context active} (restricted to the
level / namespace the process was created for), the message ends with Python's `str.format` of the
sampled values (what the library puts in front of it -- the `[file:line] ` prefix -- is not judged),
record cycle (the library's `_sim_cycle`) == the cycle.  `on_error` is called in exactly the cycles
with an ERROR-level record / failed assertion (how often within the cycle, and whether before or after
the record reaches the handler, is only counted).  In "fatal" runs `on_error` raises,
as the library's TestCase does ("Simulation finished due to an error"): the failure must leave the
library's process in exactly the first cycle with an ERROR-level record, and in no run without one.

Entry points: every site uses one of HardwareLogger.debug/info/warning/error/log/assertion, the module-level
assertion(), or -- "top" sites -- HardwareLogger.top_debug/top_info/top_warning/top_error/top_log/top_assertion
and the module-level top_assertion(); a top site is documented to ignore m.If etc., so its record is expected
in exactly the cycles where its trigger holds, whatever the enclosing context does.  Levels are the five
standard ones or a custom integer (log / top_log): a level >= ERROR ends the simulation, a lower one does not.
Contexts (dst/models/ctxprog.py) include m.AvoidedIf and m.FSM / m.State in a share of the runs.

In a share of the fatal runs the logging process and its on_error are the ones the library's own
TestCaseWithSimulatorBase._configure_logging() builds (level and filter given through the environment
variables it reads, parsed by parse_logging_level): the AssertionError of *that* on_error must leave the
process.  In a share of the runs the design is additionally wrapped in HDLLogWrapper /
HDLLogWrapperComponent and everything pysim prints for its `Print` statements is captured: per cycle the
printed record lines are exactly the expected records (logger name and formatted message; separator lines,
level names, cycle numbers and locations are only counted).
"""

from __future__ import annotations

import logging
import os
import re

from ..comp import CompScenario
from ..kernel import Inconclusive
from ..models.ctxprog import CtxDesign, CtxEval, gen_ctx_stim, gen_prog, running_arg, to_signed
from ..propbase import PropBase, make_plan, phase_at

ROOT_NS = "c34v"
GLOBAL = 3  # the logger the module-level assertion() / top_assertion() use when no name= is given
LOGGERS = ["c34v.core", "c34v.core.alu", "c34v.mem", "global"]
LEVELS = {"debug": logging.DEBUG, "info": logging.INFO, "warning": logging.WARNING, "error": logging.ERROR,
          "assert": logging.ERROR}
CUSTOM_LEVELS = [5, 15, 25, 35, 39, 41, 45, 50, 60]  # level "custom": passed as an integer to log / top_log
ENV_LEVEL, ENV_FILTER = "__TRANSACTRON_LOG_LEVEL", "__TRANSACTRON_LOG_FILTER"
SEP_RE = re.compile(r"--- CYCLE (\d+) ---")
INT_SPECS = ["", "", "d", "x", "X", "b", "o", "03d", "08b", "#x", "#b", "#o", "#X", "+d", " d", "-d", ">6", "<6x",
             "*>8d", "0=6d", "=+5d", "_d", "_x", "_b", "5", "#06x", "+#x", "#010_b", "x<4", "=7x", "1", "012_d", "#_X"]
STR_SPECS = ["s", "s", ">6s", "<5s", "*<7s", "8s", "_>3s"]
CHR_SPECS = ["c", "c", ">3c", "#<2c"]
LITERALS = ["", " ", "=", ", ", " val ", "{{", "}}", "{{}}", "%", "%s %d", "[", "]:", "0x", "é", "\t"]


class SimFailure(AssertionError):
    """What the harness's on_error raises in fatal runs (the library's TestCase raises AssertionError)."""


class _Capture(logging.Handler):
    def __init__(self, scen):
        super().__init__(level=0)
        self.scen = scen

    def emit(self, record):
        import transactron.testing.logging as tl

        self.scen.captured.append((tl._sim_cycle, record.name, record.levelno, record.getMessage()))


def level_no(site):
    return site["lvlno"] if site["level"] == "custom" else LEVELS[site["level"]]


def is_top(site):
    return site.get("api") == "top"


def entry_point(site):
    """Name of the library function the site calls."""
    top = is_top(site)
    if site["level"] == "assert":
        if site.get("short"):
            return "module_top_assertion" if top else "module_assertion"
        return "top_assertion" if top else "assertion"
    if site.get("short") or site["level"] == "custom":
        return "top_log" if top else "log"
    return ("top_" if top else "") + site["level"]


class _PrintCapture:
    """Stands in for `print` inside the code pysim compiles for the design (HDLLogWrapper's Print statements)."""

    def __init__(self):
        self.chunks: list = []

    def __call__(self, *args, sep=" ", end="\n", **kw):
        self.chunks.append(sep.join(str(a) for a in args) + end)


def _component_top(top):
    """HDLLogWrapperComponent wants a Component: the container with an empty signature."""
    from amaranth.lib.wiring import Component

    class TopComponent(Component):
        def __init__(self, inner):
            super().__init__({})
            self.inner = inner

        def elaborate(self, platform):
            return self.inner.elaborate(platform)

    return TopComponent(top)


def build_format(site, k):
    """The site's PEP-3101 format string; the leading tag makes every message attributable to its site."""
    if site.get("nofmt"):
        return ""  # HardwareLogger.assertion(m, value): the documented default format
    out = [f"S{k}|"]
    for p in site["pieces"]:
        if p[0] == "lit":
            out.append(p[1])
            continue
        _, fi, spec = p
        ref = {"auto": "", "pos": str(fi), "kw": f"f{fi}"}[site["style"]]
        out.append("{" + ref + (":" + spec if spec else "") + "}")
    return "".join(out)


def ns_agrees(ns):
    """The namespace filter selects the same loggers whether it is applied with re.search, re.match or
    re.fullmatch (the statement does not say which one "within the namespace" means)."""
    return all(len({re.search(ns, n) is not None, re.match(ns, n) is not None, re.fullmatch(ns, n) is not None}) == 1
               for n in LOGGERS)


def rec_matches(got, want):
    """Same cycle, logger and level; the reported message ends with the expected formatted message."""
    return got[:3] == want[:3] and got[3].endswith(want[3])


def match_records(new, want, matches=rec_matches):
    """An injective assignment of the reported records to expected records (None if there is none)."""
    def go(i, free):
        if i == len(new):
            return []
        for j in free:
            if matches(new[i], want[j]):
                rest = go(i + 1, [x for x in free if x != j])
                if rest is not None:
                    return [j] + rest
        return None

    return go(0, list(range(len(want))))


def decode_str(v):
    bs = bytearray()
    while v:
        if v & 0xFF:
            bs.append(v & 0xFF)
        v >>= 8
    return bs.decode("ascii")


class Scen(CompScenario):
    # ---- design ---------------------------------------------------------------------------------
    def build(self):
        from amaranth import Signal, signed, unsigned
        from transactron.utils.dependencies import DependencyContext
        from transactron.utils.logging import HardwareLogger

        c = self.cfg
        self.dm = DependencyContext.get()
        self.sites = c["sites"]
        self.order: list = []
        self.loggers = [HardwareLogger(n) for n in LOGGERS]
        self.site_sig: dict = {}
        for k, s in enumerate(self.sites):
            sig = Signal(s["whenw"], name=f"s{k}_trig")
            self.site_sig[f"s{k}.trig"] = sig
            self.add_input(f"s{k}.trig", sig)
            for fi, f in enumerate(s["fields"]):
                src = f["src"]
                if src["kind"] in ("sig", "add", "slice", "str", "chr"):
                    sig = Signal(signed(src["w"]) if src.get("signed") else unsigned(src["w"]), name=f"s{k}_f{fi}")
                    self.site_sig[f"s{k}.f{fi}"] = sig
                    self.add_input(f"s{k}.f{fi}", sig)
        self.ev = CtxEval(c["prog"])
        self.design = CtxDesign(c["prog"], self._emit)
        for name, sig in self.design.sig.items():
            self.add_input(name, sig)
        for i, mod in enumerate(self.design.mods):
            self.top.add(f"mod{i}", mod)
        for j, meth in enumerate(self.design.meths):
            self.add_obs(f"m{j}.run", meth.run)

        self.captured: list = []  # (cycle, logger name, level, message) from the capturing handler
        self.seen = 0
        self.pending: list = []  # expected records of the previous cycle
        self.err_calls: list = []  # (cycle, number of records captured when on_error was called)
        self.err_seen = 0
        self.failed_at = None  # fatal runs: cycle in which the failure left the library's process
        self.ended = False
        self.any_error_expected = False
        self.handler = _Capture(self)
        for name in (ROOT_NS, LOGGERS[GLOBAL]):
            lg = logging.getLogger(name)
            for h in list(lg.handlers):
                lg.removeHandler(h)
            lg.propagate = False
            lg.setLevel(1)  # custom levels below DEBUG are records too
            lg.addHandler(self.handler)
        # Python-side logging configuration of the user: some loggers hushed (their records are dropped by Python's
        # logging and never reach a handler).  Whether a record is *shown* is the user's business; an ERROR-level
        # record still ends the simulation.  Levels are set for every logger in every run (nothing leaks between runs).
        self.hushed = set(c.get("hush") or [])
        for k, name in enumerate(LOGGERS):
            if name not in (ROOT_NS, LOGGERS[GLOBAL]):
                logging.getLogger(name).setLevel(logging.NOTSET)
        for k in sorted(self.hushed):
            logging.getLogger(LOGGERS[k]).setLevel(logging.CRITICAL + 20)

        # a share of the runs: the library's HDL back end prints the same records next to the logging process
        self.hdl = c.get("hdl")
        self.hdl_out = _PrintCapture()
        self.hdl_pending: list = []  # (logger name, level, message) expected from the wrapper for the previous cycle
        if self.hdl:
            from transactron.testing.logging import HDLLogWrapper, HDLLogWrapperComponent

            h = self.hdl
            kw = {}
            if not h.get("dflt"):
                kw = dict(print_cycle_separator=bool(h["sep"]), print_src_loc=bool(h["loc"]), level=c["min_level"],
                          namespace_regexp=c["ns"])
            if h.get("comp"):
                return HDLLogWrapperComponent(_component_top(self.top), **kw)
            return HDLLogWrapper(self.top, **kw)
        return self.top

    def _emit(self, m, k, env):
        from amaranth import Const
        from transactron.utils import logging as tlog

        s = self.sites[k]
        args = []
        for fi, f in enumerate(s["fields"]):
            src = f["src"]
            sig = self.site_sig.get(f"s{k}.f{fi}")
            kind = src["kind"]
            if kind in ("sig", "str", "chr"):
                v = sig
            elif kind == "add":
                v = sig + src["k"]
            elif kind == "slice":
                v = sig[src["lo"]:src["hi"]]
            elif kind == "const":
                v = Const(src["k"])
            elif kind == "pyconst":
                v = src["k"]
            elif kind == "arg":
                v = env["arg"].x
            elif kind == "sarg":
                v = env["arg"].x.as_signed()
            else:
                raise ValueError(kind)
            args.append(v)
        fmt = build_format(s, k)
        if s["style"] == "kw":
            pos, kw = [], {f"f{fi}": v for fi, v in enumerate(args)}
        else:
            pos, kw = args, {}
        self.order.append(k)
        log = self.loggers[s["logger"]]
        trig = self.site_sig[f"s{k}.trig"]
        if not s.get("defloc"):  # otherwise the default src_loc (the location of this call; not judged)
            kw["src_loc"] = (f"c34_site_{k}.py", 200 + k)
        ep = entry_point(s)
        if ep in ("module_assertion", "module_top_assertion"):
            if s["logger"] != GLOBAL:  # otherwise the documented default name="global"
                kw["name"] = LOGGERS[s["logger"]]
            if ep == "module_assertion":
                tlog.assertion(m, trig, fmt, *pos, **kw)
            else:
                tlog.top_assertion(trig, fmt, *pos, **kw)
        elif ep == "assertion":
            if s.get("nofmt"):
                log.assertion(m, trig, **kw)
            else:
                log.assertion(m, trig, fmt, *pos, **kw)
        elif ep == "top_assertion":
            log.top_assertion(trig, fmt, *pos, **kw)
        elif ep == "log":
            log.log(m, level_no(s), trig, fmt, *pos, **kw)
        elif ep == "top_log":
            log.top_log(level_no(s), trig, fmt, *pos, **kw)
        elif is_top(s):  # top_debug / top_info / top_warning / top_error: no module, not gated by the context
            getattr(log, ep)(trig, fmt, *pos, **kw)
        else:
            getattr(log, ep)(m, trig, fmt, *pos, **kw)

    def _library_logging_process(self):
        """The logging process exactly as TestCaseWithSimulatorBase sets it up for a test: level and filter
        from the environment (parse_logging_level), the library's own on_error."""
        from transactron.testing.test_case import TestCaseWithSimulatorBase

        lvl = self.cfg["min_level"]
        how = self.cfg.get("lvl_text", "num")
        text = str(lvl)
        if how != "num" and lvl in (logging.DEBUG, logging.INFO, logging.WARNING, logging.ERROR):
            text = logging.getLevelName(lvl)
            text = text.lower() if how == "lower" else text
            self.hit("library_level_given_by_name")
        saved = {k: os.environ.get(k) for k in (ENV_LEVEL, ENV_FILTER)}
        root = logging.getLogger()
        before = list(root.handlers)
        try:
            os.environ[ENV_LEVEL] = text
            os.environ[ENV_FILTER] = self.cfg["ns"]
            tc = TestCaseWithSimulatorBase()
            tc._transactron_sim_processes_to_add = []
            with tc._configure_logging():
                makers = list(tc._transactron_sim_processes_to_add)
        finally:
            root.handlers[:] = before
            for k, v in saved.items():
                if v is None:
                    os.environ.pop(k, None)
                else:
                    os.environ[k] = v
        if len(makers) != 1:
            raise RuntimeError(f"_configure_logging registered {len(makers)} processes")
        return makers[0]()

    def post_elab(self, tm):
        from transactron.testing.logging import make_logging_process
        from transactron.testing.tick_count import make_tick_count_process
        from transactron.utils.dependencies import DependencyContext
        from transactron.utils.logging import get_log_records

        super().post_elab(tm)
        DependencyContext.stack.append(self.dm)  # the library's processes look it up while the simulation runs
        for i, tr in sorted(self.design.trans.items()):
            self.add_obs(f"t{i}.run", tr.run)
        tick = make_tick_count_process()
        records = get_log_records(0)
        self.expect(len(records) == len(self.sites) == len(self.order), "registration-mismatch",
                    f"{len(records)} log records registered for {len(self.order)} log statements")
        for idx, k in enumerate(self.order):
            s = self.sites[k]
            r = records[idx]
            self.expect(r.logger_name == LOGGERS[s["logger"]] and r.level == level_no(s)
                        and (s.get("defloc") or tuple(r.location) == (f"c34_site_{k}.py", 200 + k)),
                        "registration-mismatch",
                        f"record {idx} ({entry_point(s)}): logger {r.logger_name!r} level {r.level} at {r.location}, "
                        f"the statement says logger {LOGGERS[s['logger']]!r} level {level_no(s)}", site=k,
                        entry=entry_point(s))
            self.add_obs(f"site{idx}.trig", r.trigger)
            for n, v in enumerate(r.fields):
                self.add_obs(f"site{idx}.f{n}", v)

        fatal = self.cfg["fatal"]
        scen = self

        def on_error():
            import transactron.testing.logging as tl

            scen.err_calls.append((tl._sim_cycle, len(scen.captured)))
            if fatal:
                raise SimFailure("Simulation finished due to an error")

        self.real_tc = bool(self.cfg.get("real_tc"))
        if self.real_tc:
            log_process = self._library_logging_process()
        else:
            log_process = make_logging_process(self.cfg["min_level"], self.cfg["ns"], on_error)

        async def guarded(sim):
            # The kernel cannot accept an exception out of sim.run() as an expected outcome, so the failure is
            # taken where it leaves the library's coroutine (from there Amaranth hands it to sim.run()).
            import transactron.testing.logging as tl

            try:
                await log_process(sim)
            except AssertionError:  # SimFailure of the stub, or what the library's own on_error raises
                scen.failed_at = tl._sim_cycle

        self.extra_processes = [("process", guarded), ("process", tick)]
        self.premise(ns_agrees(self.cfg["ns"]),
                     f"namespace filter {self.cfg['ns']!r}: re.search / re.match / re.fullmatch select different loggers")
        self.included = [level_no(self.sites[k]) >= self.cfg["min_level"]
                         and re.search(self.cfg["ns"], LOGGERS[self.sites[k]["logger"]]) is not None for k in self.order]
        self.hdl_included = [False] * len(self.order)
        if self.hdl:
            self.hdl_included = [True] * len(self.order) if self.hdl.get("dflt") else list(self.included)
            # pysim executes a Print statement as a call of `print` in the code it compiled for the fragment
            n = 0
            for proc in self.sim._engine._processes:
                g = getattr(getattr(proc, "run", None), "__globals__", None)
                if g is not None and "slots" in g:
                    g["print"] = self.hdl_out
                    n += 1
            if not n:
                raise RuntimeError("no compiled pysim process found to capture Print output from")

    # ---- stimulus ------------------------------------------------------------------------------
    def stimulus(self, rng, cyc):
        if self.ended:
            return {}
        kind, p = phase_at(self.cfg["plan"], cyc)
        ctx_kind = {"random": "random", "on": "on", "off": "off", "quiet": "on", "flap": "flap"}[kind]
        stim = gen_ctx_stim(rng, self.cfg["prog"], ctx_kind, p)
        pfire = {"random": p, "on": 0.9, "off": 0.9, "quiet": 0.05, "flap": 0.5}[kind]
        for k, s in enumerate(self.sites):
            q = pfire
            if level_no(s) >= logging.ERROR:
                q = min(q, self.cfg["perr"])  # error sites fire rarely when a failure ends the run
            fire = rng.random() < q
            nz = rng.randrange(1, 1 << s["whenw"])
            stim[f"s{k}.trig"] = (0 if fire else nz) if s["level"] == "assert" else (nz if fire else 0)
            for fi, f in enumerate(s["fields"]):
                src = f["src"]
                name = f"s{k}.f{fi}"
                if src["kind"] == "str":
                    v = 0
                    for b in range(src["w"] // 8):
                        if rng.random() < 0.8:
                            v |= rng.randrange(0x20, 0x7F) << (8 * b)
                    stim[name] = v
                elif name in self.widths:
                    stim[name] = self.rnd(rng, name) if rng.random() < 0.8 else (1 << (self.widths[name] - 1))
        return stim

    # ---- oracle --------------------------------------------------------------------------------
    def _field_value(self, k, fi, stim, obs, meth):
        src = self.sites[k]["fields"][fi]["src"]
        kind = src["kind"]
        if kind in ("sig", "add", "slice", "str", "chr"):
            raw = stim.get(f"s{k}.f{fi}", 0) & ((1 << src["w"]) - 1)
            v = to_signed(raw, src["w"]) if src.get("signed") else raw
            if kind == "add":
                return v + src["k"]
            if kind == "slice":
                return (raw >> src["lo"]) & ((1 << (src["hi"] - src["lo"])) - 1)
            if kind == "str":
                self.premise(all(((raw >> (8 * b)) & 0xFF) < 0x80 for b in range(src["w"] // 8)),
                             f"s{k}.f{fi}: packed text is not ASCII")
                return decode_str(raw)
            return v
        if kind in ("const", "pyconst"):
            return src["k"]
        a = running_arg(self.cfg["prog"], meth, stim, obs)
        if a is None:
            raise Inconclusive(f"method m{meth} runs without exactly one running caller")
        w = self.cfg["prog"]["meths"][meth]["argw"]
        return to_signed(a, w) if kind == "sarg" else a

    def _compare_reported(self, cycle):
        """Everything the library reported since the last look belongs to `cycle` and equals the
        expected records of that cycle; on_error calls match the ERROR-level records."""
        new = self.captured[self.seen:]
        base = self.seen
        self.seen = len(self.captured)
        calls = self.err_calls[self.err_seen:]
        self.err_seen = len(self.err_calls)
        want_all = self.pending
        self.pending = []
        want_err = [r for r in want_all if r[2] >= logging.ERROR]
        # what a handler can see: records of loggers the (simulated) user hushed in Python's logging are dropped there
        want = [r for r in want_all if logging.getLogger(r[1]).isEnabledFor(r[2])] if self.hushed else want_all
        if len(want) != len(want_all):
            self.hit("record_hushed_by_python_logging_configuration")
        fatal = self.cfg["fatal"]

        for r in new:
            self.expect(r[0] == cycle, "report-wrong-cycle", f"record stamped cycle {r[0]} reported in cycle {cycle}: {r!r}")
        for cyc, n in calls:
            self.expect(cyc == cycle, "on-error-mismatch", f"on_error called with cycle stamp {cyc} in cycle {cycle}")
            last = self.captured[n - 1] if n > base else None
            if last is None or last[2] < logging.ERROR:
                self.hit("on_error_not_right_after_its_record")  # order relative to the handler: not stated
        if len(calls) != len(want_err):
            self.hit("on_error_calls_differ_from_error_record_count")  # judged per cycle, not per record
        if fatal and want_err:
            # the run ends here: at least the first ERROR-level record was reported, nothing unexpected was
            self.expect(self.failed_at == cycle, "failure-missing",
                        f"cycle {cycle}: ERROR-level record(s) {want_err!r} but the failure did not end the library's "
                        f"process (failed_at={self.failed_at}, "
                        + ("on_error built by the library's test case" if self.real_tc else f"on_error calls {calls}") + ")",
                        level="/".join(sorted({logging.getLevelName(r[2]) for r in want_err})), real_tc=self.real_tc)
            if self.real_tc:
                self.hit("library_on_error_ended_run")
            else:
                self.expect(bool(calls), "on-error-mismatch", f"cycle {cycle}: no on_error call before the end")
            self.expect(match_records(new, want) is not None, "report-mismatch",
                        f"cycle {cycle}: reported {new!r}, trigger∧context gives {want!r}")
            if all(r in want for r in want_err):  # (a hushed one may be the one that ended the run)
                self.expect(bool(new) and new[-1][2] >= logging.ERROR, "report-mismatch",
                            f"cycle {cycle}: the failure was not preceded by its ERROR-level record: {new!r}")
            else:
                self.hit("hushed_error_record_ended_run")
            self.ended = True
            self.hit("failure_ended_run")
            return
        self.expect(self.failed_at is None, "spurious-failure",
                    f"cycle {cycle}: the run failed (failed_at={self.failed_at}) without an ERROR-level record; "
                    f"expected records {want!r}")
        self.expect(len(new) == len(want) and match_records(new, want) is not None, "report-mismatch",
                    f"cycle {cycle}: reported {sorted(new)!r}, trigger∧context gives {sorted(want)!r} "
                    f"(messages are compared without the location prefix)")
        self.expect(bool(calls) == bool(want_err), "on-error-mismatch",
                    f"cycle {cycle}: {len(calls)} on_error call(s) for {len(want_err)} ERROR-level record(s); records {new!r}",
                    level="/".join(sorted({logging.getLevelName(r[2]) for r in new})))
        if want_err:
            self.hit("on_error_called", len(want_err))
        if len(want_err) >= 2:
            self.hit("two_errors_same_cycle")

    def _compare_hdl(self, cycle):
        """What pysim printed for HDLLogWrapper's Print statements at the clock edge that ended `cycle`: one
        piece of output (one executed Print statement = one call of `print`; a message may contain newlines)
        per expected record, ending with "<logger name>: <formatted message>".  The separator line, the level
        name, the cycle number and the location in front of that are not in the statement: counted."""
        pieces = list(self.hdl_out.chunks)
        del self.hdl_out.chunks[:]
        want = self.hdl_pending
        self.hdl_pending = []
        sep = bool(self.hdl.get("dflt") or self.hdl["sep"])  # the wrapper's default: separator lines
        recs, nsep = [], 0
        for ln in pieces:
            if ln.endswith("\n"):
                ln = ln[:-1]
            else:
                self.hit("hdl_output_without_final_newline")
            mm = SEP_RE.fullmatch(ln) if sep else None
            if mm:
                nsep += 1
                if int(mm.group(1)) != cycle:
                    self.hit("hdl_separator_cycle_differs")
            else:
                recs.append(ln)
        assign = match_records(recs, want, lambda ln, w: ln.endswith(f"{w[0]}: {w[2]}"))
        self.expect(len(recs) == len(want) and assign is not None, "hdl-print-mismatch",
                    f"cycle {cycle}: HDLLogWrapper printed {recs!r}, trigger∧context gives {want!r} "
                    f"(compared: '<logger>: <message>' at the end of the line)")
        for ln, j in zip(recs, assign):
            self.hit("hdl_record_printed")
            name = logging.getLevelName(want[j][1])
            if not (ln.startswith(name + " ") if sep else ln.startswith(f"[{cycle}] {name} ")):
                self.hit("hdl_line_prefix_differs")
        if sep and nsep != (1 if want else 0):
            self.hit("hdl_separator_count_differs")
        if self.hdl.get("comp"):
            self.hit("hdl_wrapper_component")

    def check(self, cyc, stim, obs):
        if self.ended:
            return
        if cyc > 0:
            if self.hdl:
                self._compare_hdl(cyc - 1)
            self._compare_reported(cyc - 1)
            if self.ended:
                return
        ctx = self.ev.step(stim, obs)
        fired = []
        ctxsig = []
        for idx, k in enumerate(self.order):
            s = self.sites[k]
            c = ctx[k]
            active = c["body"] and c["cond"]
            top = is_top(s)  # documented: "The top_* logging functions ignore m.If etc. for triggering"
            val = bool(stim.get(f"s{k}.trig", 0) & ((1 << s["whenw"]) - 1))
            trig = (not val) if s["level"] == "assert" else val
            fire = trig and (active or top)
            got_t = obs[f"site{idx}.trig"]
            self.expect(got_t == int(fire), "trigger-mismatch",
                        f"site {idx} ({entry_point(s)}): trigger signal {got_t}, but trigger={int(trig)} "
                        f"body-runs={int(c['body'])} branches-selected={int(c['cond'])}"
                        + (" (a top_* site: not gated by its context)" if top else ""), site=k,
                        where=self.cfg["where"][str(k)][0], entry=entry_point(s))
            ctxsig.append((int(c["body"]), int(c["cond"]), int(trig)))
            if not fire:
                if trig:
                    self.hit("context_blocks_trigger")
                    self.hit("body_not_running_blocks" if not c["body"] else "branch_not_selected_blocks")
                    if s["level"] == "assert":
                        self.hit("failed_assertion_outside_context")
                    if c["fsm"] is False:
                        self.hit("fsm_state_blocks")
                    if c["av"] is False:
                        self.hit("avoided_if_blocks")
                continue
            fired.append(idx)
            if top and not active:
                self.hit("top_site_fires_outside_context")
            if not self.included[idx] and not self.hdl_included[idx]:
                self.hit("filtered_by_level_or_namespace")
                continue
            vals = [self._field_value(k, fi, stim, obs, c["meth"]) for fi in range(len(s["fields"]))]
            fmt = build_format(s, k)
            if s["style"] == "kw":
                msg = fmt.format(**{f"f{fi}": v for fi, v in enumerate(vals)})
            else:
                msg = fmt.format(*vals)
            if self.hdl_included[idx]:
                self.hdl_pending.append((LOGGERS[s["logger"]], level_no(s), msg))
            if not self.included[idx]:
                self.hit("filtered_by_level_or_namespace")
                continue
            self.pending.append((cyc, LOGGERS[s["logger"]], level_no(s), msg))
            self.hit(f"level_{s['level']}")
            self.hit(f"entry_{entry_point(s)}")
            if s["level"] == "custom":
                self.hit("custom_level_at_or_above_error" if level_no(s) >= logging.ERROR else "custom_level_below_error")
            if s["logger"] == GLOBAL:
                self.hit("default_logger_name_global")
            if s.get("nofmt"):
                self.hit("default_empty_format")
            if s.get("defloc"):
                self.hit("default_src_loc")
            if active and c["fsm"]:
                self.hit("fired_in_fsm_state")
            if active and c["av"]:
                self.hit("fired_under_avoided_if")
            if level_no(s) >= logging.ERROR:
                self.any_error_expected = True
            for fi, v in enumerate(vals):
                kind = s["fields"][fi]["src"]["kind"]
                if isinstance(v, int) and v < 0:
                    self.hit("signed_negative_value")
                if kind == "str":
                    self.hit("string_field")
                if kind in ("arg", "sarg"):
                    self.hit("method_argument_field")
            if not active:
                continue
            if c["meth"] is not None:
                self.hit("fired_in_method_body")
            elif self.cfg["where"][str(k)][0] == "trans":
                self.hit("fired_in_transaction_body")
        if len(fired) >= 2:
            self.hit("several_records_same_cycle")
        if not fired:
            self.hit("cycle_without_record")
        self.ncyc = cyc + 1
        self.visit((tuple(ctxsig), tuple(fired)), nontrivial=len(fired) >= 2 or any(t and not (b and c) for b, c, t in ctxsig))

    def finish(self):
        if not self.ended:
            if self.hdl:
                self._compare_hdl(self.ncyc - 1)
            self._compare_reported(self.ncyc - 1)
        if not self.cfg["fatal"]:
            self.hit("run_without_failure")
        elif not self.any_error_expected:
            self.hit("fatal_run_without_error_record")

    def after_sim(self):
        for name in (ROOT_NS, LOGGERS[GLOBAL]):
            logging.getLogger(name).removeHandler(self.handler)
        for name in LOGGERS:
            logging.getLogger(name).setLevel(1 if name in (ROOT_NS, LOGGERS[GLOBAL]) else logging.NOTSET)
        self.notes["records"] = len(self.captured)
        self.notes["failed_at"] = self.failed_at


# ---------------------------------------------------------------------------------------------------


def _gen_field(rng, argw):
    r = rng.random()
    if argw and r < 0.25:
        return {"kind": rng.choice(["arg", "sarg"])}, "int"
    if r < 0.55:
        return {"kind": "sig", "w": rng.randint(1, 16), "signed": int(rng.random() < 0.45)}, "int"
    if r < 0.65:
        return {"kind": "add", "w": rng.randint(1, 8), "signed": int(rng.random() < 0.5), "k": rng.choice([-5, -1, 1, 3, 200])}, "int"
    if r < 0.72:
        w = rng.randint(3, 12)
        lo = rng.randrange(0, w - 1)
        return {"kind": "slice", "w": w, "signed": int(rng.random() < 0.3), "lo": lo, "hi": rng.randint(lo + 1, w)}, "int"
    if r < 0.78:
        return {"kind": "const", "k": rng.choice([0, 5, 255, -1, -7])}, "int"
    if r < 0.82:
        return {"kind": "pyconst", "k": rng.choice([0, 7, -3, 1000])}, "int"
    if r < 0.93:
        return {"kind": "str", "w": rng.choice([8, 16, 24, 32])}, "str"
    return {"kind": "chr", "w": 7}, "chr"


class Prop(PropBase):
    ID = "C34"
    tiers = {
        "quick": {"runs": 1200, "selftest_runs": 4},
        "thorough": {"runs": 30000, "selftest_runs": 32},
    }
    rule = ("one run = one generated design (1-2 TModules, 0-3 transactions, 0-2 methods, 2-5 log sites of level "
            "debug/info/warning/error/assertion or a custom integer level, each through one of the 15 entry points "
            "(HardwareLogger.debug..assertion/log, top_debug..top_assertion/top_log, module-level assertion / "
            "top_assertion; defaults of name=, format= and src_loc= in a share), under nested If/Elif/Else/Switch/"
            "AvoidedIf/FSM-State inside or outside bodies; format "
            "strings with 0-4 fields in automatic, positional or keyword style and specs from a table of 40; fields of "
            "width 1-16, signed, sliced, summed, constant, packed text or a method argument; a level / namespace "
            "filter; fatal or counting on_error, in half of the fatal runs the process and on_error the library's test "
            "case builds; in 15% of the runs HDLLogWrapper(-Component) around the design with its Print output "
            "captured) driven for 30-140 cycles by a phase plan; distinct = distinct (design, "
            "per-site (body runs, branches selected, trigger) vector, fired set); non-trivial = two or more records in "
            "a cycle or a raised trigger blocked by its context")
    expected_cov = ["context_blocks_trigger", "body_not_running_blocks", "branch_not_selected_blocks",
                    "failed_assertion_outside_context", "several_records_same_cycle", "cycle_without_record",
                    "level_debug", "level_info", "level_warning", "level_error", "level_assert", "on_error_called",
                    "two_errors_same_cycle", "failure_ended_run", "run_without_failure", "fatal_run_without_error_record",
                    "filtered_by_level_or_namespace", "signed_negative_value", "string_field", "method_argument_field",
                    "fired_in_method_body", "fired_in_transaction_body",
                    "entry_log", "entry_module_assertion", "entry_top_log", "entry_top_debug", "entry_top_info",
                    "entry_top_warning", "entry_top_error", "entry_top_assertion", "entry_module_top_assertion",
                    "top_site_fires_outside_context", "level_custom", "custom_level_at_or_above_error",
                    "custom_level_below_error", "default_logger_name_global", "default_empty_format", "default_src_loc",
                    "fired_in_fsm_state", "fsm_state_blocks", "fired_under_avoided_if", "avoided_if_blocks",
                    "library_on_error_ended_run", "library_level_given_by_name", "hdl_record_printed",
                    "hdl_wrapper_component"]
    real = ["transactron.utils.logging.HardwareLogger (debug/info/warning/error/log/assertion, top_debug/top_info/"
            "top_warning/top_error/top_log/top_assertion) and the module-level assertion() / top_assertion()",
            "transactron.utils.logging.LogRecordInfo.format / get_log_records / get_trigger_bit / LogRecord.to_amaranth_format",
            "transactron.testing.logging.make_logging_process / parse_logging_level / HDLLogWrapper / HDLLogWrapperComponent",
            "transactron.testing.test_case.TestCaseWithSimulatorBase._configure_logging (its on_error and process factory)",
            "transactron.testing.tick_count.make_tick_count_process",
            "Python logging (loggers, handler dispatch)", "TModule (If/Elif/Else/Switch/AvoidedIf/FSM/State) / Transaction / "
            "Method / def_method",
            "TransactionManager + scheduler", "amaranth Format parsing", "amaranth pysim"]
    stubs = ["cycle driver (stimulus)", "host design that carries the log sites", "capturing logging.Handler",
             "on_error callback (counting, or raising like TestCaseWithSimulator's) in the runs that do not use the "
             "library's own", "`print` of the code pysim compiles (captures HDLLogWrapper's output)",
             "empty-signature Component around the container (HDLLogWrapperComponent runs)"]
    search_space = "log-site sets, format specifications, module contexts and trigger / field / request histories"
    assumptions = ["log records are matched to the log statements by registration order; the raw record (cycle stamp, logger name, "
                   "level, message) is taken as the library's simulation logging process hands it to Python logging",
                   "'within its module context' filtering: a record is expected iff its level is at least the level the process was "
                   "created for and its logger name is selected by the namespace expression; only namespace expressions on which "
                   "re.search, re.match and re.fullmatch agree for every logger of the design are used",
                   "the message is compared without whatever precedes it in the reported text (the '[file:line] ' prefix)",
                   "{:s} fields carry ASCII text (the library decodes the packed bytes as UTF-8; other byte strings are "
                   "outside the statement)",
                   "the failure raised by on_error is observed where it leaves the library's logging coroutine; that "
                   "Amaranth's sim.run() re-raises an exception of a process is trusted",
                   "the cycle of a record is the library's tick counter as published in testing.logging._sim_cycle",
                   "top_* entry points: 'within its module context' is read with the library's documentation of these "
                   "functions ('ignore m.If etc. for triggering'): the record is expected whenever the trigger holds",
                   "HDLLogWrapper: a printed line belongs to the cycle that ended with the clock edge at which pysim "
                   "executed the Print; compared are the logger name and the message at the end of the line, nothing else",
                   "the library's TestCaseWithSimulator cannot own the kernel's simulator; its logging set-up "
                   "(_configure_logging: environment variables -> parse_logging_level -> make_logging_process with its own "
                   "on_error) is taken from a TestCaseWithSimulatorBase instance instead"]

    def gen_config(self, rng, tier, idx):
        big = tier == "thorough"
        nsites = rng.randint(2, 5)
        prog, where = gen_prog(rng, nsites, ext=rng.random() < 0.5)
        fatal = rng.random() < 0.35
        sites = []
        for k in range(nsites):
            w = where[str(k)]
            top = rng.random() < 0.25  # a top_* entry point: no module, not gated (and no method argument at hand)
            argw = prog["meths"][w[1]]["argw"] if w[0] == "meth" and not top else 0
            nf = rng.choice([0, 1, 1, 2, 2, 3, 4])
            fields, types = [], []
            for _ in range(nf):
                src, typ = _gen_field(rng, argw)
                fields.append({"src": src})
                types.append(typ)
            style = rng.choice(["auto", "auto", "pos", "kw"])
            refs = list(range(nf))
            if style != "auto":
                rng.shuffle(refs)
                if nf and rng.random() < 0.3:
                    refs.append(rng.randrange(nf))  # one field printed twice
            pieces = []
            for fi in refs:
                pieces.append(["lit", rng.choice(LITERALS)])
                spec = rng.choice({"int": INT_SPECS, "str": STR_SPECS, "chr": CHR_SPECS}[types[fi]])
                pieces.append(["fld", fi, spec])
            pieces.append(["lit", rng.choice(LITERALS)])
            level = rng.choice(["debug", "info", "warning", "warning", "error", "assert", "assert", "custom"])
            wide = rng.random() < 0.25
            site = {"level": level, "logger": rng.randrange(GLOBAL), "short": int(rng.random() < 0.25),
                    "whenw": rng.randint(2, 4) if wide else 1, "style": style, "pieces": pieces, "fields": fields}
            if top:
                site["api"] = "top"
            if level == "custom":
                site["lvlno"] = rng.choice(CUSTOM_LEVELS)
            if rng.random() < 0.2:
                site["defloc"] = 1  # src_loc left at its default
            if level == "assert":
                r = rng.random()
                if site["short"] and r < 0.4:
                    site["logger"] = GLOBAL  # module-level assertion() / top_assertion() without name=
                elif not site["short"] and not top and r < 0.25:
                    site.update(nofmt=1, style="auto", pieces=[], fields=[])  # HardwareLogger.assertion(m, value)
            sites.append(site)
        if fatal and rng.random() < 0.8 and not any(level_no(s) >= logging.ERROR for s in sites):
            sites[rng.randrange(nsites)].update(level=rng.choice(["error", "assert"]), short=0)
        cycles = rng.randint(30, 140 if big else 90)
        min_level = rng.choice([logging.DEBUG] * 7 + [logging.INFO, logging.WARNING, logging.ERROR, 0, 25, 35])
        # only filters that select the same loggers under re.search, re.match and re.fullmatch (ns_agrees)
        ns = rng.choice([".*"] * 7 + [r"c34v\.core(\.alu)?", r"^c34v\.mem$", r"c34v\.(core\.alu|mem)", "^global$"])
        if fatal and rng.random() < 0.7:
            min_level, ns = logging.DEBUG, ".*"
        cfg = {"prog": prog, "where": where, "sites": sites, "cycles": cycles, "fatal": fatal,
               "perr": rng.choice([0.0, 0.05, 0.15, 0.4, 1.0]) if fatal else 1.0, "min_level": min_level, "ns": ns,
               "sched": rng.choice(["eager", "eager", "rr"]),
               "plan": make_plan(rng, cycles, ["random", "random", "on", "off", "quiet", "flap"], min_len=5, max_len=30)}
        # fatal runs: half of them with the logging process + on_error the library's test case builds
        cfg["real_tc"] = int(fatal and rng.random() < 0.5)
        cfg["lvl_text"] = rng.choice(["num", "upper", "lower"])
        # a share of the runs: the user has hushed one or two loggers in Python's logging configuration
        cfg["hush"] = sorted(rng.sample(range(len(LOGGERS)), rng.choice([1, 1, 2]))) if rng.random() < 0.2 else []
        # a share of the runs: the HDL print back end next to the logging process
        cfg["hdl"] = None
        if rng.random() < 0.15:
            cfg["hdl"] = {"dflt": int(rng.random() < 0.25), "sep": int(rng.random() < 0.6), "loc": int(rng.random() < 0.4),
                          "comp": int(rng.random() < 0.35)}
        return cfg

    def make(self, cfg):
        return Scen(cfg)

    def features(self, cfg, viol):
        info = viol.get("info") or {}
        return {"where": info.get("where"), "level": info.get("level"), "entry": info.get("entry"),
                "real_tc": info.get("real_tc")}

    def cfg_signature(self, cfg):
        return [cfg["prog"], cfg["sites"], cfg["sched"], cfg["fatal"], cfg["min_level"], cfg["ns"],
                cfg.get("real_tc", 0), cfg.get("hdl")]


PROP = Prop()
