"""C10 — well-formed designs elaborate without combinational loops."""
import random

from ..coregen.gen import generate_cond
from ..coregen.prop import CoreProp
from .c10_lib import LibScen, gen_lib_config
from ..kernel import h64


class Prop(CoreProp):
    ID = "C10"
    checks = ['C10']
    scheds = ['eager']
    tiers = {"quick": {"runs": 400, "selftest_runs": 4}, "thorough": {"runs": 8000, "selftest_runs": 32}}
    feat = {'p_fwd': 0.5, 'p_nested': 0.3, 'n_before': (0, 2), 'rdep': True, 'n_conflicts': (0, 2), 'prio': True}
    rule = 'one run = one generated program (1-3 modules, 1-5 transactions, 0-6 methods, call depth <= 3, nested bodies, If/Switch/FSM around bodies and calls, enable_call, validate_arguments, aliases, nonexclusive methods, Forwarder-style readiness on the run of bodies scheduled before) under one arbiter and one internal set order, driven for 60-160 cycles by a seeded phase plan (random / all-on contention / single-method stall / flapping / exhaustive valuation sweep when <= 10 one-bit inputs); distinct = distinct (program, arbiter, set of transactions running in a cycle); non-trivial = at least one transaction ran'
    expected_cov = ['concurrent_transactions', 'design_with_forwarder_style_readiness', 'design_with_nested_body', 'design_with_ready_dependent_schedule_before', 'libcomp_design_elaborated', 'libcomp_transfer', 'libcomp_with_Forwarder', 'libcomp_with_Pipe', 'libcomp_with_Connect']

    def gen_config(self, rng, tier, idx):
        cfg = super().gen_config(rng, tier, idx)
        if idx % 8 == 6:  # compositions of library connectors, wired the documented way
            return gen_lib_config(rng)
        if idx % 4 == 3:  # the statement names condition() blocks explicitly
            prng = random.Random(h64(self.master_seed, self.ID, "cond-program", idx))
            cfg["prog"] = generate_cond(prng)
        return cfg

    def make(self, cfg):
        if cfg.get("kind") == "libcomp":
            return LibScen(cfg)
        return super().make(cfg)

    def cfg_signature(self, cfg):
        if cfg.get("kind") == "libcomp":
            return [cfg["chains"], cfg["join"]]
        return super().cfg_signature(cfg)

    def features(self, cfg, viol):
        if cfg.get("kind") == "libcomp":
            return {"libcomp": True}
        return super().features(cfg, viol)

    def shrink_cfg(self, cfg):
        if cfg.get("kind") == "libcomp":
            for k in range(len(cfg["chains"])):
                if len(cfg["chains"]) > 1:
                    c = dict(cfg)
                    c["chains"] = cfg["chains"][:k] + cfg["chains"][k + 1:]
                    yield c
                for j in range(len(cfg["chains"][k])):
                    if len(cfg["chains"][k]) > 1:
                        c = dict(cfg)
                        c["chains"] = [list(ch) for ch in cfg["chains"]]
                        del c["chains"][k][j]
                        yield c
            return
        yield from super().shrink_cfg(cfg)

    def violation_class(self, feats):
        return {k: feats.get(k) for k in ("kind", "cond_in_conditionally_called_method", "cond_branch_reaches_validate")}


PROP = Prop()
