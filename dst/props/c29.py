"""C29 — stream adapters obey the ready/valid protocol.

The harness is the stream peer (plain signals on the stream interface):

* kind "source": StreamSource; real AdapterTrans on `write`, the harness is the consumer (`o.ready`
  from the PRNG) and a protocol monitor on `o.valid` / `o.payload`.
* kind "sink":   StreamSink; the harness is a protocol-abiding producer (`i.valid`, `i.payload`; an
  offer is kept until accepted), real AdapterTrans on `read` and `peek`.
* kind "wrap":   StreamModuleWrapper around a small registered pass-through stream module defined
  here (a STUB: `PassThrough`, three internal variants, with a free `stall` input), real AdapterTrans
  on `write` and `read`.
"""

from __future__ import annotations

from ..comp import CompScenario, leaves
from ..propbase import PropBase, make_plan, phase_at

DRAIN = 8  # least number of trailing cycles without new items, peer always ready


def capacity(cfg):
    """Items the adapter (and the wrapped stub) can hold: decides how long "every written item is emitted"
    may take once nothing new is written and the peer is always ready."""
    if cfg["kind"] == "source":
        return 1  # the source register
    if cfg["kind"] == "wrap":
        stub = cfg["stub_depth"] if cfg["stub"] == "fifo" else 1
        return stub + 1 + 1  # stub storage + its output register + the source register
    return 0


def _shape(spec):
    from amaranth.lib.data import StructLayout

    if isinstance(spec, int):
        return spec
    return StructLayout({n: w for n, w in spec})


def make_passthrough(shape, variant, depth):
    """The stub wrapped by StreamModuleWrapper: a registered pass-through with stream interfaces."""
    from amaranth import Module, Signal, Value
    from amaranth.lib import stream, wiring
    from amaranth.lib.fifo import SyncFIFOBuffered
    from amaranth.lib.wiring import In, Out

    class PassThrough(wiring.Component):
        def __init__(self):
            super().__init__({"i": In(stream.Signature(shape)), "o": Out(stream.Signature(shape))})
            self.stall = Signal()

        def elaborate(self, platform):
            m = Module()
            if variant == "fifo":
                m.submodules.fifo = f = SyncFIFOBuffered(width=len(Value.cast(self.i.payload)), depth=depth)
                m.d.comb += [
                    f.w_data.eq(Value.cast(self.i.payload)),
                    f.w_en.eq(self.i.valid & ~self.stall),
                    self.i.ready.eq(f.w_rdy & ~self.stall),
                    Value.cast(self.o.payload).eq(f.r_data),
                    self.o.valid.eq(f.r_rdy),
                    f.r_en.eq(self.o.ready),
                ]
                return m
            full = Signal()
            buf = Signal(len(Value.cast(self.i.payload)))
            m.d.comb += Value.cast(self.o.payload).eq(buf)
            m.d.comb += self.o.valid.eq(full)
            if variant == "pipe":  # accepts while being emptied (combinational ready path)
                m.d.comb += self.i.ready.eq((~full | self.o.ready) & ~self.stall)
            else:  # "reg": accepts only when empty
                m.d.comb += self.i.ready.eq(~full & ~self.stall)
            with m.If(self.o.valid & self.o.ready):
                m.d.sync += full.eq(0)
            with m.If(self.i.valid & self.i.ready):
                m.d.sync += full.eq(1)
                m.d.sync += buf.eq(Value.cast(self.i.payload))
            return m

    return PassThrough()


class Scen(CompScenario):
    def build(self):
        from transactron.lib.stream import StreamModuleWrapper, StreamSink, StreamSource

        c = self.cfg
        self.kind = c["kind"]
        shape = _shape(c["shape"])
        if self.kind == "source":
            self.dut = StreamSource(shape)
            self.top.add("dut", self.dut)
            self.caller("write", self.dut.write)
            self.add_input("o.ready", self.dut.o.ready)
            self.add_obs("o.valid", self.dut.o.valid)
            self.pl = self._payload_ports("o.payload", self.dut.o.payload, obs=True)
        elif self.kind == "sink":
            self.dut = StreamSink(shape)
            self.top.add("dut", self.dut)
            self.caller("read", self.dut.read)
            if c.get("twin"):
                self.twin("read", self.dut.read)  # two consumers sharing the consuming read
            self.caller("peek", self.dut.peek)
            self.add_input("i.valid", self.dut.i.valid)
            self.add_obs("i.ready", self.dut.i.ready)
            self.pl = self._payload_ports("i.payload", self.dut.i.payload, obs=False)
        else:
            self.stub = make_passthrough(shape, c["stub"], c["stub_depth"])
            self.dut = StreamModuleWrapper(self.stub)
            self.top.add("dut", self.dut)
            self.caller("write", self.dut.write)
            self.caller("read", self.dut.read)
            if c.get("twin"):
                self.twin("read", self.dut.read)
            self.add_input("stall", self.stub.stall)
            self.pl = [("" if p == "v" else "." + p) for p, _ in leaves(self.stub.i.payload)]
        self.wmask = [(1 << w) - 1 for w in self._leaf_widths(c["shape"])]
        self.pending: list = []  # written / offered, not yet transferred (oldest first)
        self.tag = 0
        self.prev_valid = 0
        self.prev_transfer = 0
        self.prev_payload = None
        self.offer = None  # sink: payload currently offered by the harness producer
        self.quiet = 0
        self.stall_run = 0
        self.quiet_bound = capacity(c) + 2  # one cycle per held item, + 2 cycles of register latency
        self.drain = max(DRAIN, self.quiet_bound)
        return self.top

    @staticmethod
    def _leaf_widths(spec):
        return [spec] if isinstance(spec, int) else [w for _, w in spec]

    def _payload_ports(self, base, payload, obs):
        sufs = []
        for path, sig in leaves(payload):
            suf = "" if path == "v" else "." + path
            sufs.append(suf)
            if obs:
                self.add_obs(base + suf, sig)
            else:
                self.add_input(base + suf, sig)
        return sufs

    def fresh(self, rng):
        """A payload never used before in this run (tag in the first leaf, noise elsewhere)."""
        self.tag += 1
        vals = []
        for k, mask in enumerate(self.wmask):
            vals.append((self.tag if k == 0 else rng.getrandbits(16)) & mask)
        return tuple(vals)

    # ---- stimulus -------------------------------------------------------------------------
    def stimulus(self, rng, cyc):
        c = self.cfg
        kind, p = phase_at(c["plan"], cyc)
        drain = cyc >= c["cycles"] - self.drain
        stim = {}
        # (producer probability, consumer probability)
        pw, pr = {
            "random": (p, 1 - p if p not in (0.0, 1.0) else p),
            "stall": (0.9, 0.05),
            "starve": (0.05, 0.9),
            "full": (1.0, 1.0),
            "half": (0.5, 0.5),
        }[kind]
        if self.kind == "source":
            stim["write.en"] = 0 if drain else int(rng.random() < pw)
            stim["o.ready"] = 1 if drain else int(rng.random() < pr)
            for suf, v in zip(self.pl, self.fresh(rng)):
                stim["write.i.data" + suf] = v
        elif self.kind == "sink":
            if self.offer is None and not drain and rng.random() < pw:
                self.offer = self.fresh(rng)
            if self.offer is not None:
                stim["i.valid"] = 1
                vals = self.offer
            else:  # payload is free while valid is low: drive garbage
                vals = tuple(rng.getrandbits(16) & m for m in self.wmask)
            for suf, v in zip(self.pl, vals):
                stim["i.payload" + suf] = v
            stim["read.en"] = int(rng.random() < pr) if not drain else 1
            stim["peek.en"] = int(rng.random() < c["p_peek"])
        else:
            stim["write.en"] = 0 if drain else int(rng.random() < pw)
            stim["read.en"] = 1 if drain else int(rng.random() < pr)
            stim["stall"] = 0 if drain else int(rng.random() < c["p_stall"])
            for suf, v in zip(self.pl, self.fresh(rng)):
                stim["write.i.data" + suf] = v
        return self.twin_stim(rng, stim)

    # ---- oracle -----------------------------------------------------------------------------
    def check(self, cyc, stim, obs):
        stim, obs = self.fold_twins(stim, obs)
        getattr(self, "check_" + self.kind)(cyc, stim, obs)

    def _vals(self, d, base):
        return tuple(d.get(base + suf, 0) for suf in self.pl)

    def check_source(self, cyc, stim, obs):
        valid, ready = obs["o.valid"], stim.get("o.ready", 0)
        payload = self._vals(obs, "o.payload")
        en, done = stim.get("write.en", 0), obs["write.done"]
        # protocol monitor: from the cycle valid rises until valid & ready, valid and payload hold
        if self.prev_valid and not self.prev_transfer:
            self.expect(valid, "valid-dropped", f"valid fell without a transfer (payload was {self.prev_payload})")
            self.expect(payload == self.prev_payload, "payload-changed",
                        f"payload changed from {self.prev_payload} to {payload} while valid and not accepted")
        self.expect(not done or en, "ran-when-not-callable", f"write done without request")
        if done:
            self.pending.append(self._vals(stim, "write.i.data"))
            self.hit("written")
        transfer = bool(valid and ready)
        if transfer:
            self.expect(bool(self.pending), "spurious-transfer", f"stream transferred {payload} but nothing is outstanding")
            self.expect(payload == self.pending[0], "sequence-mismatch",
                        f"stream transferred {payload}, next written item is {self.pending[0]} "
                        f"({len(self.pending)} outstanding)")
            self.pending.pop(0)
            self.hit("transferred")
        # what fired
        if valid and not ready:
            self.stall_run += 1
            self.hit("valid_stalled")
            if self.stall_run == 4:
                self.hit("stalled_4_cycles")
            if en and not obs["write.runnable"]:
                self.hit("write_refused_while_stalled")
        else:
            self.stall_run = 0
        if done and transfer:
            self.hit("write_same_cycle_as_transfer")
        if done and not valid:
            self.hit("write_into_empty")
        if transfer and self.prev_transfer:
            self.hit("back_to_back_transfers")
        if ready and not valid:
            self.hit("ready_without_valid")
        self.visit((valid, ready, en, done, min(self.stall_run, 4), len(self.pending)), nontrivial=bool(valid))
        self.prev_valid, self.prev_transfer, self.prev_payload = valid, transfer, payload
        self.quiet = self.quiet + 1 if (not en and ready) else 0

    def check_sink(self, cyc, stim, obs):
        valid = stim.get("i.valid", 0)
        payload = self._vals(stim, "i.payload")
        ready = obs["i.ready"]
        # premise: the producer keeps its offer until it is accepted
        if self.prev_valid and not self.prev_transfer:
            self.premise(valid and payload == self.prev_payload, "producer withdrew or changed an offer")
        done = {}
        for p in ("read", "peek"):
            en = stim.get(f"{p}.en", 0)
            done[p] = obs[f"{p}.done"]
            # "read is ready iff valid"; of peek the statement only says that it never consumes
            if en and p == "read":
                self.expect(obs[f"{p}.runnable"] == valid, "ready-mismatch",
                            f"{p} callable={obs[f'{p}.runnable']} but valid={valid}", port=p)
            elif en and obs[f"{p}.runnable"] != valid:
                self.hit("peek_callable_differs_from_valid")
            self.expect(not done[p] or (en and valid), "ran-when-not-callable",
                        f"{p}: en={en} valid={valid} done={done[p]}", port=p)
            if en and valid and not done[p]:
                self.hit("blocked_though_ready")
            if done[p]:
                got = self._vals(obs, f"{p}.o.data")
                # an executed peek is the non-consuming read: it shows the payload a read would consume
                if p == "read" or valid:
                    self.expect(got == payload, "data-mismatch", f"{p} returned {got}, stream offers {payload}", port=p)
        transfer = bool(valid and ready)
        if done["read"]:
            self.expect(transfer, "read-did-not-consume", f"read executed but ready={ready}: the payload stays offered")
        else:
            self.expect(not ready, "consumed-without-read",
                        f"ready={ready} without an executed read (peek done={done['peek']}, valid={valid})")
        # what fired
        if done["read"]:
            self.hit("read_consumed")
        if done["peek"] and not done["read"]:
            self.hit("peek_without_read")
        if done["peek"] and done["read"]:
            self.hit("read_and_peek_same_cycle")
        if stim.get("read.en") and not valid:
            self.hit("read_refused_no_valid")
        if stim.get("peek.en") and not valid:
            self.hit("peek_refused_no_valid")
        if valid and not transfer:
            self.hit("offer_stalled")
        if transfer and self.prev_transfer:
            self.hit("back_to_back_transfers")
        self.visit((valid, stim.get("read.en", 0), stim.get("peek.en", 0), done["read"], done["peek"], self.prev_transfer),
                   nontrivial=bool(valid))
        if transfer:
            self.offer = None
        self.prev_valid, self.prev_transfer, self.prev_payload = valid, transfer, payload

    def check_wrap(self, cyc, stim, obs):
        wen, wdone = stim.get("write.en", 0), obs["write.done"]
        ren, rdone = stim.get("read.en", 0), obs["read.done"]
        self.expect(not wdone or wen, "ran-when-not-callable", "write done without request", port="write")
        self.expect(not rdone or ren, "ran-when-not-callable", "read done without request", port="read")
        level = len(self.pending)
        if wdone:
            self.pending.append(self._vals(stim, "write.i.data"))
            self.hit("written")
        if rdone:
            got = self._vals(obs, "read.o.data")
            self.expect(bool(self.pending), "spurious-read", f"read returned {got} but nothing is outstanding")
            self.expect(got == self.pending[0], "sequence-mismatch",
                        f"read returned {got}, next written item is {self.pending[0]} ({len(self.pending)} outstanding)")
            self.pending.pop(0)
            self.hit("read")
        if wen and not obs["write.runnable"]:
            self.hit("write_refused")
        if ren and not obs["read.runnable"]:
            self.hit("read_refused")
        if wdone and rdone:
            self.hit("write_and_read_same_cycle")
        if stim.get("stall") and wen:
            self.hit("stub_stall_with_write_request")
        if level >= 2:
            self.hit("two_or_more_in_flight")
        self.visit((level, wen, ren, wdone, rdone, stim.get("stall", 0)), nontrivial=bool(wdone or rdone))
        self.quiet = self.quiet + 1 if (not wen and ren and not stim.get("stall")) else 0

    def finish(self):
        if self.kind in ("source", "wrap") and self.pending:
            # only decided when the trace really ends with the drain (truncated / shrunk traces do not)
            if self.quiet < self.quiet_bound:
                return
            self.expect(False, "item-not-emitted",
                        f"{len(self.pending)} written item(s) never left although the peer was ready for {self.quiet} cycles: "
                        f"{self.pending[:3]}")


class Prop(PropBase):
    ID = "C29"
    tiers = {
        "quick": {"runs": 2700, "selftest_runs": 4},
        "thorough": {"runs": 30000, "selftest_runs": 32},
    }
    rule = ("one run = one adapter (StreamSource / StreamSink / StreamModuleWrapper+stub) x payload shape, driven for "
            "60-200 cycles by a seeded phase plan (random(p) / consumer stalled / producer starved / both always / "
            "half) and ending with a drain; distinct = distinct (configuration, valid, ready, requests, executed calls, "
            "stall length / outstanding items); non-trivial = valid was high (source, sink) or a call executed (wrapper)")
    expected_cov = ["written", "transferred", "valid_stalled", "stalled_4_cycles", "write_refused_while_stalled",
                    "write_same_cycle_as_transfer", "write_into_empty", "back_to_back_transfers", "ready_without_valid",
                    "read_consumed", "peek_without_read", "read_and_peek_same_cycle", "read_refused_no_valid",
                    "peek_refused_no_valid", "offer_stalled", "read", "write_refused", "read_refused",
                    "write_and_read_same_cycle", "stub_stall_with_write_request", "two_or_more_in_flight"]
    real = ["transactron.lib.stream.StreamSource", "transactron.lib.stream.StreamSink",
            "transactron.lib.stream.StreamModuleWrapper", "amaranth.lib.stream / wiring.connect",
            "transactron.lib.adapters.AdapterTrans", "TransactionManager + scheduler", "amaranth pysim"]
    stubs = ["cycle driver as stream peer (consumer ready / protocol-abiding producer)",
             "PassThrough: the stream module wrapped by StreamModuleWrapper (1-entry register, 1-entry pipe, or "
             "amaranth SyncFIFOBuffered, with a free stall input) is defined by the harness",
             "list reference model (outstanding items)"]
    assumptions = ["'every written item is emitted' has no latency in the statement: an item counts as not emitted when it is "
                   "still outstanding at the end of a run after capacity + 2 cycles without a new write and with the peer always "
                   "ready (capacity = source register, + stub storage + its output register for the wrapper)"]
    search_space = "adapter kinds, payload shapes and handshake histories with consumer stalls and producer gaps"

    def gen_config(self, rng, tier, idx):
        big = tier == "thorough"
        kind = ["source", "sink", "wrap"][idx % 3]
        if rng.random() < 0.6:
            shape = rng.choice([1, 8, 10, 16])
        else:
            shape = [["tag", rng.choice([8, 12])], ["aux", rng.choice([1, 5])]]
            if rng.random() < 0.3:
                shape.append(["x", 9])
        cycles = rng.randint(60, 400 if big else 200)
        cfg = {"kind": kind, "shape": shape, "cycles": cycles, "twin": int(kind != "source" and rng.random() < 0.3), "sched": rng.choice(["eager", "eager", "rr"]),
               "plan": make_plan(rng, cycles, ["random", "random", "stall", "starve", "full", "half"], min_len=5, max_len=30)}
        if kind == "sink":
            cfg["p_peek"] = rng.choice([0.0, 0.3, 0.7, 1.0])
        if kind == "wrap":
            cfg["stub"] = rng.choice(["reg", "pipe", "fifo"])
            cfg["stub_depth"] = rng.choice([2, 3, 4])
            cfg["p_stall"] = rng.choice([0.0, 0.1, 0.4])
        return cfg

    def make(self, cfg):
        return Scen(cfg)

    def features(self, cfg, viol):
        return {"adapter": cfg["kind"], "port": (viol.get("info") or {}).get("port")}

    def cfg_signature(self, cfg):
        return [cfg["kind"], cfg["shape"], cfg["sched"], cfg.get("stub"), cfg.get("stub_depth"), cfg.get("p_peek"),
                cfg.get("p_stall"), cfg.get("twin", 0)]

    def shrink_cfg(self, cfg):
        if not isinstance(cfg["shape"], int) and len(cfg["shape"]) > 1:
            c = dict(cfg)
            c["shape"] = cfg["shape"][:-1]
            yield c
        if cfg["sched"] != "eager":
            c = dict(cfg)
            c["sched"] = "eager"
            yield c


PROP = Prop()
