"""C29 — stream adapters obey the ready/valid protocol.

The harness is the stream peer (plain signals on the stream interface):

* kind "source": StreamSource; real AdapterTrans on `write`, the harness is the consumer (`o.ready`
  from the PRNG) and a protocol monitor on `o.valid` / `o.payload`.
* kind "sink":   StreamSink; the harness is a protocol-abiding producer (`i.valid`, `i.payload`; an
  offer is kept until accepted), real AdapterTrans on `read` and `peek`.
* kind "wrap":   StreamModuleWrapper around a small registered stream module defined here (a STUB:
  `PassThrough`, three internal variants, with a free `stall` input; its output payload may have another
  shape than its input payload, then it emits a fixed bit-level function of what it received), real
  AdapterTrans on `write` and `read`; the stub's two stream interfaces are observed as well.

Payload shapes (cfg["shape"], cfg["oshape"]): an int (unsigned), ["s", w], ["enum", w], ["arr", elem, n] or a
list of [name, shape] (struct, may nest).  Ports are the scalar leaves of the payload.

Every method must carry the payload with the shape its stream has (compared structurally: field names, widths,
signedness, enum / array / struct nesting): the same bits read with another shape are another value (-1 vs 255,
other fields).  The wrapper's `read` is compared leaf by leaf with what the stub's output payload must hold, its
readiness with the stub's `o.valid`, and the stub's input stream is monitored like a StreamSource output.
"""

from __future__ import annotations

from ..comp import CompScenario, leaves
from ..propbase import PropBase, make_plan, phase_at

DRAIN = 8  # least number of trailing cycles without new items, peer always ready


def capacity(cfg):
    """Items the adapter (and the wrapped stub) can hold: decides how long "every written item is emitted"
    may take once nothing new is written and the peer is always ready."""
    if cfg["kind"] == "source":
        return 1  # the source register
    if cfg["kind"] == "wrap":
        stub = cfg["stub_depth"] if cfg["stub"] == "fifo" else 1
        return stub + 1 + 1  # stub storage + its output register + the source register
    return 0


_ENUMS: dict = {}


def _enum(w):
    """An enumeration in which every bit pattern is a member (one class per width: equal shapes must be the same class)."""
    if w not in _ENUMS:
        import types

        from amaranth.lib import enum

        def fill(ns):
            for i in range(1 << w):
                ns[f"M{i}"] = i

        _ENUMS[w] = types.new_class(f"E{w}", (enum.Enum,), {"shape": w}, fill)
    return _ENUMS[w]


def _shape(spec):
    from amaranth import signed
    from amaranth.lib.data import ArrayLayout, StructLayout

    if isinstance(spec, int):
        return spec
    if isinstance(spec[0], str):
        if spec[0] == "s":
            return signed(spec[1])
        if spec[0] == "enum":
            return _enum(spec[1])
        return ArrayLayout(_shape(spec[1]), spec[2])
    return StructLayout({n: _shape(w) for n, w in spec})


def spec_width(spec):
    if isinstance(spec, int):
        return spec
    if isinstance(spec[0], str):
        return spec[1] if spec[0] in ("s", "enum") else spec_width(spec[1]) * spec[2]
    return sum(spec_width(w) for _, w in spec)


def shape_kinds(spec, top=True):
    if isinstance(spec, int):
        return set()
    if isinstance(spec[0], str):
        if spec[0] == "s":
            return {"signed"}
        if spec[0] == "enum":
            return {"enum"}
        return {"array"} | shape_kinds(spec[1], False)
    out = set() if top else {"nested_struct"}
    for _, w in spec:
        out |= shape_kinds(w, False)
    return out


def canon_spec(spec):
    """Structure of a payload shape spec: nested tuples, comparable with canon_shape of a real shape."""
    if isinstance(spec, int):
        return ("u", spec)
    if isinstance(spec[0], str):
        if spec[0] in ("s", "enum"):
            return (spec[0], spec[1])
        return ("arr", canon_spec(spec[1]), spec[2])
    return ("struct", tuple((n, canon_spec(w)) for n, w in spec))


def canon_shape(shape):
    """Structure of an Amaranth shape.  (Amaranth's own `==` between layouts is too forgiving for this purpose:
    a struct field compares equal to a plain unsigned field of the same width.)"""
    from amaranth import Shape
    from amaranth.lib import enum
    from amaranth.lib.data import ArrayLayout, StructLayout

    if isinstance(shape, StructLayout):
        return ("struct", tuple((n, canon_shape(f.shape)) for n, f in shape))
    if isinstance(shape, ArrayLayout):
        return ("arr", canon_shape(shape.elem_shape), shape.length)
    if isinstance(shape, enum.EnumType):
        return ("enum", Shape.cast(shape).width)
    sh = Shape.cast(shape)
    return ("s" if sh.signed else "u", sh.width)


def spec_leafs(spec, suffix="", off=0):
    """[(port suffix, bit offset, width, signed)] of the scalar leaves of a payload of shape `spec`, in the order
    of `leaves`."""
    if isinstance(spec, int):
        return [(suffix, off, spec, False)]
    if isinstance(spec[0], str):
        if spec[0] in ("s", "enum"):
            return [(suffix, off, spec[1], spec[0] == "s")]
        out, ew = [], spec_width(spec[1])
        for i in range(spec[2]):
            out += spec_leafs(spec[1], f"{suffix}.{i}", off + i * ew)
        return out
    out = []
    for n, w in spec:
        out += spec_leafs(w, f"{suffix}.{n}", off)
        off += spec_width(w)
    return out


def unpack(raw, leafs):
    """The values the leaves of a payload with bits `raw` have (a signed leaf reads as a negative number)."""
    vals = []
    for _, off, w, sg in leafs:
        v = (raw >> off) & ((1 << w) - 1)
        if sg and v >> (w - 1):
            v -= 1 << w
        vals.append(v)
    return tuple(vals)


def xform(raw, iw, ow, k):
    """What the stub emits (as bits) for received bits `raw`: the input repeated up to the output width, xor k.
    The identity when both payloads have the same width and k == 0."""
    rep = 0
    for j in range((ow + iw - 1) // iw):
        rep |= raw << (iw * j)
    return (rep & ((1 << ow) - 1)) ^ k


def rleaves(v):
    """leaves() with every leaf as a plain Value (an enum leaf would otherwise be read back as an enum member)."""
    from amaranth import Value

    return [(path, Value.cast(sig)) for path, sig in leaves(v)]


def make_passthrough(shape, variant, depth, oshape=None, k=0):
    """The stub wrapped by StreamModuleWrapper: a registered pass-through with stream interfaces."""
    from amaranth import Cat, Module, Signal, Value
    from amaranth.lib import stream, wiring
    from amaranth.lib.fifo import SyncFIFOBuffered
    from amaranth.lib.wiring import In, Out

    if oshape is None:
        oshape = shape

    class PassThrough(wiring.Component):
        def __init__(self):
            super().__init__({"i": In(stream.Signature(shape)), "o": Out(stream.Signature(oshape))})
            self.stall = Signal()

        def emit(self, raw):
            iw, ow = len(raw), len(Value.cast(self.o.payload))
            return Cat(*[raw] * ((ow + iw - 1) // iw))[:ow] ^ k

        def elaborate(self, platform):
            m = Module()
            if variant == "fifo":
                m.submodules.fifo = f = SyncFIFOBuffered(width=len(Value.cast(self.i.payload)), depth=depth)
                m.d.comb += [
                    f.w_data.eq(Value.cast(self.i.payload)),
                    f.w_en.eq(self.i.valid & ~self.stall),
                    self.i.ready.eq(f.w_rdy & ~self.stall),
                    Value.cast(self.o.payload).eq(self.emit(f.r_data)),
                    self.o.valid.eq(f.r_rdy),
                    f.r_en.eq(self.o.ready),
                ]
                return m
            full = Signal()
            buf = Signal(len(Value.cast(self.i.payload)))
            m.d.comb += Value.cast(self.o.payload).eq(self.emit(buf))
            m.d.comb += self.o.valid.eq(full)
            if variant == "pipe":  # accepts while being emptied (combinational ready path)
                m.d.comb += self.i.ready.eq((~full | self.o.ready) & ~self.stall)
            else:  # "reg": accepts only when empty
                m.d.comb += self.i.ready.eq(~full & ~self.stall)
            with m.If(self.o.valid & self.o.ready):
                m.d.sync += full.eq(0)
            with m.If(self.i.valid & self.i.ready):
                m.d.sync += full.eq(1)
                m.d.sync += buf.eq(Value.cast(self.i.payload))
            return m

    return PassThrough()


class Scen(CompScenario):
    def build(self):
        from amaranth import Value
        from transactron.lib.stream import StreamModuleWrapper, StreamSink, StreamSource

        c = self.cfg
        self.kind = c["kind"]
        shape = _shape(c["shape"])
        self.peeks = ["peek"]
        if self.kind == "source":
            self.dut = StreamSource(shape)
            self.top.add("dut", self.dut)
            self.caller("write", self.dut.write)
            if c.get("wtwin"):
                self.twin("write", self.dut.write)  # two producers sharing the write method
            self.add_input("o.ready", self.dut.o.ready)
            self.add_obs("o.valid", self.dut.o.valid)
            self.pl = self._payload_ports("o.payload", self.dut.o.payload, obs=True)
            self._leafinfo(self.dut.o.payload)
        elif self.kind == "sink":
            self.dut = StreamSink(shape)
            self.top.add("dut", self.dut)
            self.caller("read", self.dut.read)
            if c.get("twin"):
                self.twin("read", self.dut.read)  # two consumers sharing the consuming read
            self.caller("peek", self.dut.peek)
            if c.get("peek2"):
                self.caller("peek2", self.dut.peek)  # a second, independent observer
                self.peeks.append("peek2")
            self.add_input("i.valid", self.dut.i.valid)
            self.add_obs("i.ready", self.dut.i.ready)
            self.pl = self._payload_ports("i.payload", self.dut.i.payload, obs=False)
            self._leafinfo(self.dut.i.payload)
        else:
            oshape = _shape(c["oshape"]) if c.get("oshape") is not None else None
            self.stub = stub = make_passthrough(shape, c["stub"], c["stub_depth"], oshape, c.get("xk", 0))
            self.dut = StreamModuleWrapper(stub)
            self.top.add("dut", self.dut)
            w = self.caller("write", self.dut.write)
            self.add_obs("write.raw", w.data_in.as_value())
            if c.get("wtwin"):
                self.twin("write", self.dut.write)
                self.add_obs("write_twin.raw", self.callers["write_twin"].data_in.as_value())
            r = self.caller("read", self.dut.read)
            self.add_obs("read.raw", r.data_out.as_value())
            if c.get("twin"):
                self.twin("read", self.dut.read)
                self.add_obs("read_twin.raw", self.callers["read_twin"].data_out.as_value())
            self.add_input("stall", stub.stall)
            # the wrapped module's own stream interfaces (bits)
            self.add_obs("m.i.valid", stub.i.valid)
            self.add_obs("m.i.ready", stub.i.ready)
            self.add_obs("m.i.raw", Value.cast(stub.i.payload).as_unsigned())
            self.add_obs("m.o.valid", stub.o.valid)
            self.add_obs("m.o.ready", stub.o.ready)
            self.add_obs("m.o.raw", Value.cast(stub.o.payload).as_unsigned())
            self.pl = [("" if p == "v" else "." + p) for p, _ in leaves(stub.i.payload)]
            self._leafinfo(stub.i.payload)
            self.iw = len(Value.cast(stub.i.payload))
            self.ow = len(Value.cast(stub.o.payload))
        # the methods carry the payload with the shape the stream has (a value of another shape is another value)
        ospec = c["oshape"] if c.get("oshape") is not None else c["shape"]
        for name, at in self.callers.items():
            if name.startswith("write"):
                got, want = at.data_in.shape(), c["shape"]
            else:
                got, want = at.data_out.shape(), (ospec if self.kind == "wrap" else c["shape"])
            self.expect(canon_shape(got) == ("struct", (("data", canon_spec(want)),)), "method-layout-mismatch",
                        f"{name} carries {got!r}, the stream payload it stands for has the shape {_shape(want)!r}",
                        port=name.split("_")[0])
        self.oleafs = spec_leafs(ospec)
        for k in sorted(shape_kinds(c["shape"]) | (shape_kinds(c["oshape"]) if c.get("oshape") is not None else set())):
            self.hit("payload_" + k)
        self.pending: list = []  # written / offered, not yet transferred (oldest first)
        self.inmod: list = []  # wrapper: handed to the wrapped module, not yet read
        self.tag = 0
        self.prev_valid = 0
        self.prev_transfer = 0
        self.prev_payload = None
        self.offer = None  # sink: payload currently offered by the harness producer
        self.quiet = 0
        self.stall_run = 0
        self.quiet_bound = capacity(c) + 2  # one cycle per held item, + 2 cycles of register latency
        self.drain = max(DRAIN, self.quiet_bound)
        return self.top

    def _leafinfo(self, payload):
        """(width, signed) of every scalar leaf of the payload, in port order."""
        self.leaf = []
        for _, sig in rleaves(payload):
            sh = sig.shape()
            self.leaf.append((sh.width, sh.signed))

    def _payload_ports(self, base, payload, obs):
        sufs = []
        for path, sig in rleaves(payload):
            suf = "" if path == "v" else "." + path
            sufs.append(suf)
            if obs:
                self.add_obs(base + suf, sig)
            else:
                self.add_input(base + suf, sig)
        return sufs

    def caller(self, name, method):
        """Like CompScenario.caller, with every data leaf as a plain Value."""
        from transactron.lib import AdapterTrans

        at = AdapterTrans.create(method)
        self.top.add(f"at_{name}", at)
        self.add_input(f"{name}.en", at.en)
        for path, sig in rleaves(at.data_in):
            self.add_input(f"{name}.i.{path}", sig)
        self.add_obs(f"{name}.done", at.done)
        for path, sig in rleaves(at.data_out):
            self.add_obs(f"{name}.o.{path}", sig)
        self.callers[name] = at
        return at

    def _leafval(self, k, bits):
        w, sg = self.leaf[k]
        bits &= (1 << w) - 1
        if sg and bits >> (w - 1):
            bits -= 1 << w
        return bits

    def fresh(self, rng):
        """A payload never used before in this run (tag in the first leaf, noise elsewhere)."""
        self.tag += 1
        return tuple(self._leafval(k, self.tag if k == 0 else rng.getrandbits(16)) for k in range(len(self.leaf)))

    def garbage(self, rng):
        return tuple(self._leafval(k, rng.getrandbits(16)) for k in range(len(self.leaf)))

    # ---- stimulus -------------------------------------------------------------------------
    def stimulus(self, rng, cyc):
        c = self.cfg
        kind, p = phase_at(c["plan"], cyc)
        drain = cyc >= c["cycles"] - self.drain
        stim = {}
        # (producer probability, consumer probability)
        pw, pr = {
            "random": (p, 1 - p if p not in (0.0, 1.0) else p),
            "stall": (0.9, 0.05),
            "starve": (0.05, 0.9),
            "full": (1.0, 1.0),
            "half": (0.5, 0.5),
        }[kind]
        if self.kind == "source":
            stim["write.en"] = 0 if drain else int(rng.random() < pw)
            stim["o.ready"] = 1 if drain else int(rng.random() < pr)
            for suf, v in zip(self.pl, self.fresh(rng)):
                stim["write.i.data" + suf] = v
        elif self.kind == "sink":
            if self.offer is None and not drain and rng.random() < pw:
                self.offer = self.fresh(rng)
            if self.offer is not None:
                stim["i.valid"] = 1
                vals = self.offer
            else:  # payload is free while valid is low: drive garbage
                vals = self.garbage(rng)
            for suf, v in zip(self.pl, vals):
                stim["i.payload" + suf] = v
            stim["read.en"] = int(rng.random() < pr) if not drain else 1
            stim["peek.en"] = int(rng.random() < c["p_peek"])
            if c.get("peek2"):
                stim["peek2.en"] = int(rng.random() < 0.6)
        else:
            stim["write.en"] = 0 if drain else int(rng.random() < pw)
            stim["read.en"] = 1 if drain else int(rng.random() < pr)
            stim["stall"] = 0 if drain else int(rng.random() < c["p_stall"])
            for suf, v in zip(self.pl, self.fresh(rng)):
                stim["write.i.data" + suf] = v
        if c.get("wtwin") and self.kind != "sink":
            for suf, v in zip(self.pl, self.fresh(rng)):  # the second producer has items of its own
                stim["write_twin.i.data" + suf] = v
        stim = self.twin_stim(rng, stim)
        if drain and c.get("wtwin") and self.kind != "sink":
            stim["write_twin.en"] = 0
        return stim

    # ---- oracle -----------------------------------------------------------------------------
    def check(self, cyc, stim, obs):
        # which producer's data was written, if the write was executed (fold_twins refuses "both")
        self.wpref = "write_twin.i.data" if obs.get("write_twin.done") else "write.i.data"
        stim, obs = self.fold_twins(stim, obs)
        getattr(self, "check_" + self.kind)(cyc, stim, obs)

    def _vals(self, d, base):
        return tuple(d.get(base + suf, 0) for suf in self.pl)

    def check_source(self, cyc, stim, obs):
        valid, ready = obs["o.valid"], stim.get("o.ready", 0)
        payload = self._vals(obs, "o.payload")
        en, done = stim.get("write.en", 0), obs["write.done"]
        # protocol monitor: from the cycle valid rises until valid & ready, valid and payload hold
        if self.prev_valid and not self.prev_transfer:
            self.expect(valid, "valid-dropped", f"valid fell without a transfer (payload was {self.prev_payload})")
            self.expect(payload == self.prev_payload, "payload-changed",
                        f"payload changed from {self.prev_payload} to {payload} while valid and not accepted")
        self.expect(not done or en, "ran-when-not-callable", f"write done without request")
        if done:
            self.pending.append(self._vals(stim, self.wpref))
            self.hit("written")
        transfer = bool(valid and ready)
        if transfer:
            self.expect(bool(self.pending), "spurious-transfer", f"stream transferred {payload} but nothing is outstanding")
            self.expect(payload == self.pending[0], "sequence-mismatch",
                        f"stream transferred {payload}, next written item is {self.pending[0]} "
                        f"({len(self.pending)} outstanding)")
            self.pending.pop(0)
            self.hit("transferred")
        # what fired
        if valid and not ready:
            self.stall_run += 1
            self.hit("valid_stalled")
            if self.stall_run == 4:
                self.hit("stalled_4_cycles")
            if en and not obs["write.runnable"]:
                self.hit("write_refused_while_stalled")
        else:
            self.stall_run = 0
        if done and transfer:
            self.hit("write_same_cycle_as_transfer")
        if done and not valid:
            self.hit("write_into_empty")
        if transfer and self.prev_transfer:
            self.hit("back_to_back_transfers")
        if ready and not valid:
            self.hit("ready_without_valid")
        self.visit((valid, ready, en, done, min(self.stall_run, 4), len(self.pending)), nontrivial=bool(valid))
        self.prev_valid, self.prev_transfer, self.prev_payload = valid, transfer, payload
        self.quiet = self.quiet + 1 if (not en and ready) else 0

    def check_sink(self, cyc, stim, obs):
        valid = stim.get("i.valid", 0)
        payload = self._vals(stim, "i.payload")
        ready = obs["i.ready"]
        # premise: the producer keeps its offer until it is accepted
        if self.prev_valid and not self.prev_transfer:
            self.premise(valid and payload == self.prev_payload, "producer withdrew or changed an offer")
        done = {}
        for p in ["read"] + self.peeks:
            en = stim.get(f"{p}.en", 0)
            done[p] = obs[f"{p}.done"]
            # "read is ready iff valid" (both directions: a requesting caller can run exactly when valid);
            # of peek the statement only says that it never consumes
            if en and p == "read":
                self.expect(obs[f"{p}.runnable"] == valid, "ready-mismatch",
                            f"{p} callable={obs[f'{p}.runnable']} but valid={valid}", port=p)
                self.hit("read_ready_judged_valid" if valid else "read_ready_judged_not_valid")
            elif en and obs[f"{p}.runnable"] != valid:
                self.hit("peek_callable_differs_from_valid")
            self.expect(not done[p] or (en and valid), "ran-when-not-callable",
                        f"{p}: en={en} valid={valid} done={done[p]}", port=p)
            if en and valid and not done[p]:
                self.hit("blocked_though_ready")
            if done[p]:
                got = self._vals(obs, f"{p}.o.data")
                # an executed peek is the non-consuming read: it shows the payload a read would consume
                if p == "read" or valid:
                    self.expect(got == payload, "data-mismatch", f"{p} returned {got}, stream offers {payload}", port=p)
        transfer = bool(valid and ready)
        npeek = sum(done[p] for p in self.peeks)
        if done["read"]:
            self.expect(transfer, "read-did-not-consume", f"read executed but ready={ready}: the payload stays offered")
        else:
            self.expect(not ready, "consumed-without-read",
                        f"ready={ready} without an executed read ({npeek} peek(s) executed, valid={valid})")
        # what fired
        if done["read"]:
            self.hit("read_consumed")
        if done["peek"] and not done["read"]:
            self.hit("peek_without_read")
        if done["peek"] and done["read"]:
            self.hit("read_and_peek_same_cycle")
        if npeek == 2:
            self.hit("two_peeks_same_cycle")
            if not done["read"]:
                self.hit("two_peeks_without_read")
        if len(self.peeks) == 2 and npeek == 1 and stim.get("peek.en") and stim.get("peek2.en"):
            self.hit("one_of_two_requested_peeks_served")
        if stim.get("read.en") and not valid:
            self.hit("read_refused_no_valid")
        if stim.get("peek.en") and not valid:
            self.hit("peek_refused_no_valid")
        if valid and not transfer:
            self.hit("offer_stalled")
        if transfer and self.prev_transfer:
            self.hit("back_to_back_transfers")
        self.visit((valid, stim.get("read.en", 0), stim.get("peek.en", 0), done["read"], done["peek"], self.prev_transfer,
                    stim.get("peek2.en", 0), done.get("peek2", 0)), nontrivial=bool(valid))
        if transfer:
            self.offer = None
        self.prev_valid, self.prev_transfer, self.prev_payload = valid, transfer, payload

    def check_wrap(self, cyc, stim, obs):
        c = self.cfg
        wen, wdone = stim.get("write.en", 0), obs["write.done"]
        ren, rdone = stim.get("read.en", 0), obs["read.done"]
        self.expect(not wdone or wen, "ran-when-not-callable", "write done without request", port="write")
        self.expect(not rdone or ren, "ran-when-not-callable", "read done without request", port="read")
        level = len(self.pending) + len(self.inmod)
        iv, ir, ip = obs["m.i.valid"], obs["m.i.ready"], obs["m.i.raw"]
        ov, ordy, op = obs["m.o.valid"], obs["m.o.ready"], obs["m.o.raw"]
        # the source half, seen at the wrapped module's input: valid and payload hold until accepted
        if self.prev_valid and not self.prev_transfer:
            self.expect(iv, "valid-dropped", f"valid at the module's input fell without a transfer (payload was {self.prev_payload})",
                        port="write")
            self.expect(ip == self.prev_payload, "payload-changed",
                        f"payload at the module's input changed from {self.prev_payload} to {ip} while valid and not accepted",
                        port="write")
        if wdone:
            self.pending.append(obs["write.raw"])
            self.hit("written")
        itransfer = bool(iv and ir)
        if itransfer:  # every written item reaches the module exactly once, in order
            self.expect(bool(self.pending), "spurious-transfer",
                        f"the module was handed {ip} but nothing is outstanding", port="write")
            self.expect(ip == self.pending[0], "sequence-mismatch",
                        f"the module was handed {ip}, next written item is {self.pending[0]} "
                        f"({len(self.pending)} outstanding)", port="write")
            self.inmod.append(self.pending.pop(0))
            self.hit("handed_to_module")
        # the sink half, seen at the module's output: read is ready iff valid, consumes exactly the offered payload,
        # nothing is consumed without an executed read
        if ren:
            self.expect(obs["read.runnable"] == ov, "ready-mismatch",
                        f"read callable={obs['read.runnable']} but the module's output valid={ov}", port="read")
            self.hit("wrapper_read_ready_judged_valid" if ov else "wrapper_read_ready_judged_not_valid")
        if rdone:
            got = obs["read.raw"]
            self.expect(bool(ov and ordy), "read-did-not-consume",
                        f"read executed but the module's output has valid={ov} ready={ordy}", port="read")
            self.expect(got == op, "data-mismatch", f"read returned {got}, the module offers {op}", port="read")
            self.expect(bool(self.inmod), "spurious-read", f"read returned {got} but the module holds nothing")
            want = xform(self.inmod[0], self.iw, self.ow, c.get("xk", 0))
            self.expect(got == want, "sequence-mismatch",
                        f"read returned {got}, next item is {self.inmod[0]} which the module emits as {want} "
                        f"({len(self.inmod)} in the module)")
            gl = tuple(obs.get("read.o.data" + suf) for suf, _, _, _ in self.oleafs)
            self.expect(gl == unpack(want, self.oleafs), "data-mismatch",
                        f"read returned the fields {gl}, the module's output payload has {unpack(want, self.oleafs)}", port="read")
            self.inmod.pop(0)
            self.hit("read")
        else:
            self.expect(not ordy, "consumed-without-read", f"the module's output sees ready={ordy} without an executed read",
                        port="read")
        if wen and not obs["write.runnable"]:
            self.hit("write_refused")
        if ren and not obs["read.runnable"]:
            self.hit("read_refused")
        if wdone and rdone:
            self.hit("write_and_read_same_cycle")
        if stim.get("stall") and wen:
            self.hit("stub_stall_with_write_request")
        if iv and not ir:
            self.hit("module_input_stalled")
        if level >= 2:
            self.hit("two_or_more_in_flight")
        if c.get("oshape") is not None and rdone:
            self.hit("read_differently_shaped_output")
            if self.iw == self.ow:
                self.hit("read_same_width_other_shape")
        self.visit((level, wen, ren, wdone, rdone, stim.get("stall", 0)), nontrivial=bool(wdone or rdone))
        self.prev_valid, self.prev_transfer, self.prev_payload = iv, itransfer, ip
        self.quiet = self.quiet + 1 if (not wen and ren and not stim.get("stall")) else 0

    def finish(self):
        left = self.pending + self.inmod
        if self.kind in ("source", "wrap") and left:
            # only decided when the trace really ends with the drain (truncated / shrunk traces do not)
            if self.quiet < self.quiet_bound:
                return
            self.expect(False, "item-not-emitted",
                        f"{len(left)} written item(s) never left although the peer was ready for {self.quiet} cycles: "
                        f"{left[:3]}")


class Prop(PropBase):
    ID = "C29"
    tiers = {
        "quick": {"runs": 2700, "selftest_runs": 4},
        "thorough": {"runs": 30000, "selftest_runs": 32},
    }
    rule = ("one run = one adapter (StreamSource / StreamSink / StreamModuleWrapper+stub) x payload shape (unsigned, "
            "signed, enum, array, flat / nested struct; the wrapped stub's output payload may be shaped differently from "
            "its input payload), optionally a second producer / consumer / peeking observer, driven for "
            "60-200 cycles by a seeded phase plan (random(p) / consumer stalled / producer starved / both always / "
            "half) and ending with a drain; distinct = distinct (configuration, valid, ready, requests, executed calls, "
            "stall length / outstanding items); non-trivial = valid was high (source, sink) or a call executed (wrapper)")
    expected_cov = ["written", "transferred", "valid_stalled", "stalled_4_cycles", "write_refused_while_stalled",
                    "write_same_cycle_as_transfer", "write_into_empty", "back_to_back_transfers", "ready_without_valid",
                    "read_consumed", "peek_without_read", "read_and_peek_same_cycle", "read_refused_no_valid",
                    "peek_refused_no_valid", "offer_stalled", "read", "write_refused", "read_refused",
                    "write_and_read_same_cycle", "stub_stall_with_write_request", "two_or_more_in_flight",
                    "read_ready_judged_valid", "read_ready_judged_not_valid", "wrapper_read_ready_judged_valid",
                    "wrapper_read_ready_judged_not_valid", "handed_to_module", "module_input_stalled",
                    "two_peeks_same_cycle", "two_peeks_without_read", "read_differently_shaped_output",
                    "payload_signed", "payload_enum", "payload_array", "payload_nested_struct",
                    "read_same_width_other_shape",
                    "twin_callers_contend", "twin_caller_served"]
    real = ["transactron.lib.stream.StreamSource", "transactron.lib.stream.StreamSink",
            "transactron.lib.stream.StreamModuleWrapper", "amaranth.lib.stream / wiring.connect",
            "transactron.lib.adapters.AdapterTrans", "TransactionManager + scheduler", "amaranth pysim"]
    stubs = ["cycle driver as stream peer (consumer ready / protocol-abiding producer)",
             "PassThrough: the stream module wrapped by StreamModuleWrapper (1-entry register, 1-entry pipe, or "
             "amaranth SyncFIFOBuffered, with a free stall input; output bits = input bits repeated up to the output "
             "width xor a constant) is defined by the harness",
             "list reference model (outstanding items)"]
    assumptions = ["'every written item is emitted' has no latency in the statement: an item counts as not emitted when it is "
                   "still outstanding at the end of a run after capacity + 2 cycles without a new write and with the peer always "
                   "ready (capacity = source register, + stub storage + its output register for the wrapper)"]
    search_space = "adapter kinds, payload shapes and handshake histories with consumer stalls and producer gaps"

    def gen_config(self, rng, tier, idx):
        big = tier == "thorough"
        kind = ["source", "sink", "wrap"][idx % 3]
        r = rng.random()
        if r < 0.45:
            shape = rng.choice([1, 8, 10, 16])
        elif r < 0.72:
            shape = [["tag", rng.choice([8, 12])], ["aux", rng.choice([1, 5])]]
            if rng.random() < 0.3:
                shape.append(["x", 9])
        else:  # signed, enum, array and nested payloads
            shape = rng.choice([
                ["s", rng.choice([2, 8, 13])],
                ["enum", rng.choice([2, 3])],
                ["arr", 4, 3],
                ["arr", ["s", 3], 2],
                [["tag", 8], ["in", [["x", 3], ["y", ["s", 4]]]], ["e", ["enum", 2]]],
                [["tag", ["s", 9]], ["v", ["arr", 2, 3]]],
                ["arr", [["x", 2], ["y", ["s", 3]]], 2],
            ])
        cycles = rng.randint(60, 400 if big else 200)
        cfg = {"kind": kind, "shape": shape, "cycles": cycles, "twin": int(kind != "source" and rng.random() < 0.3), "sched": rng.choice(["eager", "eager", "rr"]),
               "plan": make_plan(rng, cycles, ["random", "random", "stall", "starve", "full", "half"], min_len=5, max_len=30)}
        if kind == "sink":
            cfg["p_peek"] = rng.choice([0.0, 0.3, 0.7, 1.0])
            cfg["peek2"] = int(rng.random() < 0.3)
        if kind == "wrap":
            cfg["stub"] = rng.choice(["reg", "pipe", "fifo"])
            cfg["stub_depth"] = rng.choice([2, 3, 4])
            cfg["p_stall"] = rng.choice([0.0, 0.1, 0.4])
            if rng.random() < 0.4:  # the module's output payload is wider / narrower / differently structured
                iw = spec_width(shape)
                if rng.random() < 0.5 and iw >= 2:  # as wide as the input, other meaning
                    oshape = rng.choice([["s", iw], iw, [["lo", iw // 2], ["hi", ["s", iw - iw // 2]]],
                                         [["a", iw - 1], ["b", 1]]])
                else:
                    oshape = rng.choice([4, 8, 12, 24, ["s", 8], ["s", 16], [["lo", 5], ["hi", ["s", 6]]], ["arr", 3, 4],
                                         ["enum", 3], [["tag", 8], ["aux", 5]]])
                if oshape != shape:
                    cfg["oshape"] = oshape
                    cfg["xk"] = rng.getrandbits(spec_width(oshape))
        if kind != "sink":
            cfg["wtwin"] = int(rng.random() < 0.2)
        return cfg

    def make(self, cfg):
        return Scen(cfg)

    def features(self, cfg, viol):
        return {"adapter": cfg["kind"], "port": (viol.get("info") or {}).get("port")}

    def cfg_signature(self, cfg):
        return [cfg["kind"], cfg["shape"], cfg["sched"], cfg.get("stub"), cfg.get("stub_depth"), cfg.get("p_peek"),
                cfg.get("p_stall"), cfg.get("twin", 0), cfg.get("oshape"), cfg.get("xk", 0), cfg.get("wtwin", 0),
                cfg.get("peek2", 0)]

    def shrink_cfg(self, cfg):
        sh = cfg["shape"]
        if isinstance(sh, list) and isinstance(sh[0], list) and len(sh) > 1:  # a struct: drop its last field
            c = dict(cfg)
            c["shape"] = sh[:-1]
            yield c
        for key in ("wtwin", "peek2", "twin"):
            if cfg.get(key):
                c = dict(cfg)
                c[key] = 0
                yield c
        if cfg["sched"] != "eager":
            c = dict(cfg)
            c["sched"] = "eager"
            yield c


PROP = Prop()
