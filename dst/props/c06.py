"""C06 — body effects follow the run signal (comb / sync / av_comb / top_comb)."""
from ..coregen.prop import CoreProp


class Prop(CoreProp):
    ID = "C06"
    checks = ['C06']
    tiers = {"quick": {"runs": 400, "selftest_runs": 4}, "thorough": {"runs": 8000, "selftest_runs": 32}}
    feat = {'p_wit': 0.8, 'p_nested': 0.25, 'p_ctrl': 0.45}
    rule = 'one run = one generated program (1-3 modules, 1-5 transactions, 0-6 methods, call depth <= 3, nested bodies, If/Switch/FSM around bodies and calls, enable_call, validate_arguments, aliases, nonexclusive methods, witnesses of all four domains) under one arbiter and one internal set order, driven for 60-160 cycles by a seeded phase plan (random / all-on contention / single-method stall / flapping / exhaustive valuation sweep when <= 10 one-bit inputs); distinct = distinct (program, arbiter, set of transactions running in a cycle); non-trivial = at least one transaction ran'
    expected_cov = ['comb_suppressed_because_body_not_running', 'av_comb_active_while_body_not_running', 'top_comb_active_under_false_condition', 'sync_effect', 'fsm_transition']


PROP = Prop()
