"""C35 — the profiler records what actually ran.

The library's own profiler_process runs next to the cycle driver on generated designs; what it
recorded for cycle k is compared with the run / ready / runnable signals the driver sampled in cycle k."""
from ..coregen.prop import CoreProp
from ..coregen.scen import CoreScenario
from ..kernel import Violation


class Scen(CoreScenario):
    def post_elab(self, tm):
        super().post_elab(tm)
        from transactron.profiler import Profile
        from transactron.testing.profiler import profiler_process

        for tid, t in self.b.trans.items():
            self.obs[f"{tid}.runnable"] = t.runnable
        self.profile = Profile()
        self.extra_processes.append(("process", profiler_process(tm, self.profile)))
        self.history = []
        self.count_run = {}
        self.count_locked = {}
        self.count_mrun = {}

    def ident(self, pid):
        name = self.profile.transactions_and_methods[pid].name
        return name[len("GenModule_"):] if name.startswith("GenModule_") else name

    def compare(self, k):
        a = self.a
        stim, obs = self.history[k]
        if len(self.profile.cycles) <= k:
            raise Violation("profile-cycle-missing", f"profile has {len(self.profile.cycles)} cycles, cycle {k} already simulated")
        c = self.profile.cycles[k]
        running = {self.ident(i): (self.ident(j) if j is not None else None) for i, j in c.running.items()}
        locked = {self.ident(i): self.ident(j) for i, j in c.locked.items()}
        want = {b for b in a.bodies if obs[f"{b}.run"]}
        if set(running) != want:
            raise Violation("profile-running-set-mismatch", f"cycle {k}: profile lists {sorted(running)}, bodies that ran: {sorted(want)}")
        for b, caller in running.items():
            if a.bodies[b].kind == "T":
                if caller is not None:
                    raise Violation("profile-caller-mismatch", f"cycle {k}: transaction {b} recorded with caller {caller}")
                self.count_run[b] = self.count_run.get(b, 0) + 1
            else:
                parents = {s.body for s in self.sites_of(b)}
                if caller not in parents or not obs.get(f"{caller}.run"):
                    raise Violation("profile-caller-mismatch",
                                    f"cycle {k}: method {b} recorded with caller {caller}; callers {sorted(parents)}, running {sorted(want)}")
                self.count_mrun[b] = self.count_mrun.get(b, 0) + 1
                self.hit("method_caller_recorded")
        for t, by in locked.items():
            if t not in a.bodies or a.bodies[t].kind != "T":
                continue  # methods locked by disabled calls: not part of the statement
            ok = obs[f"{t}.ready"] and obs[f"{t}.runnable"] and not obs[f"{t}.run"]
            if not ok:
                raise Violation("profile-locked-mismatch", f"cycle {k}: {t} marked locked but ready={obs[f'{t}.ready']} runnable={obs[f'{t}.runnable']} run={obs[f'{t}.run']}")
            # "a conflicting transaction ran": the named transaction ran and is related to t at all (a shared method
            # or an explicit relation).  Whether the library's conflict graph is *right* is C01 / C07's business -- a
            # profile that faithfully names the transaction the arbiter let win must not be blamed for it.
            related = (t, by) in self.rel or bool(set(a.tree_methods.get(t, [])) & set(a.tree_methods.get(by, []))) or \
                any({x, y} == {t, by} for x, y, _ in self.expl)
            if not obs.get(f"{by}.run") or not related:
                raise Violation("profile-locked-mismatch", f"cycle {k}: {t} marked locked by {by}, which {'did not run' if not obs.get(f'{by}.run') else 'is unrelated to it'}")
            self.count_locked[t] = self.count_locked.get(t, 0) + 1
            self.hit("transaction_recorded_locked")

    def check(self, cyc, stim, obs):
        self.history.append((stim, obs))
        if cyc > 0:
            self.compare(cyc - 1)
        running = tuple(t for t in self.a.transactions if obs[f"{t}.run"])
        self.visit(running, nontrivial=len(running) > 0)
        if len(running) > 1:
            self.hit("concurrent_transactions")

    def finish(self):
        if not self.history:
            return
        self.res_cycles = len(self.history)
        self.compare(len(self.history) - 1)
        stats = {st.stat.name: st.stat for st in self.profile.analyze_transactions()}
        ncyc = len(self.history)
        if len(self.profile.cycles) != ncyc:
            raise Violation("profile-cycle-missing", f"profile has {len(self.profile.cycles)} cycles, {ncyc} simulated")
        for t in self.a.transactions:
            st = stats.get("GenModule_" + t) or stats.get(t)
            if st is None:
                raise Violation("profile-statistics-mismatch", f"no statistics for transaction {t}")
            if st.run != self.count_run.get(t, 0) or st.locked != self.count_locked.get(t, 0):
                raise Violation("profile-statistics-mismatch",
                                f"{t}: analyze_transactions run={st.run} locked={st.locked}, counted over cycles "
                                f"run={self.count_run.get(t, 0)} locked={self.count_locked.get(t, 0)}")
        self.hit("statistics_compared")
        self.compare_trees()
        if len(self.history) % 3 == 0:  # a third of the runs (serialising a profile is slow)
            self.roundtrip()

    # ---- the other analyses: statistics equal the counts over the cycles of the profile itself ------------------
    @staticmethod
    def flatten(nodes_by_key, out, path=()):
        """RunStatNode tree -> {path of ids: (run, locked, name)}."""
        for i, node in nodes_by_key:
            pth = path + (i,)
            out[pth] = (node.stat.run, node.stat.locked, node.stat.name)
            Scen.flatten(sorted(node.callers.items()), out, pth)
        return out

    def top_nodes(self, nodes, want_transactions):
        """analyze_* return one node per transaction / method, without the id: matched by (unique) name."""
        info = self.profile.transactions_and_methods
        ids = {}
        for i, inf in info.items():
            if inf.is_transaction == want_transactions:
                if inf.name in ids:
                    return None
                ids[inf.name] = i
        out = []
        for node in nodes:
            if node.stat.name not in ids:
                raise Violation("profile-statistics-mismatch", f"statistics for unknown name {node.stat.name}")
            out.append((ids.pop(node.stat.name), node))
        if ids:
            raise Violation("profile-statistics-mismatch", f"no statistics for {sorted(ids)}")
        return sorted(out, key=lambda e: e[0])

    def compare_flat(self, what, got, want):
        info = self.profile.transactions_and_methods
        for pth in sorted(set(got) | set(want)):
            names = "<-".join(self.ident(i) for i in pth) if what.startswith("analyze_methods") else \
                "->".join(self.ident(i) for i in pth)
            if any(info[i].is_transaction for i in pth[1:]) and what.startswith("analyze_transactions"):
                # a transaction that lost against the running one is listed below it: not part of the statement
                self.hit("locked_transaction_listed_under_winner")
                continue
            g, w = got.get(pth), want.get(pth)
            if g is None or w is None:
                raise Violation("profile-tree-mismatch",
                                f"{what}: node {names} {'missing' if g is None else 'present'}, counting over the cycles of the "
                                f"profile gives {w if w is not None else 'no such call chain'}")
            if g[:2] != tuple(w):
                raise Violation("profile-tree-mismatch",
                                f"{what}: node {names} run={g[0]} locked={g[1]}, counted over the cycles of the profile "
                                f"run={w[0]} locked={w[1]}")
            if g[2] != info[pth[-1]].name:
                raise Violation("profile-tree-mismatch", f"{what}: node {names} carries the name {g[2]}")

    def analysis(self, fn, **kw):
        """Statistics that cannot be computed from a profile the library recorded itself do not equal the counts."""
        try:
            return fn(**kw)
        except Exception as e:
            raise Violation("profile-analysis-raised", f"{fn.__name__}({', '.join(f'{k}={v}' for k, v in kw.items())}) raised "
                            f"{type(e).__name__}: {str(e)[:200]}", exc=type(e).__name__)

    def compare_trees(self):
        prof = self.profile
        info = prof.transactions_and_methods
        limit = len(info) + 1

        # -- analyze_transactions(recursive=True): below a running transaction, everything recorded with it (or with
        #    something below it) as its caller in that cycle -- run if it ran, locked if it was locked
        want = {}
        for c in prof.cycles:
            kids = {}
            for x, par in c.running.items():
                if par is not None:
                    kids.setdefault(par, set()).add(x)
            for x, par in c.locked.items():
                kids.setdefault(par, set()).add(x)

            def walk(pth):
                x = pth[-1]
                e = want.setdefault(pth, [0, 0])
                if x in c.running:
                    e[0] += 1
                elif x in c.locked:
                    e[1] += 1
                if len(pth) < limit:
                    for k in sorted(kids.get(x, ())):
                        walk(pth + (k,))

            for t in sorted(c.running):
                if info[t].is_transaction:
                    walk((t,))
            for t in sorted(c.locked):
                if info[t].is_transaction:
                    want.setdefault((t,), [0, 0])[1] += 1
        for i, inf in info.items():
            if inf.is_transaction:
                want.setdefault((i,), [0, 0])
        tops = self.top_nodes(self.analysis(prof.analyze_transactions, recursive=True), True)
        if tops is None:
            self.hit("profile_names_not_unique")
            return
        got = self.flatten(tops, {})
        self.compare_flat("analyze_transactions(recursive=True)", got, want)
        for (i,) in [p for p in want if len(p) == 1]:
            t = self.ident(i)
            if t in self.a.bodies and (got[(i,)][0] != self.count_run.get(t, 0) or got[(i,)][1] != self.count_locked.get(t, 0)):
                raise Violation("profile-statistics-mismatch",
                                f"{t}: analyze_transactions(recursive=True) run={got[(i,)][0]} locked={got[(i,)][1]}, counted "
                                f"over cycles run={self.count_run.get(t, 0)} locked={self.count_locked.get(t, 0)}")
        self.hit("recursive_transaction_tree_compared")
        if any(len(p) >= 2 and sum(want[p]) for p in want):
            self.hit("recursive_tree_has_callees")
        if any(len(p) >= 3 and sum(want[p]) for p in want):
            self.hit("recursive_tree_depth_3")
        if any(len(p) >= 2 and want[p][1] for p in want if not info[p[-1]].is_transaction):
            self.hit("recursive_tree_locked_method")

        # -- analyze_methods(): run = cycles the method is listed as running, locked = cycles it is listed as locked
        methods = [i for i, inf in info.items() if not inf.is_transaction]
        want = {(m,): [0, 0] for m in methods}
        wantr = {(m,): [0, 0] for m in methods}
        for c in prof.cycles:
            for m in methods:
                if m in c.running:
                    want[(m,)][0] += 1
                    pth, x = (m,), m
                    while True:  # the chain of recorded callers, up to the transaction
                        wantr.setdefault(pth, [0, 0])[0] += 1
                        x = c.running.get(x)
                        if x is None or len(pth) >= limit:
                            break
                        pth += (x,)
                elif m in c.locked:
                    want[(m,)][1] += 1
                    pth, x = (m,), m
                    while True:  # who used the locked method: every caller up the chain is counted as locked with it
                        wantr.setdefault(pth, [0, 0])[1] += 1
                        x = c.running.get(x) if x in c.running else c.locked.get(x)
                        if x is None or len(pth) >= limit:
                            break
                        pth += (x,)
        tops = self.top_nodes(self.analysis(prof.analyze_methods), False)
        if tops is None:
            self.hit("profile_names_not_unique")
            return
        got = self.flatten(tops, {})
        self.compare_flat("analyze_methods()", got, want)
        for (i,) in want:
            b = self.ident(i)
            if b in self.a.bodies and got[(i,)][0] != self.count_mrun.get(b, 0):
                raise Violation("profile-statistics-mismatch",
                                f"method {b}: analyze_methods run={got[(i,)][0]}, ran in {self.count_mrun.get(b, 0)} cycles")
        self.hit("method_statistics_compared")
        if any(v[1] for v in want.values()):
            self.hit("method_statistics_locked_method")
        tops = self.top_nodes(self.analysis(prof.analyze_methods, recursive=True), False)
        got = self.flatten(tops, {})
        self.compare_flat("analyze_methods(recursive=True)", got, wantr)
        self.hit("recursive_method_tree_compared")
        if any(len(p) >= 3 and sum(v) for p, v in wantr.items()):
            self.hit("recursive_method_tree_depth_3")

    def roundtrip(self):
        """Profile.encode / Profile.decode: the statement says nothing about files -- counted, not judged."""
        import os
        import tempfile
        from transactron.profiler import Profile

        path = os.path.join(tempfile.gettempdir(), f"verif_c35_profile_{os.getpid()}.json")
        try:
            self.profile.encode(path)
            back = Profile.decode(path)
            self.hit("profile_roundtrip_equal" if back == self.profile else "profile_roundtrip_differs")
        except Exception as e:
            self.hit("profile_roundtrip_raised_" + type(e).__name__)
        finally:
            try:
                os.remove(path)
            except OSError:
                pass


class Prop(CoreProp):
    ID = "C35"
    checks = ["C35"]
    tiers = {"quick": {"runs": 400, "selftest_runs": 4}, "thorough": {"runs": 8000, "selftest_runs": 32}}
    feat = {"n_conflicts": (0, 2), "prio": True, "n_before": (0, 1), "p_nonex": 0.3}
    rule = ("one run = one generated program (as for C01-C09) simulated with the library's profiler_process next to the cycle "
            "driver; for every cycle the recorded CycleProfile is compared with the sampled run/ready/runnable signals, at the end "
            "analyze_transactions() with the counts over cycles, and analyze_transactions(recursive=True) / analyze_methods() / "
            "analyze_methods(recursive=True) with the counts over the cycles of the profile along every recorded call chain; distinct = (program, arbiter, set of running transactions); "
            "non-trivial = a transaction ran")
    expected_cov = ["method_caller_recorded", "transaction_recorded_locked", "statistics_compared", "concurrent_transactions",
                    "recursive_transaction_tree_compared", "recursive_tree_has_callees", "recursive_tree_depth_3",
                    "recursive_tree_locked_method", "method_statistics_compared", "method_statistics_locked_method",
                    "recursive_method_tree_compared", "recursive_method_tree_depth_3"]
    real = CoreProp.real + ["transactron.profiler (ProfileData, CycleProfile, Profile.analyze_transactions)",
                            "transactron.testing.profiler.profiler_process"]

    def make(self, cfg):
        return Scen(cfg)


PROP = Prop()
