"""C35 — the profiler records what actually ran.

The library's own profiler_process runs next to the cycle driver on generated designs; what it
recorded for cycle k is compared with the run / ready / runnable signals the driver sampled in cycle k."""
from ..coregen.prop import CoreProp
from ..coregen.scen import CoreScenario
from ..kernel import Violation


class Scen(CoreScenario):
    def post_elab(self, tm):
        super().post_elab(tm)
        from transactron.profiler import Profile
        from transactron.testing.profiler import profiler_process

        for tid, t in self.b.trans.items():
            self.obs[f"{tid}.runnable"] = t.runnable
        self.profile = Profile()
        self.extra_processes.append(("process", profiler_process(tm, self.profile)))
        self.history = []
        self.count_run = {}
        self.count_locked = {}

    def ident(self, pid):
        name = self.profile.transactions_and_methods[pid].name
        return name[len("GenModule_"):] if name.startswith("GenModule_") else name

    def compare(self, k):
        a = self.a
        stim, obs = self.history[k]
        if len(self.profile.cycles) <= k:
            raise Violation("profile-cycle-missing", f"profile has {len(self.profile.cycles)} cycles, cycle {k} already simulated")
        c = self.profile.cycles[k]
        running = {self.ident(i): (self.ident(j) if j is not None else None) for i, j in c.running.items()}
        locked = {self.ident(i): self.ident(j) for i, j in c.locked.items()}
        want = {b for b in a.bodies if obs[f"{b}.run"]}
        if set(running) != want:
            raise Violation("profile-running-set-mismatch", f"cycle {k}: profile lists {sorted(running)}, bodies that ran: {sorted(want)}")
        for b, caller in running.items():
            if a.bodies[b].kind == "T":
                if caller is not None:
                    raise Violation("profile-caller-mismatch", f"cycle {k}: transaction {b} recorded with caller {caller}")
                self.count_run[b] = self.count_run.get(b, 0) + 1
            else:
                parents = {s.body for s in self.sites_of(b)}
                if caller not in parents or not obs.get(f"{caller}.run"):
                    raise Violation("profile-caller-mismatch",
                                    f"cycle {k}: method {b} recorded with caller {caller}; callers {sorted(parents)}, running {sorted(want)}")
                self.hit("method_caller_recorded")
        for t, by in locked.items():
            if t not in a.bodies or a.bodies[t].kind != "T":
                continue  # methods locked by disabled calls: not part of the statement
            ok = obs[f"{t}.ready"] and obs[f"{t}.runnable"] and not obs[f"{t}.run"]
            if not ok:
                raise Violation("profile-locked-mismatch", f"cycle {k}: {t} marked locked but ready={obs[f'{t}.ready']} runnable={obs[f'{t}.runnable']} run={obs[f'{t}.run']}")
            # "a conflicting transaction ran": the named transaction ran and is related to t at all (a shared method
            # or an explicit relation).  Whether the library's conflict graph is *right* is C01 / C07's business -- a
            # profile that faithfully names the transaction the arbiter let win must not be blamed for it.
            related = (t, by) in self.rel or bool(set(a.tree_methods.get(t, [])) & set(a.tree_methods.get(by, []))) or \
                any({x, y} == {t, by} for x, y, _ in self.expl)
            if not obs.get(f"{by}.run") or not related:
                raise Violation("profile-locked-mismatch", f"cycle {k}: {t} marked locked by {by}, which {'did not run' if not obs.get(f'{by}.run') else 'is unrelated to it'}")
            self.count_locked[t] = self.count_locked.get(t, 0) + 1
            self.hit("transaction_recorded_locked")

    def check(self, cyc, stim, obs):
        self.history.append((stim, obs))
        if cyc > 0:
            self.compare(cyc - 1)
        running = tuple(t for t in self.a.transactions if obs[f"{t}.run"])
        self.visit(running, nontrivial=len(running) > 0)
        if len(running) > 1:
            self.hit("concurrent_transactions")

    def finish(self):
        if not self.history:
            return
        self.res_cycles = len(self.history)
        self.compare(len(self.history) - 1)
        stats = {st.stat.name: st.stat for st in self.profile.analyze_transactions()}
        ncyc = len(self.history)
        if len(self.profile.cycles) != ncyc:
            raise Violation("profile-cycle-missing", f"profile has {len(self.profile.cycles)} cycles, {ncyc} simulated")
        for t in self.a.transactions:
            st = stats.get("GenModule_" + t) or stats.get(t)
            if st is None:
                raise Violation("profile-statistics-mismatch", f"no statistics for transaction {t}")
            if st.run != self.count_run.get(t, 0) or st.locked != self.count_locked.get(t, 0):
                raise Violation("profile-statistics-mismatch",
                                f"{t}: analyze_transactions run={st.run} locked={st.locked}, counted over cycles "
                                f"run={self.count_run.get(t, 0)} locked={self.count_locked.get(t, 0)}")
        self.hit("statistics_compared")


class Prop(CoreProp):
    ID = "C35"
    checks = ["C35"]
    tiers = {"quick": {"runs": 400, "selftest_runs": 4}, "thorough": {"runs": 8000, "selftest_runs": 32}}
    feat = {"n_conflicts": (0, 2), "prio": True, "n_before": (0, 1), "p_nonex": 0.3}
    rule = ("one run = one generated program (as for C01-C09) simulated with the library's profiler_process next to the cycle "
            "driver; for every cycle the recorded CycleProfile is compared with the sampled run/ready/runnable signals, at the end "
            "analyze_transactions() with the counts over cycles; distinct = (program, arbiter, set of running transactions); "
            "non-trivial = a transaction ran")
    expected_cov = ["method_caller_recorded", "transaction_recorded_locked", "statistics_compared", "concurrent_transactions"]
    real = CoreProp.real + ["transactron.profiler (ProfileData, CycleProfile, Profile.analyze_transactions)",
                            "transactron.testing.profiler.profiler_process"]

    def make(self, cfg):
        return Scen(cfg)


PROP = Prop()
