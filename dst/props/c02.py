"""C02 — explicitly conflicting transactions and methods never run together."""
from ..coregen.prop import CoreProp


class Prop(CoreProp):
    ID = "C02"
    checks = ['C02']
    tiers = {"quick": {"runs": 1600, "selftest_runs": 4}, "thorough": {"runs": 8000, "selftest_runs": 32}}
    feat = {'n_conflicts': (1, 4), 'prio': True, 'n_before': (0, 1), 'p_self_conflict_excl': 0.7, 'p_self_conflict_nonexcl': 0.06, 'p_nonex': 0.35, 'p_wrap': 0.7}
    rule = 'one run = one generated program (1-3 modules, 1-5 transactions, 0-6 methods, call depth <= 3, nested bodies, If/Switch/FSM around bodies and calls, enable_call, validate_arguments, aliases, nonexclusive methods, 1-4 add_conflict relations of all priorities) under one arbiter and one internal set order, driven for 60-160 cycles by a seeded phase plan (random / all-on contention / single-method stall / flapping / exhaustive valuation sweep when <= 10 one-bit inputs); distinct = distinct (program, arbiter, set of transactions running in a cycle); non-trivial = at least one transaction ran'
    expected_cov = ['conflict_side_runs', 'conflict_both_sides_enabled', 'concurrent_transactions']

    def violation_class(self, feats):
        return {k: feats.get(k) for k in ("kind", "self_conflict", "self_conflict_exclusive_paths")}


PROP = Prop()
